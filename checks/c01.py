"""C01 handshake agreement: theorems Properties/C01.v (both endpoints' snapshots as functions of the same
hello/answer pair are mirrored; exporters equal for every PRF given equal secrets) + real handshakes of the
C11 configuration-pair generator over a faulty scripted network (loss, duplication, reordering, delay of
handshake datagrams): whenever both sides report success every negotiated output is compared across the two
endpoints (the property's own statement), with the captured wire and with `negotiate` of Neg/C11Negotiate.v.
Base pairs with a ServerHello message hook (appended / rewritten ALPN, swapped cipher suite) check that the server's
committed view is a function of its FINAL ServerHello (F82, repaired; model negotiate_steered / agreement12_hooked),
and a pair on a user-supplied cipher suite (WithCustomCipherSuites) checks the exporter clause there (known item:
ExportKeyingMaterial fails, model gap export_as_coded / C01_export_unavailable_on_custom_suite_refuted).
Leg "names" (zz_verif_c01_names_test.go, model Neg/C01Names.v): agreement on the VALUE of negotiated names - lists whose
entries are equal up to a normalisation but not byte-identical (letter case, Unicode folding / form, surrounding bytes,
prefixes, duplicates, empty / absent), server names in another letter case; theorems C01_alpn_bytes_agree*."""
import json
import vlib
import c11lib

SITE = "handshake commit points (flight12 flight3Parse/flight4Generate/flight4bGenerate, flight13, state.go generateState / ExportKeyingMaterial)"


SITES = {
    "exporter-unavailable-on-custom-cipher-suite":
        "state.go ExportKeyingMaterial / initializedCipherSuite (ciphersuite.ForID(id, nil): the suites of "
        "WithCustomCipherSuites are not consulted)",
    "server-commits-pre-hook-server-hello":
        "internal/flight/flight12/flight4handler.go flight4Generate / flight4bhandler.go flight4bGenerate (values committed "
        "before the ServerHello hook)",
}
# base pairs that must be REFUSED on a perfect network (the hook names another cipher suite than the server chose)
EXPECT_REFUSED = ("base:hook-swaps-cipher-suite", "base:hook-rewrites-session-id-resumed")


def key_of(c):
    return json.dumps([c["c"], c["s"], c["resume"], c["mask"]], sort_keys=True)


def faulty(c):
    return bool(c["mask"]) and any(a != "pass" for a in c["mask"])


# ------------------------------------------------------------------ leg "names": value-level identity of negotiated names
NAMES_IMPORTS = "From DtlsV Require Import Lib.Bytes Neg.C01Names Neg.C01NamesRun."
NAMES_SITE = ("ALPN commit points: pkg/protocol/extension/alpn.go ALPNProtocolSelection, flight12 flight4Generate / "
              "flight4bGenerate / commitFinalServerHello (server), flight3handler.go flight3Parse (client)")


def _nb(s):
    return list(s.encode("utf-8"))


def _norm(s):
    import unicodedata
    return unicodedata.normalize("NFKC", s).casefold().strip(" \x00\n./")


def near_pairs(c):
    """pairs (client entry, server entry) equal up to a normalisation (case, Unicode form, surrounding bytes, one a prefix
    of the other) but not byte-identical"""
    out = []
    for a in c["names_c"] or []:
        for b in c["names_s"] or []:
            if a != b and (_norm(a) == _norm(b) or a.startswith(b) or b.startswith(a)):
                out.append((a, b))
    return out


def names_key(c):
    return json.dumps([c["gen"], c["names_c"], c["names_s"], c["names_c_absent"], c["names_s_absent"], c["sni_name"], c["mask"]])


def names_term(c):
    def lst(l):
        return vlib.clist([vlib.cNlist(_nb(x)) for x in (l or [])])
    k, a = c11lib.obs_class(c)
    ok = k == 0
    return "(%s, %s, %d, %d, %d, %s, %s)" % (
        lst(c["names_c"]), lst(c["names_s"]), 3 if c["c"]["min"] == 3 else 2, k, max(a, 0),
        vlib.cNlist(_nb(c["client"]["alpn"]) if ok else []), vlib.cNlist(_nb(c["server"]["alpn"]) if ok else []))


def names_as_ids(c):
    """the same case with every distinct BYTE STRING replaced by its own protocol number: what Neg/C11Negotiate.v
    negotiate (protocols are numbers, equality is identity) says about the pair"""
    import copy
    d = copy.deepcopy(c)
    ids = {}
    for x in (c["names_c"] or []) + (c["names_s"] or []):
        ids.setdefault(x, len(ids) + 1)
    d["c"]["alpn"] = [ids[x] for x in c["names_c"] or []]
    d["s"]["alpn"] = [ids[x] for x in c["names_s"] or []]
    for side in ("client", "server"):
        a = c[side]["alpn"]
        d[side]["alpn"] = "" if not a else "p%d" % ids.get(a, 9999)
    return d


def names_slim(c):
    sc = c11lib.slim_case(c)
    sc.update({"alpn_client_list": c["names_c"], "alpn_server_list": c["names_s"],
               "alpn_client_list_absent": c["names_c_absent"], "alpn_server_list_absent": c["names_s_absent"],
               "server_name": c["sni_name"], "seeding_association_uses_client_list_on_both_sides": c["seed_same"],
               "alpn_client_reports_hex": c["client"]["alpn"].encode("utf-8").hex(),
               "alpn_server_reports_hex": c["server"]["alpn"].encode("utf-8").hex(),
               "rerun": "TestVerifC01Names (tags c11,c01), job with these two ALPN lists (WithSupportedProtocols), option sets "
                        "c/s, resume/seeding and network script as recorded"})
    return sc


def names_leg(chk):
    out = vlib.out_path("c01names")
    rc, o = vlib.go_test(".", "^TestVerifC01Names$", {"VERIF_SEED": chk.seed, "VERIF_TIER": chk.tier, "VERIF_OUT": out},
                         tags=["c11", "c01"], timeout=3000)
    cases = vlib.read_jsonl(out)
    vlib.cleanup(out)
    found = False
    if rc != 0:
        kind = vlib.classify_go_failure(o)
        if kind == "panic":
            found = True
            chk.finding(NAMES_SITE, {"monitor": "panic"}, "panic during handshakes between differently spelled lists",
                        {"output": o[-4000:]})
        else:
            chk.broken("correspondence harness TestVerifC01Names no longer runs against /repo (%s)" % kind, o)
            return False
    # ---- the property's own statement: both sides report success => the same values, byte for byte
    established = [c for c in cases if c11lib.both_built(c) and c11lib.both_ok(c)]
    reported = set()
    for c in established:
        for mon, text in c11lib.monitor_agreement(c):
            if mon in reported:
                continue
            reported.add(mon)
            found = True
            extra = ""
            if mon == "alpn":
                extra = " (bytes %s / %s; client list %r, server list %r)" % (
                    c["client"]["alpn"].encode("utf-8").hex(), c["server"]["alpn"].encode("utf-8").hex(), c["names_c"], c["names_s"])
            chk.finding(NAMES_SITE if mon == "alpn" else SITES.get(mon, SITE), {"monitor": "disagreement:" + mon},
                        "both sides report success but %s%s [gen %s, mask %s]" % (text, extra, c["gen"], c["mask"]),
                        {"how": "ALPN lists as given (WithSupportedProtocols), option sets c/s, %s, scripted network" % (
                            "resumed handshake" if c["resume"] else "full handshake"), "case": names_slim(c)})
    # a byte-identical pair must negotiate on every kind (otherwise the leg exercises nothing)
    for c in cases:
        if not c["mask"] and c["names_c"] == ["http/1.1", "webrtc"] and c["names_s"] == ["webrtc"] and not c["sni_name"]:
            want = "" if c["c"]["min"] == 3 else "webrtc"
            if not c11lib.both_ok(c) or c["client"]["alpn"] != want:
                chk.broken("names leg: kind %s does not negotiate %r between identically spelled lists" % (c["gen"], want),
                           json.dumps(names_slim(c))[:3000])
    # ---- the model predicts, per configuration: refused (no common byte string) or the common byte-identical name
    ok_model, mout = vlib.coq_make(["theories/Neg/C01NamesRun.vo", "theories/Neg/C11Run.vo"])
    if not ok_model:
        chk.broken("model Neg/C01NamesRun.v no longer compiles", mout)
        return found
    final = [c for c in cases if c11lib.both_built(c) and not c["sni_name"] and (c11lib.both_ok(c) or not faulty(c))]
    bad, err = vlib.coq_mismatches("c01n", NAMES_IMPORTS, "c01n_case", "c01n_ok", [names_term(c) for c in final], shard=250) \
        if final else ([], "")
    cmp_cases = final
    which = "Neg.C01NamesRun.c01n_ok"
    if bad is not None and not bad:
        plain = [c for c in established if not c["sni_name"]]
        bad, err = vlib.coq_mismatches("c01ni", c11lib.IMPORTS, "c11_case", "c11_ok",
                                       [c11lib.case_term(names_as_ids(c)) for c in plain], shard=150) if plain else ([], "")
        cmp_cases = plain
        which = "Neg.C11Run.c11_ok (one protocol number per distinct byte string)"
    if bad is None:
        chk.broken("correspondence evaluation failed in coqc (%s)" % which, err)
    else:
        for i in bad[:1]:
            c = cmp_cases[i]
            mons = c11lib.monitor_agreement(c)
            chk.finding(NAMES_SITE, {"monitor": "model-mismatch"},
                        "differently spelled lists: the association ends otherwise than the model predicts (client list %r, server "
                        "list %r: client %s %r, server %s %r) [gen %s, mask %s]%s" % (
                            c["names_c"], c["names_s"], c["client"]["class"], c["client"]["alpn"], c["server"]["class"],
                            c["server"]["alpn"], c["gen"], c["mask"], (": " + mons[0][1]) if mons else ""),
                        {"case": names_slim(c), "correspondence": which, "mismatching": len(bad)},
                        no_input=(not mons and not found))
    near = [c for c in cases if near_pairs(c) or (c["sni_name"]) or "duplicates" in c["gen"]]
    kinds = {}
    for c in cases:
        k = "%s:%s" % (c["gen"].split(":")[0], "established" if c11lib.both_ok(c) else
                       "%s/%s" % (c["client"]["class"], c["server"]["class"]))
        kinds[k] = kinds.get(k, 0) + 1
    chk.count("names", len(cases), [names_key(c) for c in near],
              samples=[{"gen": c["gen"], "client_list": c["names_c"], "server_list": c["names_s"], "client": c["client"]["class"],
                        "server": c["server"]["class"], "alpn": [c["client"]["alpn"], c["server"]["alpn"]]} for c in near[-3:]])
    chk.leg_info("names", established=len(established), compared_with_model=len(final), outcomes=kinds,
                 note="non-trivial = the two lists hold entries equal up to a normalisation (letter case, Unicode folding / "
                      "form, surrounding bytes, prefix) but not byte-identical, a server name in another letter case, or "
                      "lists with duplicates")
    chk.cov["traces_validated_against_impl"] = chk.cov.get("traces_validated_against_impl", 0) + len(established)
    return found


def run(chk):
    proved = chk.prove(extra_targets=["theories/Neg/C11Run.vo"])
    out = vlib.out_path("c01")
    rc, o = vlib.go_test(".", "^TestVerifC01$", {"VERIF_SEED": chk.seed, "VERIF_TIER": chk.tier, "VERIF_OUT": out},
                         tags=["c11", "c01"], timeout=3000)
    cases = vlib.read_jsonl(out)
    vlib.cleanup(out)
    found_input = False
    if rc != 0:
        kind = vlib.classify_go_failure(o)
        if kind == "panic":
            found_input = True
            chk.finding(SITE, {"monitor": "panic"}, "panic during scripted handshakes", {"output": o[-4000:]})
        else:
            chk.broken("correspondence harness TestVerifC01 no longer runs against /repo (%s)" % kind, o)

    # ---- the property's own statement on every association both sides report as established
    established = [c for c in cases if c11lib.both_built(c) and c11lib.both_ok(c)]
    reported = set()
    for c in established:
        for mon, text in c11lib.monitor_hook(c):
            if mon in reported:
                continue
            reported.add(mon)
            found_input = True
            chk.finding(SITES[mon], {"monitor": mon}, "%s [gen %s, mask %s]" % (text, c["gen"], c["mask"]),
                        {"how": "ServerHello message hook on the server, scripted network", "case": c11lib.slim_case(c)})
        for mon, text in c11lib.monitor_agreement(c):
            if mon in reported:
                continue
            reported.add(mon)
            found_input = True
            chk.finding(SITES.get(mon, SITE), {"monitor": "disagreement:" + mon},
                        "both sides report success but %s [gen %s, mask %s]" % (text, c["gen"], c["mask"]),
                        {"how": "option sets c/s, scripted network: action per emitted datagram index "
                                "(pass/drop/dup/hold:k), then reliable", "case": c11lib.slim_case(c)})
    # a fault-free run of every base pair must establish (otherwise the leg exercises nothing)
    for c in cases:
        if c["gen"] in EXPECT_REFUSED:
            if not c["mask"] and c11lib.both_ok(c) and not c11lib.monitor_hook(c):
                chk.broken("base pair %s establishes although the hook named another cipher suite / renamed a resumed session" % c["gen"],
                           json.dumps(c11lib.slim_case(c))[:3000])
            continue
        if c["gen"].startswith("base:") and not c["mask"] and not c11lib.both_ok(c):
            chk.broken("base pair %s does not establish on a perfect network" % c["gen"],
                       json.dumps(c11lib.slim_case(c))[:3000])

    # ---- established associations carry exactly the values `negotiate` predicts, whatever the schedule
    ok_model, mout = vlib.coq_make(["theories/Neg/C11Run.vo"])
    if not ok_model:
        chk.broken("model Neg/C11Run.v no longer compiles", mout)
    elif established:
        # (a user-supplied cipher suite is outside the negotiation model; hooked associations go through negotiate_steered)
        plain = [c for c in established if not c11lib.custom_suite(c) and not c11lib.steered(c)]
        hooked = [c for c in established if not c11lib.custom_suite(c) and c11lib.steered(c) and c11lib.steer_modelled(c)]
        terms = [c11lib.case_term(c) for c in plain]
        bad, err = vlib.coq_mismatches("c01", c11lib.IMPORTS, "c11_case", "c11_ok", terms, shard=80) if terms else ([], "")
        if bad is not None and hooked:
            bad2, err = vlib.coq_mismatches("c01s", c11lib.IMPORTS, "c11s_case", "c11s_ok",
                                            [c11lib.steer_case_term(c) for c in hooked], shard=80)
            bad = None if bad2 is None else bad + [len(plain) + i for i in bad2]
        established_cmp = plain + hooked
        if bad is None:
            chk.broken("correspondence evaluation failed in coqc (Neg/C11Run.v c11_ok / c11s_ok)", err)
        else:
            for i in bad[:1]:
                c = established_cmp[i]
                mons = c11lib.monitor_agreement(c)
                chk.finding(SITE, {"monitor": "model-mismatch"},
                            "established association differs from Neg/C11Negotiate.v negotiate [gen %s, mask %s]%s" % (
                                c["gen"], c["mask"], (": " + mons[0][1]) if mons else ""),
                            {"case": c11lib.slim_case(c), "correspondence": "Neg.C11Run.c11_ok", "mismatching": len(bad)},
                            no_input=(not mons and not found_input))

    # ---- coverage
    nontriv = [c for c in established if faulty(c)]
    chk.count("faulty-network", len(cases), [key_of(c) for c in nontriv],
              samples=[{"gen": c["gen"], "mask": c["mask"], "version": c["client"]["version"], "suite": c["client"]["suite"],
                        "tdone_ms": c["tdone"]} for c in nontriv[-3:]])
    chk.cov["traces_validated_against_impl"] = len(established)
    kinds = {}
    notest = {}
    for c in cases:
        if c11lib.both_built(c) and c11lib.both_ok(c):
            k = "DTLS1.%d %s%s" % (c["client"]["version"],
                                   "resumed" if c11lib.resumed_obs(c) else
                                   ("psk" if c["client"]["suite"] in c11lib.PSK_SUITES and c["client"]["suite"] != 0xc037 else
                                    "ecdhe-psk" if c["client"]["suite"] == 0xc037 else "certificate"),
                                   "+clientauth" if c["server"]["ncerts"] else "")
            kinds[k] = kinds.get(k, 0) + 1
        elif c11lib.both_built(c):
            k = "%s/%s" % (c["client"]["class"], c["server"]["class"])
            notest[k] = notest.get(k, 0) + 1
    chk.leg_info("faulty-network", established=len(established), established_with_faults=len(nontriv),
                 handshake_kinds=kinds, not_established=notest,
                 note="associations that do not establish under faults (or between option sets that cannot complete) are "
                      "outside C01's statement (liveness is C02); they are listed here only")
    if names_leg(chk):
        found_input = True
    if not proved and not found_input:
        where, pout = getattr(chk, "proof_error", ("?", ""))
        chk.broken("proof obligation Properties/C01.v no longer checks (%s)" % where, pout)
    chk.finish(
        level="proof",
        rule="real client+server handshakes in a synctest bubble over a scripted faulty network: 19 base pairs (certificate, "
             "client authentication ECDSA/Ed25519, RSA, PSK with/without hint, ECDHE-PSK, resumed certificate/PSK, DTLS 1.3 "
             "with/without client authentication and cookie, dual-stack client against 1.3, dual-stack against dual-stack, 1.2 "
             "client against dual-stack; a server ServerHello message hook that appends ALPN / rewrites ALPN / names "
             "another cipher suite - the last must be refused - / rewrites the session id (both sides name the session alike "
             "and the next connection over the same stores resumes; refused on a resumption); a user-supplied cipher "
             "suite 0xFFFE on both sides; "
             "CID+SRTP+MKI+ALPN on) x every "
             "single fault (drop/dup/hold:1/hold:3) on the first datagrams, plus generated compatible pairs x sampled masks; "
             "on every association both sides report as established: version, suite, 3 exporters, mirrored CIDs, RRC, ALPN, "
             "SRTP profile + MKI, peer chains vs presented chains, 2 payloads each way, and equality with `negotiate`. "
             "Non-trivial = established under a mask with at least one fault; distinct by (client set, server set, "
             "resumption, mask). Leg names (TestVerifC01Names): 10 handshake kinds (DTLS 1.2 certificate / client "
             "authentication / PSK / ECDHE-PSK / resumed with the same lists / resumed after a seeding association with "
             "identically spelled lists, DTLS 1.3, SRTP-suite-group lists with duplicates) x ALPN lists whose entries are equal "
             "up to a normalisation but not byte-identical (ASCII case, Kelvin sign / long s, NFC / NFD, leading / trailing "
             "bytes, prefixes, duplicates, empty against absent list) + server names in another letter case + generated list "
             "pairs, some under fault masks: agreement monitors on every established pair (names compared as bytes), every "
             "final outcome compared with Neg/C01Names.v (refused with no_application_protocol iff no common byte string, else "
             "that byte string on both sides; nothing on DTLS 1.3) and with `negotiate` (one protocol number per distinct byte "
             "string).",
        assumptions=["the two endpoints act on the same final ClientHello / server answer and hold the same master secret: "
                     "established by the Finished exchange (C04); byte-level key derivation is C10",
                     "unmodified datagrams: the network only drops, duplicates, delays and reorders",
                     "exporter equality is proved for every PRF at the level of the formula; the harness compares the real "
                     "bytes of 3 labels",
                     "the exporter formula presupposes that the suite's hash can be looked up: as coded that holds for "
                     "built-in suites only (export_as_coded); associations on a user-supplied cipher suite are outside "
                     "the negotiation model and are judged by the monitors alone"])


def replay(chk, path):
    """bin/check C01 --replay <file>: rerun the one association (option sets, hook, network script) of a finding"""
    c, body = c11lib.replay_case(chk, path, ["c11", "c11x", "c01"])
    if c is not None:
        sc = c11lib.slim_case(c)
        print("replayed: client %s / server %s" % (json.dumps(sc["client"]), json.dumps(sc["server"])))
        hits = []
        if c11lib.both_built(c) and c11lib.both_ok(c):
            hits = [(SITES[m], m, t) for m, t in c11lib.monitor_hook(c)] + \
                   [(SITES.get(m, SITE), "disagreement:" + m, "both sides report success but " + t)
                    for m, t in c11lib.monitor_agreement(c)]
        for site, mon, text in hits:
            chk.finding(site, {"monitor": mon}, text, {"how": "replay of " + path, "case": sc})
        if not hits:
            print("replay: no monitor fires on this tree (stored signature %s)" % json.dumps(body.get("signature")))
    chk.finish(level="proof", rule="replay of one stored association")
