"""C02 liveness under finite loss/duplication/reordering: theorems Properties/C02.v (every state
the adversarial closure of the handshake model can reach completes within 6 reliable rounds, for
the regenerated flight structures) + replay of scripted-network traces of the real client and
server through the model (content, virtual time, establishment) + completion monitors."""
import vlib
import c02lib


def established_13(c):
    return c["cdone"] and c["sdone"] and c["cerr"] == "ok" and c["serr"] == "ok"


EARLY_BOUND_MS = 3000  # two retransmission rounds at the 1 s initial interval (1 s observed on the tree)


def monitor_early(c):
    """C02's predicate on one case of the early-record leg"""
    if c.get("livelock"):
        return "livelock: an endpoint busy-loops (virtual time cannot advance, neither side completes)"
    if not established_13(c):
        return "handshake did not complete: client=%s server=%s after %d ms" % (
            c["cerr"] if c["cdone"] else "pending", c["serr"] if c["sdone"] else "pending", c["tdone"])
    if not c["data_ok"]:
        return "handshake completed but application data does not flow both ways"
    if c["pattern"] != "none" and c["tdone"] - c["tfault"] > EARLY_BOUND_MS:
        return "late: completion took %d ms after the last fault (bound %d ms)" % (c["tdone"] - c["tfault"], EARLY_BOUND_MS)
    return None


def early_replay(c):
    kinds = {d["idx"]: "%s:%s" % (d["side"], d["kind"]) for d in c.get("window") or []}
    r = {"how": "go test TestVerifC02Early (leg early): DTLS 1.2 handshake in the synctest lab, variant %s (MTU %d); the first "
                "transmissions of the %s's final flight listed in `window` are " % (c["variant"], c["mtu"], c["flight"]),
         "variant": c["variant"], "mtu": c["mtu"], "pattern": c["pattern"], "flight": c["flight"],
         "window": [kinds[d["idx"]] + "#%d" % d["idx"] for d in c.get("window") or []],
         "next_epoch_record_before_its_ccs": c.get("fin_early"),
         "outcome": {k: c.get(k) for k in ("cdone", "sdone", "cerr", "serr", "tfault", "tdone", "data_ok", "livelock")}}
    if c["pattern"] == "perm":
        r["how"] += "delivered in the order `delivery_order` (pure reordering, nothing lost), every other datagram in order"
        r["delivery_order"] = [kinds.get(i, "?") + "#%d" % i for i in c["order"] or []]
    elif c["pattern"] == "loss":
        r["how"] += "lost once where listed in `lost` (pure loss), every other datagram and every retransmission delivered"
        r["lost"] = [kinds.get(i, "?") + "#%d" % i for i in c["lost"] or []]
    if c.get("spinning"):
        r["spinning_goroutines"] = c["spinning"]
    return r


def run_early(chk):
    """leg early: small MTUs (48..80), every permutation / loss subset (<= 2) of the tail of the final flights: a
    next-epoch record (Finished) reaches the receiver before its ChangeCipherSpec"""
    out = vlib.out_path("c02early")
    rc, o = vlib.go_test(".", "^TestVerifC02Early$", {"VERIF_SEED": chk.seed, "VERIF_TIER": chk.tier, "VERIF_OUT": out},
                         tags=["c02"], timeout=3000)
    cases = vlib.read_jsonl(out)
    vlib.cleanup(out)
    found = False
    live = [c for c in cases if c.get("livelock")]
    if rc != 0 and not live:
        kind = vlib.classify_go_failure(o)
        if kind == "panic":
            found = True
            chk.finding("handshake (early records)", {"monitor": "panic", "leg": "early"},
                        "panic during small-MTU handshakes with early next-epoch records", {"output": o[-4000:]})
        else:
            chk.broken("correspondence harness TestVerifC02Early no longer runs against /repo (%s)" % kind, o)
    fails = {}
    for c in cases:
        m = monitor_early(c)
        if m:
            fails.setdefault((m.split(":")[0], c["pattern"], bool(c.get("fin_early"))), []).append((c, m))
    for (mon, pat, fe), cs in sorted(fails.items()):
        c, m = min(cs, key=lambda x: (len(x[0].get("window") or []), x[0]["mtu"]))
        found = True
        chk.finding("conn.go early-record queue (handleQueuedPackets / handleFutureLegacyPacket) + fsm12",
                    {"leg": "early", "monitor": mon, "pattern": pat, "next_epoch_record_before_ccs": fe},
                    "%s [variant %s, %s %s of the %s's final flight; %d case(s) with this outcome]" % (
                        m, c["variant"], pat, (c["order"] if pat == "perm" else c["lost"]), c["flight"], len(cs)),
                    early_replay(c))
    nontriv = [c for c in cases if c["pattern"] != "none"]
    chk.count("early", len(cases), [(c["variant"], c["pattern"], tuple(c["order"] or []), tuple(c["lost"] or [])) for c in nontriv],
              samples=[{"variant": c["variant"], "pattern": c["pattern"], "order": c["order"], "lost": c["lost"],
                        "fin_early": c["fin_early"], "recovery_ms": c["tdone"] - c["tfault"]} for c in nontriv[-3:]])
    chk.leg_info("early", variants=len(set(c["variant"] for c in cases)),
                 next_epoch_record_before_ccs=sum(1 for c in nontriv if c.get("fin_early")),
                 max_recovery_ms=max([c["tdone"] - c["tfault"] for c in nontriv] or [0]),
                 note="MTU 48..80, X25519/P-256, certificate/PSK/ECDHE-PSK, client auth, resumed; every permutation of the tail "
                      "of each final flight and every loss subset (<= 2) of it; real-time watchdog for busy-looping endpoints")
    return found


def run(chk):
    proved = chk.prove(extra_targets=["theories/Hs/Abs12Run.vo"])
    out = vlib.out_path("c02")
    rc, o = vlib.go_test(".", "^TestVerifC02$", {"VERIF_SEED": chk.seed, "VERIF_TIER": chk.tier, "VERIF_OUT": out},
                         tags=["c02"], timeout=3000)
    cases = vlib.read_jsonl(out)
    vlib.cleanup(out)
    found = False
    if rc != 0:
        kind = vlib.classify_go_failure(o)
        if kind == "panic":
            found = True
            chk.finding("handshake", {"monitor": "panic"}, "panic during scripted handshakes", {"output": o[-4000:]})
        else:
            chk.broken("correspondence harness TestVerifC02 no longer runs against /repo (%s)" % kind, o)
    reported = set()
    for c in cases:
        m = c02lib.monitor_liveness(c)
        if m:
            found = True
            key = (c["variant"], m.split(":")[0])
            if key in reported:
                continue
            reported.add(key)
            chk.finding("internal/handshake fsm12 + flight12 parsers",
                        {"variant": c["variant"], "mask": c["mask"], "monitor": m.split(":")[0]},
                        "%s [variant %s, mask %s]" % (m, c["variant"], c["mask"]),
                        {"how": "scripted network: action per emitted datagram index (pass/drop/dup/hold:k), then reliable",
                         "case": c02lib.slim(c)})
    # DTLS 1.3 handshakes (with/without HelloRetryRequest, fragmented): monitor-only leg
    out13 = vlib.out_path("c02v13")
    rc13, o13 = vlib.go_test(".", "^TestVerifC02V13$", {"VERIF_SEED": chk.seed, "VERIF_TIER": chk.tier, "VERIF_OUT": out13},
                             tags=["c02"], timeout=3000)
    cases13 = vlib.read_jsonl(out13)
    vlib.cleanup(out13)
    if rc13 != 0:
        kind = vlib.classify_go_failure(o13)
        if kind == "panic":
            found = True
            chk.finding("handshake (DTLS 1.3)", {"monitor": "panic"}, "panic during scripted DTLS 1.3 handshakes", {"output": o13[-4000:]})
        else:
            chk.broken("correspondence harness TestVerifC02V13 no longer runs against /repo (%s)" % kind, o13)
    fails13 = {}
    for c in cases13:
        m = c02lib.monitor_liveness(c)
        if m:
            cl = "pending" if not c["cdone"] else ("ok" if c["cerr"] == "ok" else c["cerr"].split(":")[-1].strip()[:40])
            sv = "pending" if not c["sdone"] else ("ok" if c["serr"] == "ok" else c["serr"].split(":")[-1].strip()[:40])
            key = (cl, sv) if not established_13(c) else ("data", "data")
            fails13.setdefault(key, []).append(c)
    for (cl, sv), cs in sorted(fails13.items()):
        c = min(cs, key=lambda x: (sum(1 for a in (x["mask"] or []) if a != "pass"), len(x["mask"] or [])))
        found = chk.finding("internal/handshake fsm13.go (DTLS 1.3 handshake under loss)",
                            {"family": "dtls13", "monitor": "handshake did not complete", "client": cl, "server": sv},
                            "DTLS 1.3 handshake did not complete: client=%s server=%s [variant %s, mask %s; %d masks with this outcome]" % (
                                cl, sv, c["variant"], c["mask"], len(cs)),
                            {"case": {k: c[k] for k in ("variant", "mask", "cdone", "sdone", "cerr", "serr", "tdone")},
                             "all_masks": [(x["variant"], x["mask"]) for x in cs][:40]}) or found
    found = run_early(chk) or found
    if proved:
        bad = c02lib.accept(chk, "c02", cases)
        for i in (bad or [])[:1]:
            m = c02lib.monitor_liveness(cases[i]) or c02lib.monitor_discipline(cases[i])
            chk.finding("internal/handshake fsm12 + flight12 parsers",
                        {"variant": cases[i]["variant"], "monitor": "model-mismatch"},
                        "trace not accepted by the Hs/Abs12 model [variant %s, mask %s]%s" % (
                            cases[i]["variant"], cases[i]["mask"], (": " + m) if m else ""),
                        {"case": c02lib.slim(cases[i]), "correspondence": "Hs.Abs12Run.c02_ok"},
                        no_input=(m is None and not found))
    nontriv = [c for c in cases if c["mask"] and any(a != "pass" for a in c["mask"])]
    chk.count("masks", len(cases), [(c["variant"], tuple(c["mask"])) for c in nontriv],
              samples=[{"variant": c["variant"], "mask": c["mask"], "tdone_ms": c["tdone"]} for c in nontriv[-3:]])
    chk.cov["traces_validated_against_impl"] = len(cases)
    vs = {}
    for c in cases:
        vs[c["variant"]] = vs.get(c["variant"], 0) + 1
    chk.count("dtls13_masks", len(cases13), [(c["variant"], tuple(c["mask"] or [])) for c in cases13
                                             if c["mask"] and any(a != "pass" for a in c["mask"])])
    chk.leg_info("dtls13_masks", not_completed=sum(len(v) for v in fails13.values()),
                 note="monitor-only: the Coq model is the DTLS 1.2 machinery")
    chk.leg_info("masks", variants=vs, max_completion_ms=max([c["tdone"] for c in cases] or [0]),
                 exhaustive="every mask over {pass,drop,dup,hold:1,hold:3}^N for the first N=%d datagrams on psk and "
                            "psk-nohint; every single fault at positions 0..9 on every variant" % (5 if chk.tier == "thorough" else 3))
    if not proved and not found:
        where, pout = getattr(chk, "proof_error", ("?", ""))
        chk.broken("proof obligation Properties/C02.v no longer checks (%s)" % where, pout)
    # DTLS 1.3 handshake machinery: model Hs/Hs13.v, theorems Properties/C02hs13.v, trace replay
    import hs13lib
    hs13lib.run_c02(chk, regenerate=False)
    chk.finish(
        level="proof",
        rule="real client+server handshakes in a synctest bubble over a scripted network, 12 variants (PSK, certificate, "
             "client auth, skip-hello-verify, resumed, session stores, MTU 40/150/200, CID); masks = action per emitted "
             "datagram; every trace is replayed through the Coq model (emitted kinds, virtual times, establishment). "
             "Non-trivial = mask with at least one fault; distinct by (variant, mask).",
        assumptions=["unmodified datagrams (cryptographic checks are C03/C04)",
                     "duplicate delivery of the same datagram instance is inert (replay detection, C06)",
                     "liveness theorems are instances for the regenerated flight structures of 10 variants; the two "
                     "small-MTU variants are covered by trace replay and monitors only"])
