"""Shared by C02 / C17 / C13 checks: turn harness traces into Coq terms for Hs/Abs12Run.v."""
from vlib import clist, cbool

IMPORTS = "From DtlsV Require Import Gen.Generated Hs.Abs12 Hs.Abs12Run."
F = {"F0": 1, "F1": 2, "F2": 3, "F3": 4, "F4": 5, "F4b": 6, "F5": 7, "F5b": 8, "F6": 9}


def rec_term(r, finseq=0):
    if r["ct"] == 20:
        return "CCS"
    if r["e"] >= 1:
        return "(Fin %d)" % finseq
    return "(Hs %d %d %d %d %d)" % (r["ht"], r["ms"], r["fo"], r["fl"], r["tl"])


def dgram_term(recs, finseq=0):
    return clist([rec_term(r, finseq) for r in recs])


def classify(side, recs):
    hts = [r["ht"] for r in recs if r["ct"] in (22, 25) and r["e"] == 0]
    fin = any(r["e"] >= 1 for r in recs)
    if side == "client":
        if 1 in hts:
            ms = [r["ms"] for r in recs if r.get("ht") == 1]
            return "F1" if min(ms) == 0 else "F3"
        return None   # F5 / F5b decided by context
    if 3 in hts:
        return "F2"
    if 2 in hts:
        return None   # F4 / F4b by context
    return None


def flights_from_canonical(c):
    """group the emissions of a fault-free run into flights; returns {flight name: [recs lists]} and
    per side the message sequence of the encrypted Finished"""
    groups = []   # (side, [recs...])
    for e in c["events"]:
        if e["ev"] == "emit":
            if groups and groups[-1][0] == e["side"] and groups[-1][2]:
                groups[-1][1].append(e["recs"])
            else:
                groups.append([e["side"], [e["recs"]], True])
        elif e["ev"] in ("deliver", "drop"):
            if groups:
                groups[-1][2] = False
    fl = {}
    finseq = {}
    maxms = {"client": -1, "server": -1}
    resumed = False
    for side, dgs, _ in groups:
        allrecs = [r for d in dgs for r in d]
        hts = [r["ht"] for r in allrecs if r["ct"] in (22, 25) and r["e"] == 0]
        hasfin = any(r["e"] >= 1 for r in allrecs)
        if side == "client":
            if 1 in hts:
                ms = min(r["ms"] for r in allrecs if r["ht"] == 1 and r["e"] == 0)
                name = "F1" if ms == 0 else "F3"
            else:
                name = "F5" if 16 in hts else "F5b"
        else:
            if 3 in hts:
                name = "F2"
            elif 2 in hts:
                name = "F4b" if hasfin else "F4"
                resumed = resumed or hasfin
            else:
                name = "F6"
        for r in allrecs:
            if r["ct"] in (22, 25) and r["e"] == 0:
                maxms[side] = max(maxms[side], r["ms"])
        if hasfin:
            finseq[name] = maxms[side] + 1
        if name not in fl:
            fl[name] = dgs
    return fl, finseq, resumed


def cfg_term(canon, variant_flags, initial_ms=1000, backoff=True):
    fl, finseq, resumed = flights_from_canonical(canon)
    items = []
    for name, dgs in sorted(fl.items()):
        items.append("(%d, %s)" % (F[name], clist([dgram_term(d, finseq.get(name, 0)) for d in dgs])))
    hv = "F2" in fl
    psk = variant_flags["psk"]
    return "{| c_hv := %s; c_psk := %s; c_resume := %s; c_initial := %d; c_backoff := %s; c_fl := %s |}" % (
        cbool(hv), cbool(psk), cbool(resumed), initial_ms, cbool(backoff), clist(items))


def case_term(c, cfgterm):
    """moves + observations of one trace"""
    side_of = {}
    kidx = {}
    counts = {"client": 0, "server": 0}
    outs = {"client": [], "server": []}
    moves = []
    delivered = set()
    dup_skipped = 0
    for e in c["events"]:
        if e["ev"] == "emit":
            side_of[e["idx"]] = e["side"]
            kidx[e["idx"]] = counts[e["side"]]
            counts[e["side"]] += 1
            outs[e["side"]].append("(%d%%N, %s)" % (e["t"], dgram_term(e["recs"])))
        elif e["ev"] == "inject":
            moves.append("Inject %s %s %d%%N" % (cbool(e["side"] == "client"), dgram_term(e["recs"]), e["t"]))
        elif e["ev"] == "deliver":
            if e["idx"] in delivered:
                # the same datagram instance again.  Since commit 5206069 unprotected records do not move the
                # replay window: the epoch-0 records of the copy are processed again, its protected record is
                # refused as a replay once it can be read (model: Redeliver / duplicate_of)
                dup_skipped += 1
                moves.append("Redeliver %s %d %d%%N" % (cbool(side_of[e["idx"]] == "client"), kidx[e["idx"]], e["t"]))
                continue
            delivered.add(e["idx"])
            moves.append("Deliver %s %d %d%%N" % (cbool(side_of[e["idx"]] == "client"), kidx[e["idx"]], e["t"]))
    ce = c["cdone"] and c["cerr"] == "ok"
    se = c["sdone"] and c["serr"] == "ok"
    term = "(%s, %s, %d%%N, %s, %s, %s, %s)" % (cfgterm, clist(moves), c["tdone"], clist(outs["client"]),
                                              clist(outs["server"]), cbool(ce), cbool(se))
    return term, dup_skipped


# ---------------------------------------------------------------- shared by c02.py / c17.py / c13.py

GIMPORTS = "From DtlsV Require Import Gen.Generated Gen.GeneratedFlights Hs.Abs12 Hs.Abs12Run."


def gcfg(c):
    return "(retime g_cfg_%s %d%%N %s)" % (c["variant"].replace("-", "_"), c["interval_ms"],
                                         "false" if c["no_backoff"] else "true")


def established(c):
    return c["cdone"] and c["sdone"] and c["cerr"] == "ok" and c["serr"] == "ok"


def timer_groups(c, side, new_only=False):
    """virtual times of timer-caused emission groups of `side`, with the number of deliveries to
    `side` seen so far at each. With new_only, a delivery only counts if a datagram with that
    content (record kinds, message sequences, fragment ranges) had not been delivered to `side`
    before - i.e. deliveries of retransmitted flights do not count."""
    out = []
    ndel = 0
    content = {}
    seen = set()
    for e in c["events"]:
        if e["ev"] == "emit":
            content[e["idx"]] = tuple((r["ct"], r["e"], r["ht"], r["ms"], r["fo"], r["fl"]) for r in e["recs"])
        if e["ev"] in ("deliver", "inject") and e["side"] == side:
            if e["ev"] == "inject":
                k = tuple((r["ct"], r["e"], r["ht"], r["ms"], r["fo"], r["fl"]) for r in e["recs"])
            else:
                k = content.get(e["idx"])
            if not new_only or k not in seen:
                ndel += 1
            seen.add(k)
        elif e["ev"] == "emit" and e["side"] == side and e["cause"] == "timer":
            if not out or out[-1][0] != e["t"]:
                out.append((e["t"], ndel))
    return out


def monitor_liveness(c):
    if not established(c):
        return "handshake did not complete: client=%s server=%s after %d ms" % (
            c["cerr"] if c["cdone"] else "pending", c["serr"] if c["sdone"] else "pending", c["tdone"])
    if not c["data_ok"]:
        return "handshake completed but application data does not flow both ways"
    start = max(c["tfault"], c.get("silence_until", 0))
    tdone = c.get("tcomplete", c["tdone"])
    if tdone - start > 6 * 60000 + 1000:
        return "completion took %d ms after the last fault (bound 6 x 60 s)" % (tdone - start)
    return None


REPEATED = "backoff defeated by repeated data"
RESENT = "final flight re-sent for a datagram that is not a retransmission"


def monitor_finished(c):
    """after completing, an endpoint re-sends its final flight only in response to the peer's retransmission:
    a forged fragment with a message number the peer never used (injected) must draw nothing"""
    ev = c["events"]
    for i, e in enumerate(ev):
        if e["ev"] != "inject" or e["t"] <= c.get("tcomplete", c["tdone"]):
            continue
        for f in ev[i + 1:]:
            if f["ev"] in ("deliver", "inject", "drop"):
                break
            if f["ev"] == "emit" and f["side"] == e["side"] and f["t"] == e["t"] and f["cause"] == "deliver":
                r = e["recs"][0]
                return "%s: the completed %s answered a forged handshake fragment (type %d, message_seq %d, never used by the peer) at %d ms with %d record(s)" % (
                    RESENT, e["side"], r["ht"], r["ms"], e["t"], len(f["recs"]))
    return None


def monitor_discipline(c):
    m = monitor_finished(c)
    if m:
        return m
    I = c["interval_ms"]
    for e in c["events"]:
        if e["ev"] == "emit" and e["cause"] == "timer" and e["t"] > 0:
            if any(r["ct"] in (22, 25) and r["e"] == 0 and r["ht"] == 3 for r in e["recs"]):
                return "HelloVerifyRequest sent by the retransmission timer at %d ms" % e["t"]
    for side in ("client", "server"):
        g = timer_groups(c, side)
        for (t0, d0), (t1, d1), (t2, d2) in zip(g, g[1:], g[2:]):
            if d0 == d1 == d2 and t0 > 0:
                g1, g2 = t1 - t0, t2 - t1
                want = g1 if c["no_backoff"] else min(2 * g1, 60000)
                if g2 != want:
                    return "%s retransmission gaps %d ms then %d ms (expected %d) with no input in between" % (
                        side, g1, g2, want)
        # only NEW data restores the initial interval: deliveries that merely repeat datagrams the
        # side has already received must leave the doubling alone
        gn = timer_groups(c, side, new_only=True)
        for (t0, d0), (t1, d1), (t2, d2) in zip(gn, gn[1:], gn[2:]):
            if d0 == d1 == d2 and t0 > 0 and not c["no_backoff"]:
                g1, g2 = t1 - t0, t2 - t1
                if g2 < g1 and g1 <= 60000:
                    return "%s retransmission interval fell from %d ms to %d ms although only retransmitted data arrived in between" % (
                        side, g1, g2)
                if g2 > 60000:
                    return "%s retransmission interval %d ms above the 60 s cap" % (side, g2)
                if g1 < 60000 and g2 != min(2 * g1, 60000):
                    return REPEATED + ": %s retransmission gaps %d ms then %d ms (expected %d) although only data it had received before arrived in between" % (
                        side, g1, g2, min(2 * g1, 60000))
        # NEW data restores the initial interval even when it does not complete the awaited flight:
        # after a datagram carrying a handshake message number never seen before, the timer expiry
        # that follows doubles the INITIAL interval, so the gap between the next two timer
        # retransmissions is 2 x initial (initial without backoff) when nothing arrives in between
        ev = c["events"]
        maxms = -1
        marks = []          # per event index: "T" timer group start of side, "N" truly new delivery, "D" other delivery
        content = {}
        lastT = None
        for i, e in enumerate(ev):
            if e["ev"] == "emit":
                content[e["idx"]] = e["recs"]
                if e["side"] == side and e["cause"] == "timer" and e["t"] > 0 and e["t"] != lastT:
                    marks.append(("T", e["t"]))
                    lastT = e["t"]
            elif e["ev"] == "deliver" and e["side"] == side:
                recs = content.get(e["idx"]) or []
                ms = [r["ms"] for r in recs if r["ct"] == 22 and r["e"] == 0]
                if ms and max(ms) > maxms and all(r["ct"] == 22 and r["e"] == 0 for r in recs):
                    marks.append(("N", e["t"]))
                else:
                    marks.append(("D", e["t"]))
                if ms:
                    maxms = max(maxms, max(ms))
        for i in range(len(marks)):
            if marks[i][0] != "N":
                continue
            rest = marks[i + 1:]
            ts = [j for j, m in enumerate(rest) if m[0] == "T"]
            if len(ts) < 2:
                continue
            a, b = ts[0], ts[1]
            if any(m[0] != "T" for m in rest[a:b]):
                continue     # something arrived between the two expiries
            gap = rest[b][1] - rest[a][1]
            want = I if c["no_backoff"] else min(2 * I, 60000)
            if gap != want:
                return "%s: after new handshake data at %d ms the next two timer retransmissions are %d ms apart (expected %d: the initial interval is restored by new data)" % (
                    side, marks[i][1], gap, want)
        nem = sum(1 for e in c["events"] if e["ev"] == "emit" and e["side"] == side)
        ndel = sum(1 for e in c["events"] if e["ev"] == "deliver" and e["side"] == side)
        maxfl = 1
        run = 0
        last = None
        for e in c["events"]:
            if e["ev"] == "emit" and e["side"] == side:
                run = run + 1 if last == "emit" else 1
                maxfl = max(maxfl, run)
                last = "emit"
            elif e["ev"] != "emit" or e["side"] != side:
                last = None if e["ev"] in ("deliver", "drop") else last
        # bound with the largest flight of a fault-free run (<= 8 datagrams in every variant used)
        if nem > 8 * (len(g) + ndel + 1):
            return "%s emitted %d datagrams for %d timer expiries and %d received datagrams" % (side, nem, len(g), ndel)
    return None


def accept(chk, name, cases, shard=40):
    """replay every trace through the Coq model; returns list of mismatching indices or None"""
    import vlib
    terms = [case_term(c, gcfg(c))[0] for c in cases]
    bad, err = vlib.coq_mismatches(name, GIMPORTS, "c02_case", "c02_ok", terms, shard=shard, scope="nat_scope")
    if bad is None:
        chk.broken("correspondence evaluation failed in coqc (Hs/Abs12Run.v c02_ok)", err)
        return None
    return bad


def slim(c):
    d = {k: c[k] for k in ("variant", "mask", "interval_ms", "no_backoff", "silence_until", "silence_to",
                           "cdone", "sdone", "cerr", "serr", "tdone", "tfault", "data_ok")}
    d["events"] = [{k: e[k] for k in ("ev", "idx", "side", "t") if k in e} |
                   ({"recs": [(r["ct"], r["e"], r["ht"], r["ms"], r["fo"], r["fl"]) for r in e["recs"]], "cause": e["cause"]}
                    if e["ev"] == "emit" else {}) for e in c["events"]][:120]
    return d
