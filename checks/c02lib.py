"""Shared by C02 / C17 / C13 checks: turn harness traces into Coq terms for Hs/Abs12Run.v."""
from vlib import clist, cbool

IMPORTS = "From DtlsV Require Import Gen.Generated Hs.Abs12 Hs.Abs12Run."
F = {"F0": 1, "F1": 2, "F2": 3, "F3": 4, "F4": 5, "F4b": 6, "F5": 7, "F5b": 8, "F6": 9}


def rec_term(r, finseq=0):
    if r["ct"] == 20:
        return "CCS"
    if r["e"] >= 1:
        return "(Fin %d)" % finseq
    return "(Hs %d %d %d %d %d)" % (r["ht"], r["ms"], r["fo"], r["fl"], r["tl"])


def dgram_term(recs, finseq=0):
    return clist([rec_term(r, finseq) for r in recs])


def classify(side, recs):
    hts = [r["ht"] for r in recs if r["ct"] in (22, 25) and r["e"] == 0]
    fin = any(r["e"] >= 1 for r in recs)
    if side == "client":
        if 1 in hts:
            ms = [r["ms"] for r in recs if r.get("ht") == 1]
            return "F1" if min(ms) == 0 else "F3"
        return None   # F5 / F5b decided by context
    if 3 in hts:
        return "F2"
    if 2 in hts:
        return None   # F4 / F4b by context
    return None


def flights_from_canonical(c):
    """group the emissions of a fault-free run into flights; returns {flight name: [recs lists]} and
    per side the message sequence of the encrypted Finished"""
    groups = []   # (side, [recs...])
    for e in c["events"]:
        if e["ev"] == "emit":
            if groups and groups[-1][0] == e["side"] and groups[-1][2]:
                groups[-1][1].append(e["recs"])
            else:
                groups.append([e["side"], [e["recs"]], True])
        elif e["ev"] in ("deliver", "drop"):
            if groups:
                groups[-1][2] = False
    fl = {}
    finseq = {}
    maxms = {"client": -1, "server": -1}
    resumed = False
    for side, dgs, _ in groups:
        allrecs = [r for d in dgs for r in d]
        hts = [r["ht"] for r in allrecs if r["ct"] in (22, 25) and r["e"] == 0]
        hasfin = any(r["e"] >= 1 for r in allrecs)
        if side == "client":
            if 1 in hts:
                ms = min(r["ms"] for r in allrecs if r["ht"] == 1 and r["e"] == 0)
                name = "F1" if ms == 0 else "F3"
            else:
                name = "F5" if 16 in hts else "F5b"
        else:
            if 3 in hts:
                name = "F2"
            elif 2 in hts:
                name = "F4b" if hasfin else "F4"
                resumed = resumed or hasfin
            else:
                name = "F6"
        for r in allrecs:
            if r["ct"] in (22, 25) and r["e"] == 0:
                maxms[side] = max(maxms[side], r["ms"])
        if hasfin:
            finseq[name] = maxms[side] + 1
        if name not in fl:
            fl[name] = dgs
    return fl, finseq, resumed


def cfg_term(canon, variant_flags, initial_ms=1000, backoff=True):
    fl, finseq, resumed = flights_from_canonical(canon)
    items = []
    for name, dgs in sorted(fl.items()):
        items.append("(%d, %s)" % (F[name], clist([dgram_term(d, finseq.get(name, 0)) for d in dgs])))
    hv = "F2" in fl
    psk = variant_flags["psk"]
    return "{| c_hv := %s; c_psk := %s; c_resume := %s; c_initial := %d; c_backoff := %s; c_fl := %s |}" % (
        cbool(hv), cbool(psk), cbool(resumed), initial_ms, cbool(backoff), clist(items))


def case_term(c, cfgterm):
    """moves + observations of one trace"""
    side_of = {}
    kidx = {}
    counts = {"client": 0, "server": 0}
    outs = {"client": [], "server": []}
    moves = []
    delivered = set()
    dup_skipped = 0
    for e in c["events"]:
        if e["ev"] == "emit":
            side_of[e["idx"]] = e["side"]
            kidx[e["idx"]] = counts[e["side"]]
            counts[e["side"]] += 1
            outs[e["side"]].append("(%d%%N, %s)" % (e["t"], dgram_term(e["recs"])))
        elif e["ev"] == "deliver":
            if e["idx"] in delivered:
                dup_skipped += 1      # same datagram instance again: inert (replay detection, C06)
                continue
            delivered.add(e["idx"])
            moves.append("Deliver %s %d %d%%N" % (cbool(side_of[e["idx"]] == "client"), kidx[e["idx"]], e["t"]))
    ce = c["cdone"] and c["cerr"] == "ok"
    se = c["sdone"] and c["serr"] == "ok"
    term = "(%s, %s, %d%%N, %s, %s, %s, %s)" % (cfgterm, clist(moves), c["tdone"], clist(outs["client"]),
                                              clist(outs["server"]), cbool(ce), cbool(se))
    return term, dup_skipped
