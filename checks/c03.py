"""C03 peer authentication.  Theorems Properties/C03.v over the decision functions Hs/C03Auth.v
(all views, all ClientAuth values, all suite classes) + correspondence: a real pion endpoint made
rogue through configuration only (wrong CA / name / expired / substituted chain + own key / forged
signature / missing certificate / wrong PSK / scheme outside the verifier's list) against an honest
endpoint under every ClientAuth value x InsecureSkipVerify x callbacks x suite class x DTLS 1.2/1.3;
DTLS 1.3 transcript-consistent rogues (flight without Certificate / CertificateVerify) through a
hook injected with go test -overlay into scratch copies of internal/flight/flight13.
Monitor = the property: the honest side never establishes and never Reads when the credential its
policy requires is lacking."""
import json
import os
import shutil
import subprocess
import time

import vlib
from vlib import cbool

IMPORTS = "From DtlsV Require Import Hs.C03Auth Hs.C03Run."

SIG_BAD = {"substituted", "garbage_sig", "sign_other"}
SRV_CHAIN_BAD = {"wrong_ca", "client_other_roots", "selfsigned"}
SRV_NAME_BAD = {"wrong_name", "name_mismatch"}
CLI_CHAIN_BAD = {"rogue_ca", "expired"}
SUITE = {"cert": "SCert", "psk": "SPsk", "ecdhepsk": "SEcdhePsk"}
POLICY = ["NoClientCert", "RequestClientCert", "RequireAnyClientCert", "VerifyClientCertIfGiven",
          "RequireAndVerifyClientCert"]

SITE_F6 = "internal/handshake/protected_flight.go processFinished"
SITE_12C = "internal/flight/flight12/flight5handler.go initializeCipherSuite / flight3handler.go flight3Parse"
SITE_12S = "internal/flight/flight12/flight4handler.go flight4Parse"


# ----------------------------------------------------------------- ground truth of a scenario

def client_given(s):
    """does the (rogue) client present a non-empty certificate list to the honest server?"""
    requested = s["policy"] > 0 and s["suite"] == "cert"
    return requested and s["rogue"] != "no_cert" and s["tamper"] not in ("no_cert_cv", "empty_cert")


def lacking(s):
    """the property's own predicate, from how the scenario was constructed: does the peer of the
    honest side lack the credential that side's policy requires?  Returns a reason or None."""
    r, t = s["rogue"], s["tamper"]
    if s["vc"] == "reject":
        return "VerifyConnection rejects"
    if s["honest"] == "client":
        if s["suite"] != "cert":
            return "wrong PSK" if r == "wrong_psk" else None
        if t:
            return "server flight without " + {"no_cert_cv": "Certificate and CertificateVerify",
                                               "no_cv": "CertificateVerify", "empty_cert": "any certificate"}[t]
        if r in SIG_BAD:
            return "signature not by the leaf key over this handshake (%s)" % r
        if r == "bad_scheme":
            return "signature scheme outside the local list"
        if not s["skip"]:
            if r in SRV_CHAIN_BAD:
                return "chain does not validate against the roots (%s)" % r
            if r in SRV_NAME_BAD:
                return "certificate not valid for the server name (%s)" % r
            if r == "expired":
                return "certificate expired"
        if s["vpc"] == "reject":
            return "VerifyPeerCertificate rejects"
        return None
    # honest server
    if s["suite"] != "cert":
        if r == "wrong_psk":
            return "wrong PSK"
        if s["policy"] in (2, 4):
            return "policy requires a client certificate, PSK client has none"
        return None
    given = client_given(s)
    pop = given and r not in SIG_BAD and r != "bad_scheme" and not t
    if given and not pop:
        return "certificate without valid proof of possession (%s%s)" % (r, "/" + t if t else "")
    if s["policy"] in (2, 4) and not given:
        return "policy requires a client certificate, none given"
    if s["policy"] in (3, 4) and given and r in CLI_CHAIN_BAD:
        return "client chain does not validate (%s)" % r
    if given and s["vpc"] == "reject":
        return "VerifyPeerCertificate rejects"
    return None


def obs_term(o):
    s = o["scn"]
    cls = o["cres"] if s["honest"] == "client" else o["sres"]
    if cls == "ok":
        return "OOk"
    if cls == "hang":
        return "OHang"
    if cls == "local":
        return "(ORej %d)" % (o["honest_alert"] if o["honest_alert"] >= 0 else 255)
    return None     # the peer aborted first: nothing to compare


def case_term(o):
    s = o["scn"]
    r, t = s["rogue"], s["tamper"]
    ob = obs_term(o)
    if ob is None:
        return None
    has_vpc, vpc_ok = s["vpc"] != "", s["vpc"] != "reject"
    has_vc, vc_ok = s["vc"] != "", s["vc"] != "reject"
    psk = s["suite"] != "cert"
    if s["ver"] == 12 and s["honest"] == "client":
        cfg = "(mk_ccfg %s %s %s %s)" % (cbool(s["skip"]), cbool(has_vpc), cbool(has_vc), cbool(psk))
        v = [SUITE[s["suite"]],
             cbool(not psk), cbool(not psk), cbool(not psk),   # Certificate message, non-empty, parses
             "true",                                          # ServerKeyExchange (PSK variants carry an identity hint)
             cbool(r != "bad_scheme"), cbool(r not in SIG_BAD),
             cbool(r not in SRV_CHAIN_BAD), cbool(r not in SRV_NAME_BAD), cbool(r != "expired"), "true",
             cbool(vpc_ok), cbool(vc_ok),
             cbool(r != "wrong_psk"), "true"]
        return "(CClient12 %s (mk_sview %s) %s)" % (cfg, " ".join(v), ob)
    if s["ver"] == 12:
        given = client_given(s)
        cfg = "(mk_scfg %s %s %s)" % (POLICY[s["policy"]], cbool(has_vpc), cbool(has_vc))
        v = [SUITE[s["suite"]], "true", cbool(given), "true", cbool(given),
             cbool(r != "bad_scheme"), cbool(r not in SIG_BAD), cbool(r not in CLI_CHAIN_BAD),
             cbool(vpc_ok), cbool(vc_ok), cbool(r != "wrong_psk"), "true"]
        return "(CServer12 %s (mk_cview %s) %s)" % (cfg, " ".join(v), ob)
    cfg = "(mk_cfg13 %s %s %s %s)" % (cbool(s["skip"]), POLICY[s["policy"]], cbool(has_vpc), cbool(has_vc))
    if s["honest"] == "client":
        v = ["false", cbool(t != "no_cert_cv"), cbool(t != "empty_cert"), "true", cbool(t == ""),
             "true", cbool(r not in SIG_BAD),
             cbool(r not in SRV_CHAIN_BAD and r not in SRV_NAME_BAD and r != "expired"),
             cbool(vpc_ok), cbool(vc_ok), "true"]
    else:
        requested = s["policy"] > 0
        v = ["true", cbool(requested and t != "no_cert_cv"), cbool(r != "no_cert" and t != "empty_cert"), "true",
             cbool(requested and r != "no_cert" and t == ""),
             "true", cbool(r not in SIG_BAD), cbool(r not in CLI_CHAIN_BAD),
             cbool(vpc_ok), cbool(vc_ok), "true"]
    return "(CFlight13 %s (mk_pview %s) %s)" % (cfg, " ".join(v), ob)


def site_of(s):
    if s["ver"] == 13:
        return SITE_F6
    return SITE_12C if s["honest"] == "client" else SITE_12S


# ----------------------------------------------------------------- DTLS 1.3 tamper overlay

HOOK_DECL = """

// VerifC03Tamper is a verification-only hook injected by /verif (go test -overlay on a scratch
// copy; /repo is not modified): lets the C03 harness drop messages of the final flight of one side.
var VerifC03Tamper func(side string, pkts []*dtlsflight.Packet) []*dtlsflight.Packet //nolint:gochecknoglobals
"""

PATCHES = [
    ("internal/flight/flight13/flight4handler.go",
     "\tstate.CommitNegotiatedExtensions(decision)\n\tdtlsflight.CommitSRTP(state.Common, srtpDecision)\n\n\treturn pkts, nil, nil\n}",
     "\tstate.CommitNegotiatedExtensions(decision)\n\tdtlsflight.CommitSRTP(state.Common, srtpDecision)\n"
     "\tif VerifC03Tamper != nil {\n\t\tpkts = VerifC03Tamper(\"server\", pkts)\n\t}\n\n\treturn pkts, nil, nil\n}",
     True),
    ("internal/flight/flight13/flight5handler.go",
     "\tpkts = append(pkts, HandshakePacket(&handshake.MessageFinished{}))\n\tpkts[0].ResetLocalSequenceNumber = true\n",
     "\tpkts = append(pkts, HandshakePacket(&handshake.MessageFinished{}))\n"
     "\tif VerifC03Tamper != nil {\n\t\tpkts = VerifC03Tamper(\"client\", pkts)\n\t}\n"
     "\tpkts[0].ResetLocalSequenceNumber = true\n",
     False),
]


def tamper_overlay(tags):
    """overlay = the usual verif files + scratch copies of two flight13 files carrying the hook.
    Returns (overlay_path, scratch_dir, None) or (None, None, reason) if an anchor no longer applies."""
    d = os.path.join(vlib.WORK, "c03_patch_%d" % os.getpid())
    os.makedirs(d, exist_ok=True)
    base = vlib.overlay_file(tags)
    with open(base) as f:
        ov = json.load(f)
    os.unlink(base)
    for rel, old, new, decl in PATCHES:
        src = os.path.join(vlib.REPO, rel)
        try:
            txt = open(src).read()
        except OSError as ex:
            shutil.rmtree(d, ignore_errors=True)
            return None, None, "cannot read %s: %s" % (rel, ex)
        if txt.count(old) != 1:
            shutil.rmtree(d, ignore_errors=True)
            return None, None, "anchor for the tamper hook no longer applies in %s (%d occurrences)" % (rel, txt.count(old))
        txt = txt.replace(old, new)
        if decl:
            txt += HOOK_DECL
        dst = os.path.join(d, os.path.basename(rel))
        with open(dst, "w") as f:
            f.write(txt)
        ov["Replace"][src] = dst
    path = os.path.join(d, "overlay.json")
    with open(path, "w") as f:
        json.dump(ov, f)
    return path, d, None


def go_test_overlay(ov, run, env, timeout=900):
    e = vlib.go_env()
    e.update({k: str(v) for k, v in env.items()})
    cmd = ["go1.26", "test", "-tags", "verif", "-overlay", ov, "-count=1", "-vet=off", "-run", run,
           "-timeout", "%ds" % timeout, "."]
    t0 = time.time()
    try:
        p = subprocess.run(cmd, cwd=vlib.REPO, env=e, stdout=subprocess.PIPE, stderr=subprocess.STDOUT,
                           timeout=timeout + 120, text=True, errors="replace")
        rc, out = p.returncode, p.stdout
    except subprocess.TimeoutExpired as ex:
        rc, out = 124, (ex.stdout or b"").decode(errors="replace") if isinstance(ex.stdout, bytes) else (ex.stdout or "")
        out += "\nTIMEOUT"
    vlib.log("[go test (tamper overlay) -run %s] rc=%d %.1fs" % (run, rc, time.time() - t0))
    return rc, out


# ----------------------------------------------------------------- driver

def run(chk):
    proved = chk.prove(["theories/Hs/C03Run.vo"])
    out = vlib.out_path("c03")
    out_t = vlib.out_path("c03t")
    env = {"VERIF_SEED": chk.seed, "VERIF_TIER": chk.tier, "VERIF_OUT": out, "VERIF_OUT_TAMPER": out_t}
    ov, scratch, why = tamper_overlay(["c03", "c03t"])
    tamper_ran = False
    if ov is not None:
        rc, o = go_test_overlay(ov, "^TestVerifC03(Tamper)?$", env)
        shutil.rmtree(scratch, ignore_errors=True)
        tamper_ran = True
        if rc != 0 and vlib.classify_go_failure(o) == "build":
            why = "harness with the tamper overlay no longer builds:\n" + o[-2500:]
            tamper_ran = False
    if not tamper_ran:
        chk.broken("DTLS 1.3 rogue-flight correspondence (tamper hook) is not checking", why or "")
        rc, o = vlib.go_test(".", "^TestVerifC03$", env, tags=["c03"])
    cases = vlib.read_jsonl(out) + (vlib.read_jsonl(out_t) if tamper_ran else [])
    vlib.cleanup(out)
    vlib.cleanup(out_t)
    found = False
    if rc != 0:
        kind = vlib.classify_go_failure(o)
        if kind == "panic":
            found = True
            chk.finding("handshake", {"monitor": "panic"}, "panic in a handshake with a rogue peer", {"output": o[-4000:]})
        else:
            chk.broken("correspondence harness TestVerifC03 no longer runs against /repo (%s)" % kind, o)

    # ---- the property's own monitor on the implementation trace
    reported = set()
    n_lacking = 0
    for c in cases:
        s = c["scn"]
        why_l = lacking(s)
        hres = c["cres"] if s["honest"] == "client" else c["sres"]
        if s["tamper"] and c["tamper_hit"] == 0 and (s["honest"] == "client" or s["policy"] > 0):
            chk.broken("tamper hook did not fire in " + s["id"], json.dumps(c))
        if why_l:
            n_lacking += 1
        bad = None
        if why_l and hres == "ok":
            bad = "established although the peer lacks the required credential: " + why_l
        elif why_l and c["honest_reads"] > 0:
            bad = "application data delivered although the peer lacks the required credential: " + why_l
        elif hres != "ok" and c["honest_reads"] > 0:
            bad = "application data delivered by an endpoint whose handshake did not succeed"
        if bad:
            found = True
            sig = {"monitor": bad.split(":")[0], "ver": s["ver"], "suite": s["suite"], "honest": s["honest"],
                   "rogue": s["rogue"], "tamper": s["tamper"]}
            key = json.dumps(sig, sort_keys=True)
            if key in reported:
                continue
            reported.add(key)
            chk.finding(site_of(s), sig, "%s [%s]" % (bad, s["id"]),
                        {"how": "TestVerifC03%s scenario `scn`: honest=%s side vs. a real pion endpoint configured as `rogue`"
                                "%s; cres/sres = HandshakeContext result class of client/server; honest_reads = payloads Read "
                                "by the honest side after the rogue wrote" % (
                                    "Tamper" if s["tamper"] else "", s["honest"],
                                    (" whose final DTLS 1.3 flight has `tamper` applied before sequencing/signing" if s["tamper"] else "")),
                         "case": c, "rerun": "VERIF_SEED=%d bin/check C03 --tier %s" % (chk.seed, chk.tier)})

    # ---- model / implementation comparison inside Coq
    ok_model, mo = vlib.coq_make(["theories/Hs/C03Run.vo"])
    if not ok_model:
        chk.broken("model Hs/C03Run.v no longer compiles", mo)
    elif cases:
        idx, terms, skipped = [], [], []
        for i, c in enumerate(cases):
            t = case_term(c)
            if t is None:
                skipped.append(c)
            else:
                idx.append(i)
                terms.append(t)
        if skipped:
            chk.broken("%d scenarios where the rogue peer aborted by itself (nothing observed about the honest side)" % len(skipped),
                       json.dumps(skipped[0]))
        bad, err = vlib.coq_mismatches("c03", IMPORTS, "c03_case", "c03_ok", terms, shard=300)
        if bad is None:
            chk.broken("correspondence evaluation failed in coqc", err)
        else:
            for j in bad[:3]:
                c = cases[idx[j]]
                s = c["scn"]
                hres = c["cres"] if s["honest"] == "client" else c["sres"]
                viol = lacking(s) is not None and hres == "ok"
                chk.finding(site_of(s), {"monitor": "model-mismatch", "id": s["id"]},
                            "accept/reject(+alert) differs from Hs/C03Auth.v [%s]: observed %s alert %d" % (
                                s["id"], hres, c["honest_alert"]),
                            {"case": c, "term": terms[j], "correspondence": "Hs.C03Run.c03_ok"},
                            no_input=not (viol or found))
        # the in-Coq monitor must agree with the Python monitor (guards the ground-truth tables)
        bad2, err2 = vlib.coq_mismatches("c03m", IMPORTS, "c03_case", "c03_not_violating", terms, shard=300)
        if bad2 is None:
            chk.broken("monitor evaluation failed in coqc", err2)
        else:
            py = {i for i, c in enumerate(cases) if lacking(c["scn"]) and
                  (c["cres"] if c["scn"]["honest"] == "client" else c["sres"]) == "ok"}
            cq = {idx[j] for j in bad2}
            if py != cq:
                d = sorted(py ^ cq)[0]
                chk.broken("property monitor in Coq (c03_required) and in the driver (lacking) disagree", json.dumps(cases[d]))

    nontriv = [c for c in cases if lacking(c["scn"])]
    chk.count("rogue-config", len([c for c in cases if not c["scn"]["tamper"]]),
              [c["scn"]["id"] for c in nontriv if not c["scn"]["tamper"]],
              samples=[{"scn": c["scn"]["id"], "cres": c["cres"], "sres": c["sres"], "alert": c["honest_alert"]}
                       for c in nontriv[:2]])
    chk.count("rogue-flight13", len([c for c in cases if c["scn"]["tamper"]]),
              [c["scn"]["id"] for c in nontriv if c["scn"]["tamper"]],
              samples=[{"scn": c["scn"]["id"], "cres": c["cres"], "sres": c["sres"], "alert": c["honest_alert"]}
                       for c in nontriv if c["scn"]["tamper"]][:2])
    chk.cov["traces_validated_against_impl"] = len(cases)
    by = {}
    for c in cases:
        s = c["scn"]
        k = "v%d/%s/honest=%s" % (s["ver"], s["suite"], s["honest"])
        by[k] = by.get(k, 0) + 1
    chk.leg_info("rogue-config", scenarios=by, rogues=sorted({c["scn"]["rogue"] for c in cases}),
                 lacking_cases=n_lacking)
    chk.leg_info("rogue-flight13", ran=tamper_ran)
    if not proved and not found:
        where, pout = getattr(chk, "proof_error", ("?", ""))
        chk.broken("proof obligation Properties/C03.v no longer checks (%s)" % where, pout)
    chk.finish(
        level="proof",
        rule="every scenario = (DTLS version, suite class, honest side, deviation of the peer, ClientAuth value, "
             "InsecureSkipVerify, VerifyPeerCertificate none/ok/reject, VerifyConnection none/ok/reject[, 1.3 flight tamper]); "
             "full cross product for certificate suites, PSK and ECDHE-PSK with right/wrong key. Non-trivial = the peer lacks "
             "the credential the honest side's policy requires; distinct by scenario id.",
        assumptions=["views are abstract: x509 path validation (Go crypto/x509), signature schemes and AEAD are not modelled; "
                     "a view field is the truth value of one such primitive check on the received flight",
                     "PSK: 'the Finished record opens and verifies' is the evidence of key knowledge; the symbolic link to "
                     "the PSK is Hs/C04TranscriptSound.psk_binds (premises: PRF and pre-master-secret construction injective)",
                     "DTLS 1.3 rogue flights are produced by a test-only hook injected with go test -overlay into scratch "
                     "copies of internal/flight/flight13/flight{4,5}handler.go (/repo untouched)"])
