"""C03 peer authentication.  Theorems Properties/C03.v over the decision functions Hs/C03Auth.v
(all views, all ClientAuth values, all suite classes) + correspondence: a real pion endpoint made
rogue through configuration only (wrong CA / name / expired / substituted chain + own key / forged
signature / missing certificate / wrong PSK / scheme outside the verifier's list) against an honest
endpoint under every ClientAuth value x InsecureSkipVerify x callbacks x suite class x DTLS 1.2/1.3;
DTLS 1.3 transcript-consistent rogues (flight without Certificate / CertificateVerify) through a
hook injected with go test -overlay into scratch copies of internal/flight/flight13.
Monitor = the property: the honest side never establishes and never Reads when the credential its
policy requires is lacking."""
import json
import os
import re
import shutil
import subprocess
import time

import vlib
from vlib import cbool

IMPORTS = "From DtlsV Require Import Hs.C03Auth Hs.C03Run."

SIG_BAD = {"substituted", "garbage_sig", "sign_other"}
SRV_CHAIN_BAD = {"wrong_ca", "client_other_roots", "selfsigned"}
SRV_NAME_BAD = {"wrong_name", "name_mismatch"}
CLI_CHAIN_BAD = {"rogue_ca", "expired"}
SUITE = {"cert": "SCert", "psk": "SPsk", "ecdhepsk": "SEcdhePsk"}
POLICY = ["NoClientCert", "RequestClientCert", "RequireAnyClientCert", "VerifyClientCertIfGiven",
          "RequireAndVerifyClientCert"]

SITE_F6 = "internal/handshake/protected_flight.go processFinished"
SITE_F45 = "internal/handshakecrypto/crypto.go verifyCertificateSignature"
SITE_F46 = ("internal/flight/flight12/flight4handler.go flight4Parse (SetSession before the Finished check and the "
            "client-auth policy)")
SITE_NAME = ("internal/flight/flight12/flight5handler.go initializeCipherSuite / internal/handshake/protected_flight.go "
             "verifyServerIdentity (name given to VerifyServerCert)")
SITE_EMPTYPSK = ("internal/flight/flight12/flight3handler.go handleServerKeyExchange / flight4handler.go flight4Parse "
                 "(PSK callback result)")
SITE_PSKONLY = "config.go effectiveProtocolVersionRange / internal/flight/flight13 (DTLS 1.3 has no PSK mode)"
MON = "established although the peer lacks the required credential"
DEVIATION = {"scheme_confusion": "signature-scheme-confusion", "server_name": "ip-literal-server-name-not-verified",
             "empty_psk": "empty-pre-shared-key", "psk_only_13": "psk-only-client-dtls13-certificate-fallback",
             "ack_all_silent": "acks-server-flight-and-goes-silent", "ack_part_silent": "acks-server-flight-and-goes-silent",
             "ack_all_nocert": "acks-server-flight-and-goes-silent"}
SITE_ACK = "internal/handshake/fsm13.go transitionAfterACK (server: a complete ACK of Flight 4 is not the end of the handshake)"
IP_NAMES = {"192.0.2.10": "ip4", "2001:db8::10": "ip6"}


def name_ok(s):
    """is the presented certificate valid for the client's configured ServerName? (empty name: no requirement)"""
    n, c = s.get("sname", ""), s.get("scert", "")
    if n in ("", "-"):
        return True
    if n in IP_NAMES:
        return c == IP_NAMES[n]
    return c == "dns"
SITE_12C = "internal/flight/flight12/flight5handler.go initializeCipherSuite / flight3handler.go flight3Parse"
SITE_12S = "internal/flight/flight12/flight4handler.go flight4Parse"


# ----------------------------------------------------------------- ground truth of a scenario

def client_given(s):
    """does the (rogue) client present a non-empty certificate list to the honest server?"""
    requested = s["policy"] > 0 and s["suite"] == "cert"
    return requested and s["rogue"] != "no_cert" and s["tamper"] not in ("no_cert_cv", "empty_cert")


def lacking(s):
    """the property's own predicate, from how the scenario was constructed: does the peer of the
    honest side lack the credential that side's policy requires?  Returns a reason or None."""
    r, t = s["rogue"], s["tamper"]
    if s["vc"] == "reject":
        return "VerifyConnection rejects"
    if r in ("ack_all_silent", "ack_part_silent"):
        # whatever the client-auth policy (NoClientCert included): no Finished, nothing proved
        return ("the client never sent its final flight (no Finished, no certificate): it only acknowledged %s of the "
                "server's flight and went silent" % ("every record" if r == "ack_all_silent" else "one record"))
    if r == "ack_all_nocert":
        return lacking(dict(s, rogue="no_cert"))
    if r == "server_name":
        if not s["skip"] and not name_ok(s):
            return "certificate (valid for %s) is not valid for the configured server name %s" % (s["scert"], s["sname"])
        return None
    if r == "empty_psk":
        return "the peer knows no pre-shared key: the local callback returned an empty key for its unknown identity"
    if r == "psk_only_13":
        return ("the client was given a pre-shared key only; the DTLS 1.3 server neither knows it nor is asked for it "
                "(certificate fallback against the system roots, no name check)")
    if r == "scheme_confusion":
        return ("signature not by the leaf key: the peer holds no private key of the %s certificate it presents, claims a "
                "%s scheme and sends a signature computed from the public key for the empty digest" % (s["key"], s["claim"]))
    if s["honest"] == "client":
        if s["suite"] != "cert":
            return "wrong PSK" if r == "wrong_psk" else None
        if t:
            return "server flight without " + {"no_cert_cv": "Certificate and CertificateVerify",
                                               "no_cv": "CertificateVerify", "empty_cert": "any certificate"}[t]
        if r in SIG_BAD:
            return "signature not by the leaf key over this handshake (%s)" % r
        if r == "bad_scheme":
            return "signature scheme outside the local list"
        if not s["skip"]:
            if r in SRV_CHAIN_BAD:
                return "chain does not validate against the roots (%s)" % r
            if r in SRV_NAME_BAD:
                return "certificate not valid for the server name (%s)" % r
            if r == "expired":
                return "certificate expired"
        if s["vpc"] == "reject":
            return "VerifyPeerCertificate rejects"
        return None
    # honest server
    if s["suite"] != "cert":
        if r == "wrong_psk":
            return "wrong PSK"
        if s["policy"] in (2, 4):
            return "policy requires a client certificate, PSK client has none"
        return None
    given = client_given(s)
    pop = given and r not in SIG_BAD and r != "bad_scheme" and not t
    if given and not pop:
        return "certificate without valid proof of possession (%s%s)" % (r, "/" + t if t else "")
    if s["policy"] in (2, 4) and not given:
        return "policy requires a client certificate, none given"
    if s["policy"] in (3, 4) and given and r in CLI_CHAIN_BAD:
        return "client chain does not validate (%s)" % r
    if given and s["vpc"] == "reject":
        return "VerifyPeerCertificate rejects"
    return None


def obs_term(o):
    s = o["scn"]
    cls = o["cres"] if s["honest"] == "client" else o["sres"]
    if cls == "ok":
        return "OOk"
    if cls == "hang":
        return "OHang"
    if cls == "local":
        return "(ORej %d)" % (o["honest_alert"] if o["honest_alert"] >= 0 else 255)
    return None     # the peer aborted first: nothing to compare


def case_term(o):
    s = o["scn"]
    r, t = s["rogue"], s["tamper"]
    ob = obs_term(o)
    if ob is None:
        return None
    if r.startswith("ack_"):
        # the flight of a certificate-less client, with or without its Finished; the ACK covers all / one record
        base = case_term(dict(o, scn=dict(s, rogue="no_cert")))
        return base.replace("(CFlight13 ", "(CPending13 %s %s " % (cbool(r == "ack_all_nocert"), cbool(r != "ack_part_silent")), 1)
    has_vpc, vpc_ok = s["vpc"] != "", s["vpc"] != "reject"
    has_vc, vc_ok = s["vc"] != "", s["vc"] != "reject"
    psk = s["suite"] != "cert"
    conf = r == "scheme_confusion"
    # scheme confusion: the routine of the certificate's KEY TYPE runs on the digest of the CLAIMED hash; only an
    # ECDSA key with the digest-less Ed25519 scheme accepts the forgery.  fits = claimed family == key family.
    routine_ok = (s.get("key") == "ecdsa" and s.get("claim") == "ed25519") if conf else r not in SIG_BAD
    fits = (s.get("key") == s.get("claim")) if conf else True
    by_leaf = False if conf else r not in SIG_BAD
    # DTLS 1.3 picks an RSA-PSS scheme for an RSA-typed signer: validateSignatureAlgOID refuses it for other keys
    oid_ok = not (conf and s["claim"] == "rsa" and s["key"] != "rsa")
    nm_ok = name_ok(s) and r not in SRV_NAME_BAD
    nm_ip = s.get("sname", "") in IP_NAMES
    empty = r == "empty_psk"
    knows = r not in ("wrong_psk", "empty_psk")
    if r == "psk_only_13":
        psk = False
    if s["ver"] == 12 and s["honest"] == "client":
        cfg = "(mk_ccfg %s %s %s %s %s)" % (cbool(s["skip"]), cbool(has_vpc), cbool(has_vc), cbool(psk), cbool(nm_ip))
        v = [SUITE[s["suite"]],
             cbool(not psk), cbool(not psk), cbool(not psk),   # Certificate message, non-empty, parses
             "true",                                          # ServerKeyExchange (PSK variants carry an identity hint)
             cbool(r != "bad_scheme"), cbool(routine_ok),
             cbool(r not in SRV_CHAIN_BAD), cbool(nm_ok), cbool(r != "expired"), "true",
             cbool(vpc_ok), cbool(vc_ok),
             cbool(r != "wrong_psk"), "true", cbool(fits), cbool(not empty), cbool(knows), cbool(by_leaf)]
        return "(CClient12 %s (mk_sview %s) %s)" % (cfg, " ".join(v), ob)
    if s["ver"] == 12:
        given = client_given(s)
        cfg = "(mk_scfg %s %s %s)" % (POLICY[s["policy"]], cbool(has_vpc), cbool(has_vc))
        cert_msg = s["policy"] > 0 and s["suite"] == "cert"   # the stock client answers a request even with an empty list
        v = [SUITE[s["suite"]], "true", cbool(given), "true", cbool(given),
             cbool(r != "bad_scheme"), cbool(routine_ok), cbool(r not in CLI_CHAIN_BAD),
             cbool(vpc_ok), cbool(vc_ok), cbool(r != "wrong_psk"), "true",
             cbool(cert_msg), cbool(fits), cbool(not empty), cbool(knows), cbool(by_leaf)]
        return "(CServer12 %s (mk_cview %s) %s)" % (cfg, " ".join(v), ob)
    cfg = "(mk_cfg13 %s %s %s %s %s %s)" % (cbool(s["skip"]), POLICY[s["policy"]], cbool(has_vpc), cbool(has_vc),
                                            cbool(nm_ip), cbool(r == "psk_only_13"))
    if s["honest"] == "client":
        v = ["false", cbool(t != "no_cert_cv"), cbool(t != "empty_cert"), "true", cbool(t == ""),
             "true", cbool(routine_ok),
             cbool(r not in SRV_CHAIN_BAD and nm_ok and r != "expired"),
             cbool(vpc_ok), cbool(vc_ok), "true", cbool(oid_ok), cbool(fits), cbool(by_leaf),
             cbool(r not in SRV_CHAIN_BAD and r != "expired")]
    else:
        requested = s["policy"] > 0
        v = ["true", cbool(requested and t != "no_cert_cv"), cbool(r != "no_cert" and t != "empty_cert"), "true",
             cbool(requested and r != "no_cert" and t == ""),
             "true", cbool(routine_ok), cbool(r not in CLI_CHAIN_BAD),
             cbool(vpc_ok), cbool(vc_ok), "true", cbool(oid_ok), cbool(fits), cbool(by_leaf),
             cbool(r not in CLI_CHAIN_BAD)]
    return "(CFlight13 %s (mk_pview %s) %s)" % (cfg, " ".join(v), ob)


# ----------------------------------------------------------------- two connections: refused client resumes

def resume_lacking(c):
    if c["policy"] in (2, 4):
        return "policy requires a client certificate, the client never presented one in either connection"
    return None


def resume_term(c):
    cls = c["s2res"]
    if cls == "ok":
        ob = "OOk"
    elif cls == "hang":
        ob = "OHang"
    elif cls == "local":
        ob = "(ORej %d)" % (c["s2alert"] if c["s2alert"] >= 0 else 255)
    else:
        return None

    def view(fin_arrives):
        # certificate-less client: ClientKeyExchange only; Finished correct whenever it is sent
        return "(mk_cview %s true false false false false false false true true %s true false false true true false)" % (
            SUITE[c["suite"]], cbool(fin_arrives))
    return "(CSecond12 (mk_scfg %s false false) true %s %s true true %s)" % (
        POLICY[c["policy"]], view(c["fin"]), view(True), ob)


def site_of(s):
    if s["rogue"] == "scheme_confusion":
        return SITE_F45
    if s["rogue"] == "server_name":
        return SITE_NAME
    if s["rogue"] == "empty_psk":
        return SITE_EMPTYPSK
    if s["rogue"] == "psk_only_13":
        return SITE_PSKONLY
    if s["rogue"].startswith("ack_"):
        return SITE_ACK
    if s["ver"] == 13:
        return SITE_F6
    return SITE_12C if s["honest"] == "client" else SITE_12S


# ----------------------------------------------------------------- DTLS 1.3 tamper overlay

HOOK_DECL = """

// VerifC03Tamper is a verification-only hook injected by /verif (go test -overlay on a scratch
// copy; /repo is not modified): lets the C03 harness drop messages of the final flight of one side.
var VerifC03Tamper func(side string, pkts []*dtlsflight.Packet) []*dtlsflight.Packet //nolint:gochecknoglobals
"""

PATCHES = [
    ("internal/flight/flight13/flight4handler.go",
     "\tstate.CommitNegotiatedExtensions(decision)\n\tdtlsflight.CommitSRTP(state.Common, srtpDecision)\n\n\treturn pkts, nil, nil\n}",
     "\tstate.CommitNegotiatedExtensions(decision)\n\tdtlsflight.CommitSRTP(state.Common, srtpDecision)\n"
     "\tif VerifC03Tamper != nil {\n\t\tpkts = VerifC03Tamper(\"server\", pkts)\n\t}\n\n\treturn pkts, nil, nil\n}",
     True),
    ("internal/flight/flight13/flight5handler.go",
     "\tpkts = append(pkts, HandshakePacket(&handshake.MessageFinished{}))\n\tpkts[0].ResetLocalSequenceNumber = true\n",
     "\tpkts = append(pkts, HandshakePacket(&handshake.MessageFinished{}))\n"
     "\tif VerifC03Tamper != nil {\n\t\tpkts = VerifC03Tamper(\"client\", pkts)\n\t}\n"
     "\tpkts[0].ResetLocalSequenceNumber = true\n",
     False),
]


def tamper_overlay(tags):
    """overlay = the usual verif files + scratch copies of two flight13 files carrying the hook.
    Returns (overlay_path, scratch_dir, None) or (None, None, reason) if an anchor no longer applies."""
    d = os.path.join(vlib.WORK, "c03_patch_%d" % os.getpid())
    os.makedirs(d, exist_ok=True)
    base = vlib.overlay_file(tags)
    with open(base) as f:
        ov = json.load(f)
    os.unlink(base)
    for rel, old, new, decl in PATCHES:
        src = os.path.join(vlib.REPO, rel)
        try:
            txt = open(src).read()
        except OSError as ex:
            shutil.rmtree(d, ignore_errors=True)
            return None, None, "cannot read %s: %s" % (rel, ex)
        if txt.count(old) != 1:
            shutil.rmtree(d, ignore_errors=True)
            return None, None, "anchor for the tamper hook no longer applies in %s (%d occurrences)" % (rel, txt.count(old))
        txt = txt.replace(old, new)
        if decl:
            txt += HOOK_DECL
        dst = os.path.join(d, os.path.basename(rel))
        with open(dst, "w") as f:
            f.write(txt)
        ov["Replace"][src] = dst
    path = os.path.join(d, "overlay.json")
    with open(path, "w") as f:
        json.dump(ov, f)
    return path, d, None


def go_test_overlay(ov, run, env, timeout=900):
    e = vlib.go_env()
    e.update({k: str(v) for k, v in env.items()})
    cmd = ["go1.26", "test", "-tags", "verif", "-overlay", ov, "-count=1", "-vet=off", "-run", run,
           "-timeout", "%ds" % timeout, "."]
    t0 = time.time()
    try:
        p = subprocess.run(cmd, cwd=vlib.REPO, env=e, stdout=subprocess.PIPE, stderr=subprocess.STDOUT,
                           timeout=timeout + 120, text=True, errors="replace")
        rc, out = p.returncode, p.stdout
    except subprocess.TimeoutExpired as ex:
        rc, out = 124, (ex.stdout or b"").decode(errors="replace") if isinstance(ex.stdout, bytes) else (ex.stdout or "")
        out += "\nTIMEOUT"
    vlib.log("[go test (tamper overlay) -run %s] rc=%d %.1fs" % (run, rc, time.time() - t0))
    return rc, out


# ----------------------------------------------------------------- successive handshakes over time

IMPORTS_T = "From DtlsV Require Import Hs.C03Auth Hs.C03Run Hs.C03Time Hs.C03TimeRun."
SITE_TIME = ("internal/handshakecrypto/crypto.go VerifyClientCert / VerifyServerCert (path validation with the roots, name "
             "and clock of THIS handshake; callers flight12 flight4Parse / initializeCipherSuite, "
             "protected_flight.go verifyPeerIdentity)")
T_OFF = 1000000     # window bounds are relative to the start of the bubble and may be negative


def time_required(scn, st):
    """does the honest side's policy at this handshake demand path validation of the presented chain?"""
    return (not st["skip"]) if scn["honest"] == "client" else st["policy"] in (3, 4)


def time_windows(scn, st):
    return [("leaf", st["leaf"])] + ([("intermediate", st["interw"])] if scn["inter"] else []) + [("root", st["root"])]


def time_valid(scn, st, now=None):
    """ground truth from how the sequence was built: does the chain validate at `now` against what the honest side is
    configured with at this handshake?  Returns None or the reason why not."""
    now = st["now"] if now is None else now
    for nm, w in time_windows(scn, st):
        if now < w["nb"]:
            return "%s certificate not yet valid (NotBefore in %d s)" % (nm, w["nb"] - now)
        if now > w["na"]:
            return "%s certificate expired %d s ago" % (nm, now - w["na"])
    if not st["root_in"]:
        return "the issuing root is not in the configured pool"
    if not st["name_ok"]:
        return "the leaf is not valid for the configured ServerName"
    return None


def time_lacking(scn, st):
    """the property's own predicate at the instant of this handshake"""
    if time_required(scn, st):
        why = time_valid(scn, st)
        if why:
            return why
    if st["vpc"] == "reject" and not (scn["honest"] == "server" and st["policy"] == 0):
        return "VerifyPeerCertificate rejects"
    return None


def time_term(scn, steps):
    def win(w):
        return "(mk_twin %d %d)" % (w["nb"] + T_OFF, w["na"] + T_OFF)
    out = []
    for st in steps:
        chain = [win(st["leaf"])] + ([win(st["interw"])] if scn["inter"] else [])
        cred = "(mk_tcred [%s] 1 %s 7)" % ("; ".join(chain), win(st["root"]))
        if scn["honest"] == "client":
            side = "(TClient %s (Some %d))" % (cbool(st["skip"]), 7 if st["name_ok"] else 8)
        else:
            side = "(TServer %s)" % POLICY[st["policy"]]
        vpc = {"": "None", "ok": "(Some true)", "reject": "(Some false)"}[st["vpc"]]
        pol = "(mk_tpolicy %s [%d] %s)" % (side, 1 if st["root_in"] else 2, vpc)
        if st["hres"] not in ("ok", "local"):
            return None
        out.append("(mk_tstep (mk_treq %s %s %d) %s)" % (cred, pol, st["now"] + T_OFF, cbool(st["hres"] == "ok")))
    return "[%s]" % "; ".join(out)


def time_leg(chk, tcases, ok_model, reported, go_out):
    """monitor + model comparison of the sequences of TestVerifC03Time; returns True if a violation was reported"""
    found = False
    if not tcases:
        chk.broken("time leg TestVerifC03Time produced no observations", go_out[-2000:])
        return False
    n_steps, keys, samples, changed = 0, [], [], 0
    for c in tcases:
        scn = c["scn"]
        prev = None
        for i, st in enumerate(c["steps"]):
            n_steps += 1
            sid = "%s#%d" % (scn["id"], i)
            v0, v1 = time_valid(scn, st), time_valid(scn, st, st["now_end"])
            if (v0 is None) != (v1 is None):
                chk.broken("time leg: validity changed while handshake %s was running" % sid, json.dumps(st))
                continue
            if (v0 is None) != st["oracle"]:
                chk.broken("time leg: ground truth of %s disagrees with crypto/x509 on the same inputs (%s)" % (sid, v0),
                           json.dumps(st))
                continue
            if st["hres"] == "hang":
                chk.broken("time leg: honest side of %s neither succeeded nor failed" % sid, json.dumps(st))
            why_l = time_lacking(scn, st)
            if prev is not None and (prev is None) != (why_l is None):
                changed += 1
            if why_l:
                keys.append(sid)
                if len(samples) < 2:
                    samples.append({"step": sid, "now": st["now"], "why": why_l, "hres": st["hres"], "alert": st["halert"]})
            bad = None
            if why_l and st["hres"] == "ok":
                bad = MON + ": " + why_l
            elif why_l and st["hreads"] > 0:
                bad = "application data delivered although the peer lacks the required credential: " + why_l
            elif st["hres"] != "ok" and st["hreads"] > 0:
                bad = "application data delivered by an endpoint whose handshake did not succeed"
            prev_ok = [j for j in range(i) if c["steps"][j]["hres"] == "ok" and not time_lacking(scn, c["steps"][j])]
            prev = why_l
            if not bad:
                continue
            found = True
            cls = re.sub(r"[-0-9]+ s", "", why_l or "").replace("(NotBefore in )", "").strip()
            sig = {"monitor": bad.split(":")[0], "deviation": "credential-not-valid-at-the-time-of-this-handshake",
                   "why": cls, "after_accepted_earlier": bool(prev_ok)}
            key = json.dumps(sig, sort_keys=True)
            if key in reported:
                continue
            reported.add(key)
            same = sorted("%s#%d" % (k["scn"]["id"], j) for k in tcases for j, s2 in enumerate(k["steps"])
                          if time_lacking(k["scn"], s2) and s2["hres"] == "ok")
            chk.finding(SITE_TIME, sig,
                        "%s [%s, DTLS 1.%d, honest %s, t=%d s after the start; %s]; all such handshakes (%d): %s" % (
                            bad, sid, scn["ver"] - 10, scn["honest"], st["now"],
                            ("the same certificate list was accepted by the same Config/pool objects in handshake(s) %s of "
                             "this sequence while it was valid" % prev_ok) if prev_ok else
                            "never presented while valid before", len(same), " ".join(same[:40])),
                        {"how": "TestVerifC03Time sequence `scn` (one synctest bubble = one process, ONE client and ONE server "
                                "Config object and one roots pool object for all handshakes, the peer presents the same "
                                "certificate list every time): play `steps` in order; before step k sleep until virtual time "
                                "`now` seconds after the start of the bubble and apply `mutation`; certificate windows "
                                "leaf/interw/root = NotBefore/NotAfter in seconds relative to the start; hres = "
                                "HandshakeContext result class of the honest side, hreads = payloads it Read from the peer, "
                                "oracle = crypto/x509 Verify of the same list/pool/name at that instant",
                         "scn": scn, "steps": c["steps"][:i + 1], "failing_step": i,
                         "rerun": "VERIF_SEED=%d bin/check C03 --tier %s" % (chk.seed, chk.tier)})
    # model / implementation comparison: whole sequences, verdict after the prefix already played
    if ok_model:
        terms, idx = [], []
        for i, c in enumerate(tcases):
            t = time_term(c["scn"], c["steps"])
            if t is not None:
                terms.append(t)
                idx.append(i)
        bad, err = vlib.coq_mismatches("c03t", IMPORTS_T, "list tstep", "c03t_ok", terms, shard=100)
        if bad is None:
            chk.broken("correspondence evaluation (time leg) failed in coqc", err)
        else:
            for j in bad[:3]:
                c = tcases[idx[j]]
                viol = any(time_lacking(c["scn"], s) and s["hres"] == "ok" for s in c["steps"])
                first = next((k for k, s in enumerate(c["steps"])
                              if (s["hres"] == "ok") != (time_lacking(c["scn"], s) is None)), -1)
                chk.finding(SITE_TIME, {"monitor": "model-mismatch", "id": c["scn"]["id"]},
                            "verdicts of a sequence of handshakes differ from Hs/C03Time.v accept_after [%s]: first differing "
                            "step %d, observed %s" % (c["scn"]["id"], first, [s["hres"] for s in c["steps"]]),
                            {"scn": c["scn"], "steps": c["steps"], "failing_step": first, "term": terms[j],
                             "correspondence": "Hs.C03TimeRun.c03t_ok"},
                            no_input=not (viol or found))
        bad2, err2 = vlib.coq_mismatches("c03tm", IMPORTS_T, "list tstep", "c03t_not_violating", terms, shard=100)
        if bad2 is None:
            chk.broken("monitor evaluation (time leg) failed in coqc", err2)
        else:
            py = {i for i, c in enumerate(tcases) if any(time_lacking(c["scn"], s) and s["hres"] == "ok" for s in c["steps"])}
            cq = {idx[j] for j in bad2}
            # the Coq monitor knows path validation only; a VerifyPeerCertificate rejection is the driver's
            py_x = {i for i in py if any(time_required(tcases[i]["scn"], s) and time_valid(tcases[i]["scn"], s) and
                                         s["hres"] == "ok" for s in tcases[i]["steps"])}
            if py_x != cq:
                chk.broken("property monitor in Coq (required_ok) and in the driver (time_lacking) disagree on the time leg",
                           json.dumps(tcases[sorted(py_x ^ cq)[0]]))
    chk.count("time-sequence", n_steps, keys, samples=samples)
    by = {}
    for c in tcases:
        k = "v%d/honest=%s/%s" % (c["scn"]["ver"], c["scn"]["honest"], c["scn"]["kind"])
        by[k] = by.get(k, 0) + len(c["steps"])
    chk.leg_info("time-sequence", sequences=len(tcases), handshakes=n_steps, validity_changes_between_handshakes=changed,
                 handshakes_by_kind=by)
    return found


# ----------------------------------------------------------------- driver

def run(chk):
    proved = chk.prove(["theories/Hs/C03Run.vo", "theories/Hs/C03TimeRun.vo"])
    out = vlib.out_path("c03")
    out_t = vlib.out_path("c03t")
    out_r = vlib.out_path("c03r")
    out_time = vlib.out_path("c03time")
    # scenario psk_only_13 needs "a certificate the system roots accept": the process's system roots are the lab CA
    sysroots = vlib.out_path("c03roots") + ".pem"
    creds = open(os.path.join(vlib.OVERLAY_SRC, "root", "zz_verif_lab_creds_test.go")).read()
    m = re.search(r"vPemCA = `(.*?)`", creds, re.S)
    with open(sysroots, "w") as f:
        f.write(m.group(1) if m else "")
    env = {"VERIF_SEED": chk.seed, "VERIF_TIER": chk.tier, "VERIF_OUT": out, "VERIF_OUT_TAMPER": out_t,
           "VERIF_OUT_RESUME": out_r, "VERIF_OUT_TIME": out_time, "SSL_CERT_FILE": sysroots, "SSL_CERT_DIR": os.path.join(vlib.WORK, "no-such-dir")}
    ov, scratch, why = tamper_overlay(["c03", "c03t"])
    tamper_ran = False
    if ov is not None:
        rc, o = go_test_overlay(ov, "^TestVerifC03(Tamper|Resume|Time)?$", env)
        shutil.rmtree(scratch, ignore_errors=True)
        tamper_ran = True
        if rc != 0 and vlib.classify_go_failure(o) == "build":
            why = "harness with the tamper overlay no longer builds:\n" + o[-2500:]
            tamper_ran = False
    if not tamper_ran:
        chk.broken("DTLS 1.3 rogue-flight correspondence (tamper hook) is not checking", why or "")
        rc, o = vlib.go_test(".", "^TestVerifC03(Resume|Time)?$", env, tags=["c03"])
    cases = vlib.read_jsonl(out) + (vlib.read_jsonl(out_t) if tamper_ran else [])
    rcases = vlib.read_jsonl(out_r)
    tcases = vlib.read_jsonl(out_time)
    vlib.cleanup(out_time)
    vlib.cleanup(out)
    vlib.cleanup(out_t)
    vlib.cleanup(out_r)
    vlib.cleanup(sysroots)
    found = False
    if rc != 0:
        kind = vlib.classify_go_failure(o)
        if kind == "panic":
            found = True
            chk.finding("handshake", {"monitor": "panic"}, "panic in a handshake with a rogue peer", {"output": o[-4000:]})
        else:
            chk.broken("correspondence harness TestVerifC03 no longer runs against /repo (%s)" % kind, o)

    # ---- the property's own monitor on the implementation trace
    reported = set()
    n_lacking = 0
    confused = [c for c in cases if c["scn"]["rogue"] == "scheme_confusion"
                and (c["cres"] if c["scn"]["honest"] == "client" else c["sres"]) == "ok"]
    for c in cases:
        s = c["scn"]
        why_l = lacking(s)
        hres = c["cres"] if s["honest"] == "client" else c["sres"]
        if s["tamper"] and c["tamper_hit"] == 0 and (s["honest"] == "client" or s["policy"] > 0):
            chk.broken("tamper hook did not fire in " + s["id"], json.dumps(c))
        if why_l:
            n_lacking += 1
        bad = None
        if why_l and hres == "ok":
            bad = "established although the peer lacks the required credential: " + why_l
        elif why_l and c["honest_reads"] > 0:
            bad = "application data delivered although the peer lacks the required credential: " + why_l
        elif hres != "ok" and c["honest_reads"] > 0:
            bad = "application data delivered by an endpoint whose handshake did not succeed"
        if bad:
            found = True
            sig = {"monitor": bad.split(":")[0], "ver": s["ver"], "suite": s["suite"], "honest": s["honest"],
                   "rogue": s["rogue"], "tamper": s["tamper"]}
            extra = ""
            if s["rogue"] in DEVIATION and s["rogue"] != "scheme_confusion":
                sig = {"monitor": bad.split(":")[0], "deviation": DEVIATION[s["rogue"]]}
                same = sorted(k["scn"]["id"] for k in cases if k["scn"]["rogue"] == s["rogue"] and lacking(k["scn"])
                              and (k["cres"] if k["scn"]["honest"] == "client" else k["sres"]) == "ok")
                extra = "; all such scenarios (%d): %s" % (len(same), " ".join(same))
            if s["rogue"] == "scheme_confusion":
                sig = {"monitor": bad.split(":")[0], "deviation": "signature-scheme-confusion"}
                msgs = sorted({"DTLS 1.%d %s" % (k["scn"]["ver"] - 10, (
                    "ServerKeyExchange" if k["scn"]["ver"] == 12 and k["scn"]["honest"] == "client" else
                    "CertificateVerify of the %s" % ("server" if k["scn"]["honest"] == "client" else "client")))
                    for k in confused})
                extra = "; accepted in: %s (%d scenarios: %s)" % (", ".join(msgs), len(confused),
                                                                 " ".join(sorted(k["scn"]["id"] for k in confused)))
            key = json.dumps(sig, sort_keys=True)
            if key in reported:
                continue
            reported.add(key)
            chk.finding(site_of(s), sig, "%s [%s]%s" % (bad, s["id"], extra),
                        {"how": "TestVerifC03%s scenario `scn`: honest=%s side vs. a real pion endpoint configured as `rogue`"
                                "%s; cres/sres = HandshakeContext result class of client/server; honest_reads = payloads Read "
                                "by the honest side after the rogue wrote" % (
                                    "Tamper" if s["tamper"] else "", s["honest"],
                                    (" whose final DTLS 1.3 flight has `tamper` applied before sequencing/signing" if s["tamper"] else "")),
                         "case": c, "rerun": "VERIF_SEED=%d bin/check C03 --tier %s" % (chk.seed, chk.tier)})

    # ---- model / implementation comparison inside Coq
    ok_model, mo = vlib.coq_make(["theories/Hs/C03Run.vo"])
    ok_model = bool(ok_model)
    if not ok_model:
        chk.broken("model Hs/C03Run.v no longer compiles", mo)
    elif cases:
        idx, terms, skipped = [], [], []
        for i, c in enumerate(cases):
            t = case_term(c)
            if t is None:
                skipped.append(c)
            else:
                idx.append(i)
                terms.append(t)
        if skipped:
            chk.broken("%d scenarios where the rogue peer aborted by itself (nothing observed about the honest side)" % len(skipped),
                       json.dumps(skipped[0]))
        bad, err = vlib.coq_mismatches("c03", IMPORTS, "c03_case", "c03_ok", terms, shard=300)
        if bad is None:
            chk.broken("correspondence evaluation failed in coqc", err)
        else:
            for j in bad[:3]:
                c = cases[idx[j]]
                s = c["scn"]
                hres = c["cres"] if s["honest"] == "client" else c["sres"]
                viol = lacking(s) is not None and hres == "ok"
                chk.finding(site_of(s), {"monitor": "model-mismatch", "id": s["id"]},
                            "accept/reject(+alert) differs from Hs/C03Auth.v [%s]: observed %s alert %d" % (
                                s["id"], hres, c["honest_alert"]),
                            {"case": c, "term": terms[j], "correspondence": "Hs.C03Run.c03_ok"},
                            no_input=not (viol or found))
        # the in-Coq monitor must agree with the Python monitor (guards the ground-truth tables)
        bad2, err2 = vlib.coq_mismatches("c03m", IMPORTS, "c03_case", "c03_not_violating", terms, shard=300)
        if bad2 is None:
            chk.broken("monitor evaluation failed in coqc", err2)
        else:
            py = {i for i, c in enumerate(cases) if lacking(c["scn"]) and
                  (c["cres"] if c["scn"]["honest"] == "client" else c["sres"]) == "ok"}
            cq = {idx[j] for j in bad2}
            if py != cq:
                d = sorted(py ^ cq)[0]
                chk.broken("property monitor in Coq (c03_required) and in the driver (lacking) disagree", json.dumps(cases[d]))

    # ---- two connections: a refused (or never finished) client comes back through session resumption
    if not rcases:
        chk.broken("two-connection leg TestVerifC03Resume produced no observations", o[-2000:])
    for c in rcases:
        why_l = resume_lacking(c)
        if not c["learned"]:
            chk.broken("refused-resume scenario %s: the client did not learn session id / master secret" % c["id"], json.dumps(c))
        bad = None
        if why_l and c["s2res"] == "ok":
            bad = MON + ": " + why_l + " (second connection%s)" % (", abbreviated handshake" if c["resumed"] else "")
        elif why_l and c["s1res"] == "ok":
            bad = MON + ": " + why_l + " (first connection)"
        elif c["s2res"] != "ok" and c["sreads"] > 0:
            bad = "application data delivered by an endpoint whose handshake did not succeed"
        if bad:
            found = True
            sig = {"monitor": bad.split(":")[0], "deviation": "refused-client-resumes"}
            key = json.dumps(sig, sort_keys=True)
            if key in reported:
                continue
            reported.add(key)
            allbad = sorted(k["id"] for k in rcases if resume_lacking(k) and k["s2res"] == "ok")
            chk.finding(SITE_F46, sig, "%s [%s]; all such scenarios: %s" % (bad, c["id"], " ".join(allbad)),
                        {"how": "TestVerifC03Resume: server with a session store and ClientAuth=`policy`; connection 1: a client "
                                "without certificate leaves the Certificate message out (suite cert; a PSK server sends no "
                                "CertificateRequest) and %s; connection 2: it offers the session id of the ServerHello of "
                                "connection 1 with the master secret it derived itself (client store entry "
                                "'server_server.verif'). s2res = HandshakeContext result class of the server in connection 2, "
                                "resumed = no ServerHelloDone seen, peer_certs = len(State.PeerCertificates), sreads = payloads "
                                "the server Read from that client" % (
                                    "sends a correct Finished (is refused with a fatal alert)" if c["fin"] else
                                    "stops after ClientKeyExchange (ChangeCipherSpec and Finished are never delivered)"),
                         "case": c, "rerun": "VERIF_SEED=%d bin/check C03 --tier %s" % (chk.seed, chk.tier)})
    if ok_model and rcases:
        rterms, ridx = [], []
        for i, c in enumerate(rcases):
            t = resume_term(c)
            if t is None:
                chk.broken("refused-resume scenario %s: nothing observed about the server" % c["id"], json.dumps(c))
            else:
                rterms.append(t)
                ridx.append(i)
        bad, err = vlib.coq_mismatches("c03r", IMPORTS, "c03_case", "c03_ok", rterms, shard=300)
        if bad is None:
            chk.broken("correspondence evaluation (two connections) failed in coqc", err)
        else:
            for j in bad[:2]:
                c = rcases[ridx[j]]
                viol = resume_lacking(c) is not None and c["s2res"] == "ok"
                chk.finding(SITE_F46, {"monitor": "model-mismatch", "id": c["id"]},
                            "second-connection verdict differs from Hs/C03Auth.v server12_second [%s]: observed %s alert %d, "
                            "resumed=%s" % (c["id"], c["s2res"], c["s2alert"], c["resumed"]),
                            {"case": c, "term": rterms[j], "correspondence": "Hs.C03Run.c03_ok"},
                            no_input=not (viol or found))
        bad2, err2 = vlib.coq_mismatches("c03rm", IMPORTS, "c03_case", "c03_not_violating", rterms, shard=300)
        if bad2 is None:
            chk.broken("monitor evaluation (two connections) failed in coqc", err2)
        else:
            py = {i for i, c in enumerate(rcases) if resume_lacking(c) and c["s2res"] == "ok"}
            if py != {ridx[j] for j in bad2}:
                chk.broken("property monitor in Coq and in the driver disagree on the two-connection leg",
                           json.dumps(rcases[sorted(py ^ {ridx[j] for j in bad2})[0]]))
    # ---- the same credential in successive handshakes while what decides its validity changes
    ok_time, mo_t = vlib.coq_make(["theories/Hs/C03TimeRun.vo"])
    if not ok_time:
        chk.broken("model Hs/C03TimeRun.v no longer compiles", mo_t)
    if time_leg(chk, tcases, bool(ok_time), reported, o):
        found = True

    chk.count("refused-resume", len(rcases), [c["id"] for c in rcases if resume_lacking(c)],
              samples=[{"id": c["id"], "s1res": c["s1res"], "stored": c["stored"], "s2res": c["s2res"],
                        "resumed": c["resumed"]} for c in rcases if resume_lacking(c)][:2])
    chk.leg_info("refused-resume", stored_after_first={c["id"]: c["stored"] for c in rcases if resume_lacking(c)})

    nontriv = [c for c in cases if lacking(c["scn"])]
    chk.count("rogue-config", len([c for c in cases if not c["scn"]["tamper"]]),
              [c["scn"]["id"] for c in nontriv if not c["scn"]["tamper"]],
              samples=[{"scn": c["scn"]["id"], "cres": c["cres"], "sres": c["sres"], "alert": c["honest_alert"]}
                       for c in nontriv[:2]])
    chk.count("rogue-flight13", len([c for c in cases if c["scn"]["tamper"]]),
              [c["scn"]["id"] for c in nontriv if c["scn"]["tamper"]],
              samples=[{"scn": c["scn"]["id"], "cres": c["cres"], "sres": c["sres"], "alert": c["honest_alert"]}
                       for c in nontriv if c["scn"]["tamper"]][:2])
    chk.cov["traces_validated_against_impl"] = len(cases)
    by = {}
    for c in cases:
        s = c["scn"]
        k = "v%d/%s/honest=%s" % (s["ver"], s["suite"], s["honest"])
        by[k] = by.get(k, 0) + 1
    chk.leg_info("rogue-config", scenarios=by, rogues=sorted({c["scn"]["rogue"] for c in cases}),
                 lacking_cases=n_lacking)
    chk.leg_info("rogue-flight13", ran=tamper_ran)
    if not proved and not found:
        where, pout = getattr(chk, "proof_error", ("?", ""))
        chk.broken("proof obligation Properties/C03.v no longer checks (%s)" % where, pout)
    chk.finish(
        level="proof",
        rule="every scenario = (DTLS version, suite class, honest side, deviation of the peer, ClientAuth value, "
             "InsecureSkipVerify, VerifyPeerCertificate none/ok/reject, VerifyConnection none/ok/reject[, 1.3 flight tamper]); "
             "full cross product for certificate suites, PSK and ECDHE-PSK with right/wrong key; scheme confusion: key type of "
             "the presented certificate {ecdsa, rsa, ed25519} x claimed scheme family {ed25519, ecdsa, rsa} x message "
             "(ServerKeyExchange, CertificateVerify 1.2, CertificateVerify 1.3 of either side) x policy / InsecureSkipVerify, "
             "signature forged for the empty digest from the public key; refused-resume: two connections, {cert, PSK} x 5 "
             "policies x Finished sent / withheld in the first x EMS on / off; DTLS 1.3 client that answers the server's flight "
             "with an ACK only (all records / one record, then silent; all records, then a final flight without certificate) x "
             "5 policies; time-sequence: DTLS 1.2/1.3 x verifying side {server, client} x chain {leaf, leaf+intermediate} x "
             "what changes between successive handshakes of one process on the same Config/pool objects {clock past "
             "NotAfter / NotBefore of leaf, intermediate, root; pool pointer swapped; pool object emptied / root added in "
             "place; VerifyPeerCertificate answer; ServerName; InsecureSkipVerify; ClientAuth} + random windows and clocks. "
             "Non-trivial = the peer lacks "
             "the credential the honest side's policy requires; distinct by scenario id.",
        assumptions=["views are abstract: x509 path validation (Go crypto/x509), signature schemes and AEAD are not modelled; "
                     "a view field is the truth value of one such primitive check on the received flight",
                     "PSK: 'the Finished record opens and verifies' is the evidence of key knowledge; the symbolic link to "
                     "the PSK is Hs/C04TranscriptSound.psk_binds (premises: PRF and pre-master-secret construction injective)",
                     "DTLS 1.3 rogue flights are produced by a test-only hook injected with go test -overlay into scratch "
                     "copies of internal/flight/flight13/flight{4,5}handler.go (/repo untouched)",
                     "time-sequence leg: certificates are issued inside the synctest bubble relative to its virtual clock "
                     "(starts 2000-01-01T00:00:00Z; hours pass by time.Sleep); leaf key Ed25519 from VERIF_SEED, CA keys "
                     "ECDSA P-256 from crypto/rand (not observed); the in-place pool change overwrites the x509.CertPool "
                     "struct through its pointer",
                     "reproducibility: every certificate and key of the rogue / victim peers is a constant (lab credentials, "
                     "zz_verif_c03_creds_test.go); hello randoms, ephemeral keys and signature nonces come from the library's "
                     "crypto/rand and are not observed",
                     "scenario psk_only_13 (F57, repaired in /repo by 85b75b7: a PSK-only configuration does not offer "
                     "DTLS 1.3): the process's system roots are the lab CA (SSL_CERT_FILE set by this driver); on the repaired "
                     "tree the configuration is refused when the connection is created, reported as a local refusal"])
