"""C04 transcript integrity.  Theorems Properties/C04.v (symbolic: Finished / CertificateVerify /
extended master secret bind the transcript; F5 refutation for the DTLS 1.2 server) + correspondence:
an ON-PATH REWRITER alters one field of one cleartext handshake message (every type, both
directions, every retransmission) under {cert, cert+client-auth, PSK, ECDHE-PSK} x {EMS requested,
EMS disabled} x {full, resumed} (+ connection IDs, + DTLS 1.3 hello messages); the symbolic model
(Hs/C04Run.v) predicts which endpoint reports success.
Monitor = the property: no endpoint that sent or received an altered transcript message reports a
successful handshake."""
import json

import vlib
from vlib import cbool

IMPORTS = "From DtlsV Require Import Hs.C03Auth Hs.C04Transcript Hs.C04Run."

SITE_F5 = "internal/flight/flight12/flight4handler.go flight4Parse"
SITE_A = ("internal/flight/flight12/flight0handler.go flight0Parse / flight2handler.go flight2Parse (negotiation from the "
          "first, cookie-less ClientHello)")
# ClientHello fields that ValidateHelloVerifyRequestResponse pins between the first and the second ClientHello:
# everything before the extensions (version, random, session id, cipher suites, compression) + connection_id + use_srtp
PINNED = {"ch_add_srtp", "ch_swap_suites", "ch_remove_first_suite", "ch_remove_last_suite", "ch_strip_srtp", "ch_alter_srtp",
          "ch_flip_random", "ch_session_id", "ch_version_10", "ch_strip_cid", "ch_alter_cid"}

# ---------------------------------------------------------------- effect of a rewrite on the two views
# (ground truth from WHAT is rewritten, justified by the code that consumes the field)

# a receiver-side check rejects or waits before any Finished exists
LOCAL = {
    "ch_strip_srtp":   "server is configured with SRTP profiles, offer missing (NegotiateSRTP)",
    "sh_strip_srtp":   "client offered use_srtp, selection missing (ValidateSRTPSelection)",
    "ch_version_10":   "flight0Parse: ClientHello version must be 1.2",
    "ch_flip_cookie":  "cookie does not match state.Cookie",
    "hvr_cookie":      "client echoes the altered cookie, server rejects it",
    "ch_strip_cid":    "return_routability_check offered without connection_id",
    "scert_flip_last": "certificate signature broken: chain verification fails (C03 client12)",
    "scert_flip_mid":  "certificate bytes altered: parse / signature / chain fails (C03 client12)",
    "scert_substitute": "ServerKeyExchange signature is not by the substituted leaf key (C03 client12)",
    "scert_empty":     "empty certificate list (C03 client12)",
    "ske_sig":         "ServerKeyExchange signature invalid (C03 client12)",
    "ccert_flip_last": "client certificate altered: CertificateVerify / chain fails (C03 server12)",
    "ccert_substitute": "CertificateVerify is not by the substituted leaf key (C03 server12)",
    "cv_sig":          "CertificateVerify signature invalid (C03 server12)",
    "cv_delete":       "certificate without CertificateVerify: server keeps waiting (C03 server12 = Wait)",
    "creq_delete":     "message_seq gap: the client never completes the server flight",
}
TRANSCRIPT = {"ch_add_sni", "ch_add_sigalgs_cert", "ch_narrow_alpn", "ch_narrow_groups", "ch_swap_suites", "ch_remove_first_suite", "ch_remove_last_suite", "ch_strip_ems", "ch_strip_alpn",
              "ch_strip_groups", "ch_strip_sigalgs", "ch_strip_reneg", "ch_alter_alpn", "ch_alter_srtp",
              "ch_alter_groups", "ch_alter_sigalgs", "ch_alter_cid", "ch_session_id", "sh_session_id",
              "sh_strip_alpn", "sh_strip_reneg", "sh_strip_pointfmt", "sh_alter_alpn", "sh_alter_srtp",
              "ske_hint", "cke_identity", "creq_drop_alg", "creq_alter_ca"}
KEYS = {"sh_other_suite": "the two sides run different suites",
        "sh_strip_ems": "server derives an extended master secret, client a plain one",
        "cke_pubkey": "different ECDH shared secret",
        "sh_strip_cid": "client does not use / expect connection IDs, server does",
        "sh_alter_cid": "client addresses the server with a connection ID it does not own"}


def effect(v, mut):
    """returns dict(effect, resumed, ems_c, ems_s, deaf, why)"""
    target = ""
    if "@" in mut:
        mut, target = mut.split("@")
    e = effect1(v, mut)
    if e is None or not target or v["ver"] == 13:
        return e
    # DTLS 1.2 with hello verification: only ONE of the two ClientHellos is rewritten
    if mut in PINNED:
        e["effect"] = "ELocal"
        e["why"] = "the field is pinned between the two ClientHellos (ValidateHelloVerifyRequestResponse): the server refuses"
        return e
    if target == "ch1":
        e.update(effect="ENone", ems_c=v["ems"], ems_s=v["ems"], deaf=False, resumed=v["resumed"])
        e["why"] = ("the first, cookie-less ClientHello is in no transcript (RFC 6347 4.2.1): the alteration cannot be "
                    "detected, so it must steer nothing - the server negotiates from the second ClientHello")
        return e
    if mut == "ch_strip_reneg":
        e["effect"], e["why"] = "ELocal", ("the server's renegotiation_info answer (remembered from the first ClientHello) "
                                           "is not offered in the second: FinalizeServerHello refuses")
    return e     # ch2 only: the second ClientHello is the one in the transcript - as when every copy is rewritten


# an extension ADDED in transit that makes the server answer something the client never asked for (the client
# refuses the unsolicited answer), or that the server cannot serve
ADDED_ANSWERED = {"ch_add_alpn": "server selects a protocol, the client offered none: unsupported_extension",
                  "ch_add_ems": "server echoes extended_master_secret, the client did not offer it: unsupported_extension",
                  "ch_add_srtp": "use_srtp offered to a server without SRTP profiles / not offered in the other ClientHello",
                  "sh_add_alpn": "the client offered no ALPN: unsupported_extension",
                  "sh_add_ems": "the client did not offer extended_master_secret: unsupported_extension"}


def effect1(v, mut):
    ems = v["ems"]
    e = {"resumed": v["resumed"], "ems_c": ems, "ems_s": ems, "deaf": False, "why": ""}
    cert = v["suite"] in ("cert", "certca")
    if v["ver"] == 13:
        # every byte of ClientHello / HelloRetryRequest / ServerHello feeds the transcript hash that seeds the
        # handshake traffic secrets (or a negotiation check rejects first): nobody completes
        e["effect"] = "ETranscript"
        e["why"] = "DTLS 1.3 key schedule is seeded with the transcript hash"
        return e
    if mut == "hvr_version_10":
        e["effect"] = "ENone"
        e["why"] = "HelloVerifyRequest is outside the Finished transcript (RFC 6347 4.2.1); both versions are accepted"
        return e
    if mut in ("ch_flip_random", "sh_flip_random"):
        if cert and not v["resumed"]:
            e["effect"], e["why"] = "ELocal", "ServerKeyExchange signature covers both randoms (C03 client12)"
        else:
            e["effect"], e["why"] = "EKeys", "master secret / key block depend on both randoms"
        return e
    if mut == "ske_pubkey":
        if cert:
            e["effect"], e["why"] = "ELocal", "ServerKeyExchange signature covers the public key (C03 client12)"
        else:
            e["effect"], e["why"] = "EKeys", "different ECDH shared secret"
        return e
    if mut == "sh_session_id" and v["resumed"]:
        e["effect"], e["why"] = "ELocal", "client takes the ServerHello for a refusal to resume and waits for a full flight"
        return e
    if mut == "ch_session_id" and v["resumed"]:
        e["effect"], e["resumed"] = "ETranscript", False
        e["why"] = "server does not find the session: a full handshake runs, with a ClientHello that differs"
        return e
    if mut == "ch_strip_ems":
        e["effect"], e["ems_c"], e["ems_s"] = "ETranscript", False, False
        e["why"] = "server sees no EMS offer and does not echo it: neither side uses EMS"
        if v["resumed"]:
            e["why"] = "abbreviated handshake: the stored master secret is used, only the transcript differs"
        return e
    if mut == "ch_alter_cid":
        e["effect"], e["deaf"] = "ETranscript", True
        e["why"] = "server addresses the client with an altered connection ID: the client never reads its flight"
        return e
    if mut in LOCAL:
        e["effect"], e["why"] = "ELocal", LOCAL[mut]
        return e
    if mut in ADDED_ANSWERED:
        if v.get("bare") or mut.startswith("sh_") or mut == "ch_add_srtp":
            e["effect"], e["why"] = "ELocal", ADDED_ANSWERED[mut]
        else:
            e["effect"], e["why"] = "ETranscript", "the server does not act on the added extension; the transcripts differ"
        return e
    if mut in KEYS:
        e["effect"], e["why"] = "EKeys", KEYS[mut]
        return e
    if mut in TRANSCRIPT:
        e["effect"] = "ETranscript"
        return e
    return None


def param_diffs(c):
    """negotiated parameters, as reported by the sides that succeeded, that differ from the untampered run"""
    out = {}
    for side, ok, suite, alpn, srtp, ems, curve in (
            ("client", c["cres"] == "ok", c["csuite"], c["calpn"], c["csrtp"], c.get("cems", -1), c.get("ccurve", -1)),
            ("server", c["sres"] == "ok", c["ssuite"], c["salpn"], c["ssrtp"], c.get("sems", -1), c.get("scurve", -1))):
        if not ok:
            continue
        if side == "client" and c.get("cpeer_cert", "") != c.get("base_peer_cert", ""):
            out["server certificate shown to the client"] = "%s instead of %s" % (c.get("cpeer_cert"), c.get("base_peer_cert"))
        if side == "server" and c.get("ssni", "") != c.get("base_sni", ""):
            out["server-side server_name"] = "%r instead of %r" % (c.get("ssni"), c.get("base_sni"))
        if side == "server" and c.get("ssigcert", 0) != c.get("base_sigcert", 0):
            out["server-side signature_algorithms_cert"] = "%d schemes instead of %d" % (c.get("ssigcert"), c.get("base_sigcert"))
        if suite != c["base_suite"]:
            out[side + " cipher_suite"] = "0x%04x instead of 0x%04x" % (suite, c["base_suite"])
        if alpn != c["base_alpn"]:
            out[side + " alpn"] = "%r instead of %r" % (alpn, c["base_alpn"])
        if srtp != c["base_srtp"]:
            out[side + " srtp_profile"] = "%d instead of %d" % (srtp, c["base_srtp"])
        if c["variant"]["ver"] == 12 and ems >= 0 and ems != c.get("base_ems", ems):
            out[side + " extended_master_secret"] = "%d instead of %d" % (ems, c["base_ems"])
        if c["variant"]["ver"] == 12 and curve >= 0 and c["variant"]["suite"] != "psk" and curve != c.get("base_curve", curve):
            out[side + " key_exchange_group"] = "%d instead of %d" % (curve, c["base_curve"])
    return out


def case_term(c):
    v = c["variant"]
    e = effect(v, c["mut"])
    if e is None:
        return None
    return "(mk_c04 %s %s %s %s %s %s %s %s %s %s)" % (
        cbool(e["resumed"]), cbool(e["ems_c"]), cbool(e["ems_s"]), cbool(v["suite"] == "certca"),
        cbool(v["ver"] == 13), e["effect"], cbool(e["deaf"]), cbool(c["cres"] == "ok"), cbool(c["sres"] == "ok"),
        cbool(not param_diffs(c)))


def steered(c):
    out = {}
    if c["sres"] == "ok":
        if c["ssuite"] != c["base_suite"]:
            out["cipher_suite"] = "0x%04x instead of 0x%04x" % (c["ssuite"], c["base_suite"])
        if c["salpn"] != c["base_alpn"]:
            out["alpn"] = "%s instead of %s" % (c["salpn"], c["base_alpn"])
        if c["ssrtp"] != c["base_srtp"]:
            out["srtp_profile"] = "%d instead of %d" % (c["ssrtp"], c["base_srtp"])
    return out


def run(chk):
    proved = chk.prove(["theories/Hs/C04Run.vo"])
    out = vlib.out_path("c04")
    rc, o = vlib.go_test(".", "^TestVerifC04$", {"VERIF_SEED": chk.seed, "VERIF_TIER": chk.tier, "VERIF_OUT": out},
                         tags=["c04"], timeout=1200)
    rows = vlib.read_jsonl(out)
    vlib.cleanup(out)
    found = False
    if rc != 0:
        kind = vlib.classify_go_failure(o)
        if kind == "panic":
            found = True
            chk.finding("handshake", {"monitor": "panic"}, "panic while handling a rewritten handshake message",
                        {"output": o[-4000:]})
        else:
            chk.broken("correspondence harness TestVerifC04 no longer runs against /repo (%s)" % kind, o)
    base = [c for c in rows if c["mut"] == ""]
    cases = [c for c in rows if c["mut"] != ""]
    # report the gravest steering first: a rewrite outside the transcript that changes the certificate the client is shown
    cases.sort(key=lambda c: 0 if c.get("cpeer_cert", "") != c.get("base_peer_cert", "") and c["cres"] == "ok" else 1)
    for b in base:
        if b["cres"] != "ok" or b["sres"] != "ok" or b["creads"] == 0 or b["sreads"] == 0:
            chk.broken("undisturbed handshake of variant %s does not complete (schedule %r)" % (
                b["variant"]["name"], b.get("sched", "")), json.dumps(b))
    for c in cases:
        if c["rt_diff"]:
            chk.broken("decode/encode of an unmodified %s message does not reproduce its bytes" % c["mut"], json.dumps(c))

    # ---- the property's own monitor on the implementation trace
    reported = set()
    steered_cases = []
    f5_cases = []
    unknown = []
    for c in cases:
        e = effect(c["variant"], c["mut"])
        if e is None:
            unknown.append(c)
            continue
        if e["effect"] == "ENone":
            # outside every transcript by protocol design (first ClientHello, HelloVerifyRequest): receiving an altered
            # message and still succeeding cannot be avoided; the monitor is "no negotiated parameter, key or transcript
            # input differs from the untampered run"
            diffs = param_diffs(c)
            if diffs:
                found = True
                steered_cases.append(c)
                sig = {"monitor": "negotiated parameter differs from the untampered run after a rewrite outside the transcript",
                       "version": c["variant"]["ver"], "target": c.get("target") or "hvr"}
                key = json.dumps(sig, sort_keys=True)
                if key not in reported:
                    reported.add(key)
                    chk.finding(SITE_A, sig,
                                "both endpoints complete with a steered parameter although only %s was rewritten (%s): %s; "
                                "variant %s, client=%s server=%s; all such runs: %s" % (
                                    "the first, cookie-less ClientHello" if c.get("target") == "ch1" else c["mut"],
                                    c["mut"], json.dumps(diffs), c["variant"]["name"], c["cres"], c["sres"],
                                    " ".join(sorted("%s/%s" % (k["variant"]["name"], k["mut"]) for k in cases
                                                    if (effect(k["variant"], k["mut"]) or {}).get("effect") == "ENone"
                                                    and param_diffs(k)))),
                                {"how": "TestVerifC04 with C04_ONLY=%s:%s : the mutation is applied only to ClientHello records "
                                        "with an empty cookie; base_* = what the untampered handshake of the variant negotiates "
                                        "(base_ems / base_curve: state.ExtendedMasterSecret / state.NamedCurve of the server)" % (
                                            c["variant"]["name"], c["mut"]),
                                 "case": c, "differs": diffs,
                                 "rerun": "VERIF_SEED=%d bin/check C04 --tier %s" % (chk.seed, chk.tier)})
            continue
        who = [s for s, r in (("client", c["cres"]), ("server", c["sres"])) if r == "ok"]
        leaked = [s for s, n, r in (("client", c["creads"], c["cres"]), ("server", c["sreads"], c["sres"])) if n > 0]
        if not who and not leaked:
            continue
        found = True
        v = c["variant"]
        sig = {"monitor": "%s reports success after a rewritten handshake message" % "+".join(who or leaked),
               "version": v["ver"], "handshake": "resumed" if e["resumed"] else "full",
               "client_auth": v["suite"] == "certca"}
        if c.get("sched"):
            sig["schedule"] = c["sched"]
        if who == ["server"] and not e["resumed"]:
            f5_cases.append(c)
        key = json.dumps(sig, sort_keys=True)
        if key in reported:
            continue
        reported.add(key)
        chk.finding(SITE_F5 if who == ["server"] else "handshake", sig,
                    "%s reports a successful handshake although %s was rewritten in transit (%s -> %s); variant %s%s: "
                    "client=%s server=%s%s; all such runs: %s" % (
                        "+".join(who or leaked), c["mut"], *c["dir"].split("2"), v["name"],
                        ", every datagram delivered as one datagram per record" if c.get("sched") == "split" else "",
                        c["cres"], c["sres"],
                        (", negotiated parameter steered: %s" % json.dumps(steered(c))) if steered(c) else "",
                        " ".join(sorted("%s/%s%s" % (k["variant"]["name"], k["mut"], ":" + k["sched"] if k.get("sched") else "")
                                        for k in cases
                                        if (effect(k["variant"], k["mut"]) or {"effect": "ENone"})["effect"] != "ENone"
                                        and [x for x in (k["cres"], k["sres"]) if x == "ok"] == ["ok"] * len(who)
                                        and (k["sres"] == "ok") == ("server" in who)
                                        and (k["cres"] == "ok") == ("client" in who)
                                        and k.get("sched", "") == c.get("sched", ""))[:40])),
                    {"how": "TestVerifC04 with C04_ONLY=%s:%s%s : real client and server (variant: suite class, "
                            "ExtendedMasterSecret %s on both sides, %s handshake), every epoch-0 record carrying handshake type %d "
                            "in direction %s is decoded with handshake.Handshake.Unmarshal, mutation `%s` applied, re-encoded "
                            "(lengths recomputed, message_seq kept) and delivered instead; cres/sres = HandshakeContext result "
                            "class of client / server; schedule split = every datagram (both directions, after rewriting) is "
                            "delivered as one datagram per record, in order, the receiver run to quiescence after each" % (
                                v["name"], c["mut"], ":split" if c.get("sched") == "split" else "",
                                "Request (default)" if v["ems"] else "Disable",
                                "resumed" if v["resumed"] else "full", c["htype"], c["dir"], c["mut"]),
                     "case": c, "steered": steered(c),
                     "rerun": "VERIF_SEED=%d bin/check C04 --tier %s" % (chk.seed, chk.tier)})
    if unknown:
        chk.broken("%d rewrites without an effect classification in checks/c04.py" % len(unknown),
                   json.dumps(sorted({c["mut"] for c in unknown})))

    # ---- model / implementation comparison inside Coq
    ok_model, mo = vlib.coq_make(["theories/Hs/C04Run.vo"])
    known = [c for c in cases if effect(c["variant"], c["mut"]) is not None]
    if not ok_model:
        chk.broken("model Hs/C04Run.v no longer compiles", mo)
    elif known:
        terms = [case_term(c) for c in known]
        bad, err = vlib.coq_mismatches("c04", IMPORTS, "c04_case", "c04_ok", terms, shard=300)
        if bad is None:
            chk.broken("correspondence evaluation failed in coqc", err)
        else:
            for j in bad[:3]:
                c = known[j]
                e = effect(c["variant"], c["mut"])
                viol = (c["cres"] == "ok" or c["sres"] == "ok") and (e["effect"] != "ENone" or bool(param_diffs(c)))
                chk.finding("handshake", {"monitor": "model-mismatch", "variant": c["variant"]["name"], "mut": c["mut"],
                                          "schedule": c.get("sched", "")},
                            "who reports success (or, for a rewrite outside the transcript, a negotiated parameter) differs from "
                            "the symbolic model Hs/C04Run.v [C04_ONLY=%s:%s%s]: client=%s server=%s params %s" % (
                                c["variant"]["name"], c["mut"], ":split" if c.get("sched") == "split" else ":plain",
                                c["cres"], c["sres"], json.dumps(param_diffs(c))),
                            {"case": c, "term": terms[j], "effect": e, "correspondence": "Hs.C04Run.c04_ok"},
                            no_input=not (viol or found))
        bad2, err2 = vlib.coq_mismatches("c04m", IMPORTS, "c04_case", "c04_not_violating", terms, shard=300)
        if bad2 is None:
            chk.broken("monitor evaluation failed in coqc", err2)
        else:
            py = {i for i, c in enumerate(known) if (c["cres"] == "ok" or c["sres"] == "ok") and
                  (effect(c["variant"], c["mut"])["effect"] != "ENone" or param_diffs(c))}
            if py != set(bad2):
                chk.broken("property monitor in Coq (c04_violates) and in the driver disagree",
                           json.dumps(known[sorted(py ^ set(bad2))[0]]))

    storms = [c for c in cases if c["storm"]]
    chk.count("rewriter", len(cases), [(c["variant"]["name"], c["mut"], c.get("sched", "")) for c in cases],
              samples=[{"variant": c["variant"]["name"], "mut": c["mut"], "cres": c["cres"], "sres": c["sres"],
                        "steered": steered(c)} for c in (f5_cases[:2] or cases[:2])])
    chk.cov["traces_validated_against_impl"] = len(rows)
    per_type = {}
    for c in cases:
        k = "%s type %d" % (c["dir"], c["htype"])
        per_type[k] = per_type.get(k, 0) + 1
    chk.leg_info("rewriter", variants=sorted({c["variant"]["name"] for c in rows}),
                 mutations=sorted({c["mut"] for c in cases}), per_direction_and_type=per_type,
                 split_schedule_runs=len([c for c in cases if c.get("sched") == "split"]),
                 server_only_success=sorted({"%s/%s" % (c["variant"]["name"], c["mut"]) for c in f5_cases}),
                 steered=sorted({"%s/%s: %s" % (c["variant"]["name"], c["mut"], json.dumps(steered(c)))
                                 for c in f5_cases if steered(c)}),
                 outside_transcript_both_succeed=sorted({"%s/%s" % (c["variant"]["name"], c["mut"]) for c in cases
                                                         if (effect(c["variant"], c["mut"]) or {}).get("effect") == "ENone"}),
                 steered_by_first_client_hello=sorted({"%s/%s: %s" % (c["variant"]["name"], c["mut"], json.dumps(param_diffs(c)))
                                                       for c in steered_cases}),
                 datagram_storms=sorted({"%s/%s" % (c["variant"]["name"], c["mut"]) for c in storms}))
    if not proved and not found:
        where, pout = getattr(chk, "proof_error", ("?", ""))
        chk.broken("proof obligation Properties/C04.v no longer checks (%s)" % where, pout)
    chk.finish(
        level="proof",
        rule="one run per (variant, mutation) where the variant's handshake contains the message and field: %d variants "
             "({cert, cert+client-auth, PSK, ECDHE-PSK} x {EMS Request, Disable} x full, {cert, PSK} x EMS x resumed, 2 with "
             "connection IDs, 2 DTLS 1.3 incl. HelloRetryRequest) x %d mutations over ClientHello, HelloVerifyRequest, "
             "ServerHello, Certificate (both directions), ServerKeyExchange, CertificateRequest, ClientKeyExchange, "
             "CertificateVerify; delivery schedule: datagrams as emitted, and 'split' = one datagram per record with the "
             "receiver run to quiescence after each (quick: a representative subset of the mutations, thorough: all). "
             "Non-trivial = every rewritten run; distinct by (variant, mutation, schedule)." % (
                 len({c["variant"]["name"] for c in rows}), len({c["mut"] for c in cases})),
        assumptions=["hash, PRF, pairing injective (premises PRF_inj, pair_inj, H_inj of the theorems); signatures / AEAD "
                     "idealised: a CertificateVerify verifies iff the two transcripts up to ClientKeyExchange are equal, a "
                     "record opens iff both sides derived the same key block",
                     "HelloVerifyRequest and the cookie-less ClientHello are outside the Finished transcript by RFC 6347 "
                     "4.2.1: an alteration there cannot be detected; the monitor for such rewrites (first ClientHello only, "
                     "HelloVerifyRequest version) is therefore 'no negotiated parameter (cipher suite, ALPN, SRTP profile, extended "
                     "master secret, key-exchange group, the server certificate shown to the client, the server name and the "
                     "signature_algorithms_cert list the server's state holds) differs from the untampered run', both sides "
                     "succeeding is expected; model: the server's negotiation state after the second ClientHello is a function of "
                     "that ClientHello and the configuration only (Hs/C04TranscriptSound.negotiate_forgets_first_hello)",
                     "tamper family 'add an extension the client did not send' (server_name, ALPN, use_srtp, extended master "
                     "secret, signature_algorithms_cert in the ClientHello; ALPN, EMS answers in the ServerHello), run in all variants "
                     "and in two 'bare' variants: client without server name / ALPN / use_srtp / EMS, server with two certificates "
                     "chosen by server name, ALPN and EMS on request",
                     "every ClientHello mutation has three targets in variants with hello verification: every copy, only the "
                     "first (cookie-less) ClientHello, only the second",
                     "the effect of each rewrite on the two views is classified in checks/c04.py from what is rewritten; "
                     "the outcome is computed by the symbolic model",
                     "the symbolic model has no notion of delivery schedule and needs none: completion requires the check of "
                     "the peer's Finished against the local transcript however the flight was cut into datagrams "
                     "(finished_binds_transcript, server_binds_when_checking are statements about the views only); the 'split' "
                     "schedule exercises re-entry of the flight parsers with partial flights on the implementation and is "
                     "predicted like the unsplit run. Small-MTU runs are not a separate dimension: the rewriter leaves "
                     "fragmented messages alone, and 'split' already yields one record per datagram",
                     "reproducibility: connection IDs are a function of VERIF_SEED, variant and side (C04_CID=<8 hex digits> forces a "
                     "value) and the record parser of the rewriter / splitter is given the connection-ID length of the variant (a "
                     "tls12_cid header does not carry it); certificates are fixed; hello randoms, ephemeral keys and signature nonces "
                     "come from the library's crypto/rand and are not observed",
                     "encrypted messages (Finished, all DTLS 1.3 messages after ServerHello) are not rewritten: C05/C20"])
