"""C05 record authenticity: theorems Properties/C05.v (forged records are inert, only authentic
application data is delivered) + correspondence of Rec/Recv.v with real connections receiving
mutated, spliced and genuine records for every DTLS 1.2 suite family, +-CID, +-padding."""
import vlib
from vlib import cN, clist, cbool, chex

IMPORTS = "From DtlsV Require Import Lib.Bytes Rec.Window Rec.WindowRun Rec.Recv Rec.RecvRun."


def clear_term(cl):
    if cl == "app":
        return "(CApp [])"
    if cl.startswith("alert:"):
        _, l, d = cl.split(":")
        return "(CAlert %s %s)" % (l, d)
    return {"ccs": "CCCS", "hs": "(CHs true false)", "ack": "CAck", "rrc": "CRrc"}.get(cl, "CBad")


def wire_term(a):
    auth = "None"
    if a["kind"] == "genuine":
        auth = "(Some (CApp [%d]))" % a["payload"]
    return "(mkw %d %d %d %s %s %s)" % (a["ct"], a["epoch"], a["seq"], chex(a["cid"]), auth,
                                       clear_term(a.get("clear") or "bad"))


def case_term(c):
    cid = chex(c["cid"])
    pre = []
    for e, q, ct in c["pre"]:
        if e == 0 and ct == 20:
            pre += ["InitCipher", "Arrive (mkw 20 0 %d [] None CCCS)" % q]
        elif e == 0:
            pre.append("Arrive (mkw %d 0 %d [] None (CHs true false))" % (ct, q))
        else:
            pre.append("Arrive (mkw %d %d %d %s (Some (CHs true false)) CBad)" % (ct, e, q, cid))
    arr, obs = [], []
    for a, o in zip(c["arrivals"], c["obs"]):
        if not a["decod"]:
            continue
        arr.append(wire_term(a))
        obs.append("(%s,%s,%s,%s)" % (cbool(o["delivered"] != -1), cbool(o["alert"]),
                                      cbool(o["read_err"] != ""), cbool(o["closed"])))
    return "(%d%%nat, %s, false, %s, %s, %s)" % (c["w"], cid, clist(pre), clist(arr), clist(obs))


def monitor(c):
    """the property's own predicate on the implementation trace; returns (index, text) or None"""
    seen = set()
    for i, (a, o) in enumerate(zip(c["arrivals"], c["obs"])):
        if o["delivered"] == -2:
            return i, "Read returned a payload the peer never wrote"
        claims_protection = (not a["decod"]) or (a["epoch"] != 0 and a["ct"] != 20)
        if a["kind"] != "genuine":
            if o["delivered"] != -1:
                return i, "non-authentic record (%s) delivered payload %d" % (a["mut"], o["delivered"])
            if claims_protection and (a["decod"] or a["mut"].endswith(":uni13")) and (o["emitted"] or o["closed"]):
                return i, "non-authentic protected record (%s) had an effect: emitted=%d closed=%s" % (
                    a["mut"], o["emitted"], o["closed"])
        else:
            if a["payload"] in seen:
                if o["delivered"] != -1:
                    return i, "replayed genuine record delivered again"
            else:
                if c["obs"][i]["closed"] and o["delivered"] == -1:
                    continue
                if o["delivered"] != a["payload"]:
                    return i, "genuine record %d not delivered after forgeries (got %d)" % (a["payload"], o["delivered"])
                seen.add(a["payload"])
    return None


def shrink(c, idx):
    """keep only the failing arrival, the genuine records before it and the handshake prefix"""
    keep = [i for i, a in enumerate(c["arrivals"]) if i == idx or (a["kind"] == "genuine" and i < idx)]
    d = dict(c)
    d["arrivals"] = [c["arrivals"][i] for i in keep]
    d["obs"] = [c["obs"][i] for i in keep]
    return d


def hs_monitor(c):
    """leg hsinject: the property's own predicate on one run (handshake with one forged datagram
    injected, then k Writes by the peer): every payload Read returned is one the peer wrote, 1-1.
    Returns None or (monitor, text)."""
    if c["hs"] != "ok":
        return None
    left = list(c["writes"])
    for i, r in enumerate(c["reads"]):
        if r in left:
            left.remove(r)
            continue
        forged = c["inj"].get("payload") is not None and r == c["inj"].get("payload")
        dup = r in c["writes"]
        if forged or dup:
            return ("forged-payload-delivered-after-handshake",
                    "Read #%d returned the payload of a forged %s record (type %d, epoch %d) injected during the "
                    "handshake; the peer never wrote it%s" % (i + 1, c["inj"]["kind"], c["inj"]["ct"],
                                                             c["inj"]["epoch"], " a second time" if dup else ""))
        return ("read-returned-unwritten-payload", "Read #%d returned %d bytes the peer never wrote" % (i + 1, len(r) // 2))
    if left:
        return ("genuine-payload-lost-after-handshake-injection",
                "%d of %d payloads written by the peer were never returned by Read" % (len(left), len(c["writes"])))
    return None


def run_hsinject(chk):
    """forged records injected while the handshake runs (theorems C05_unprotected_appdata_never_delivered ...)"""
    out = vlib.out_path("c05hi")
    rc, o = vlib.go_test(".", "^TestVerifC05HsInject$", {"VERIF_SEED": chk.seed, "VERIF_TIER": chk.tier,
                                                         "VERIF_OUT": out}, tags=["c05"], timeout=2400)
    cases = vlib.read_jsonl(out)
    vlib.cleanup(out)
    found = False
    if rc != 0:
        kind = vlib.classify_go_failure(o)
        if kind == "panic":
            found = True
            chk.finding("conn.go receive path during the handshake", {"monitor": "panic", "leg": "hsinject"},
                        "panic while a forged record was injected into a running handshake", {"output": o[-4000:]})
        else:
            chk.broken("correspondence harness TestVerifC05HsInject no longer runs against /repo (%s)" % kind, o)
    elif not cases:
        chk.broken("TestVerifC05HsInject produced no observations", o)
    seen = set()
    for c in cases:
        m = hs_monitor(c)
        if not m:
            continue
        found = True
        sig = {"monitor": m[0], "leg": "hsinject", "version": c["version"], "inj": c["inj"].get("kind", "none")}
        key = (m[0], c["version"], sig["inj"])
        if key in seen:
            continue
        seen.add(key)
        chk.finding("conn.go handleApplicationDataRecord / parkEarlyApplicationData (records arriving while the handshake runs)",
                    sig, "%s [variant %s, target %s, injected after datagram %d of %d: %s]" % (
                        m[1], c["variant"], c["target"], c["point"], c["points"], c["after"]),
                    {"how": "run a handshake of `variant` in the lab; after `point` datagrams have been delivered put "
                            "the datagram `inj.hex` on the wire towards `target` with the peer's address as source; "
                            "complete the handshake; the peer Writes `writes`; `reads` is what Conn.Read returned on "
                            "`target` (must map 1-1 into `writes`)",
                     "case": c})
    failed = [c for c in cases if c["hs"] != "ok"]
    inj_cases = [c for c in cases if c["point"] >= 0]
    keys = [(c["variant"], c["target"], c["point"], c["inj"]["kind"], c["inj"]["pkind"]) for c in inj_cases
            if c["hs"] == "ok"]
    kinds = {}
    for c in inj_cases:
        kinds[c["inj"]["kind"]] = kinds.get(c["inj"]["kind"], 0) + 1
    chk.count("hsinject", len(inj_cases), keys,
              samples=[{k: c[k] for k in ("variant", "target", "point", "after", "inj", "hs", "reads")}
                       for c in inj_cases[:1] + inj_cases[-1:]])
    chk.leg_info("hsinject", variants=sorted({c["variant"] for c in cases}), injection_kinds=kinds,
                 runs=len(inj_cases), handshake_failed_skipped=len(failed),
                 handshake_failed_by_kind=sorted({(c["version"], c["inj"].get("kind", "none")) for c in failed}),
                 points={c["variant"]: c["points"] for c in cases})
    return found


def run(chk):
    proved = chk.prove()
    out = vlib.out_path("c05")
    rc, o = vlib.go_test(".", "^TestVerifC05$", {"VERIF_SEED": chk.seed, "VERIF_TIER": chk.tier, "VERIF_OUT": out},
                         tags=["c05"], timeout=2400)
    cases = vlib.read_jsonl(out)
    vlib.cleanup(out)
    found = False
    if rc != 0:
        kind = vlib.classify_go_failure(o)
        if kind == "panic":
            found = True
            chk.finding("conn.go receive path", {"monitor": "panic"}, "panic in receive path under mutated records",
                        {"output": o[-4000:]})
        else:
            chk.broken("correspondence harness TestVerifC05 no longer runs against /repo (%s)" % kind, o)
    for c in cases:
        m = monitor(c)
        if m:
            found = True
            i, text = m
            a = c["arrivals"][i]
            chk.finding("conn.go receive path", {"monitor": text.split(" (")[0], "variant": c["variant"],
                                                 "mut": a["mut"].split(":")[0]},
                        "%s [variant %s]" % (text, c["variant"]),
                        {"how": "establish `variant`, peer writes payloads, deliver `arrivals[*].hex` in order to the "
                                "client; obs = what Read returned / what the client emitted per arrival",
                         "case": shrink(c, i)})
            break
    ok_model, mo = vlib.coq_make(["theories/Rec/RecvRun.vo"])
    if not ok_model:
        chk.broken("model Rec/RecvRun.v no longer compiles", mo)
    elif cases:
        terms = [case_term(c) for c in cases]
        bad, err = vlib.coq_mismatches("c05", IMPORTS, "c05_case", "c05_ok", terms, shard=4)
        if bad is None:
            chk.broken("correspondence evaluation failed in coqc", err)
        else:
            for i in bad[:1]:
                m = monitor(cases[i])
                chk.finding("conn.go receive path", {"monitor": "model-mismatch", "variant": cases[i]["variant"]},
                            "per-arrival observations differ from Rec/Recv.v model [variant %s]" % cases[i]["variant"],
                            {"case": cases[i], "correspondence": "Rec.RecvRun.c05_ok"},
                            no_input=(m is None and not found))
    n_arr = sum(len(c["arrivals"]) for c in cases)
    keys = []
    muts = {}
    for c in cases:
        for a in c["arrivals"]:
            k = a["mut"].split(":")[0] or a["kind"]
            muts[k] = muts.get(k, 0) + 1
            if a["kind"] != "genuine":
                keys.append((c["variant"], a["mut"]))
    chk.count("e2e", n_arr, keys, samples=[{"variant": c["variant"], "arrival": c["arrivals"][j], "obs": c["obs"][j]}
                                          for c in cases[:2] for j in (0, len(c["arrivals"]) - 2)])
    chk.cov["traces_validated_against_impl"] = len(cases)
    chk.leg_info("e2e", variants=sorted({c["variant"] for c in cases}), mutation_kinds=muts,
                 connections=len(cases))
    if not proved and not found:
        where, pout = getattr(chk, "proof_error", ("?", ""))
        chk.broken("proof obligation Properties/C05.v no longer checks (%s)" % where, pout)
    # forged records injected while the handshake runs (every datagram boundary, both directions)
    run_hsinject(chk)
    # DTLS 1.3 record layer: model Rec/Rec13.v, theorems Properties/C05rec13.v, correspondence legs
    import rec13lib
    rec13lib.run_c05(chk)
    chk.finish(
        level="proof",
        rule="per connection (15 suite/CID/padding variants): every single-bit flip of the record header, bit flips "
             "in first/last body bytes, every rewritten content type/version/epoch/sequence number/length, "
             "truncation, extension, CID alter/remove/insert, splice from a second session of the same variant, then "
             "the genuine record; finally a replay. Non-trivial = non-genuine arrival; distinct by (variant, mutation). "
             "Leg hsinject: per variant (DTLS 1.2 +-CID, DTLS 1.3 +-CID) x target (client, server) x every datagram "
             "boundary of the handshake x forged record class (epoch-0 application_data, epoch-0 records of other "
             "types carrying an application payload, protected-epoch records with a garbage body) x payload: one run = "
             "handshake with the injection, k Writes by the peer, all Reads on the target; reads must map 1-1 into "
             "writes; runs whose handshake failed are skipped and counted.",
        assumptions=["int_ctxt: a record authenticates under a header only if the peer sealed it under exactly that "
                     "header (AEAD/CBC-HMAC integrity; AAD/nonce injectivity is C10's theorem)",
                     "the DTLS 1.3 record path has its own model Rec/Rec13.v and theorems Properties/C05rec13.v (leg rec13)"])
