"""C06 anti-replay: theorems Properties/C06.v + correspondence of the window model with
(a) the replay detector driven as conn.go drives it and (b) real connections receiving
arrival scripts; implementation-side monitors: no payload twice, in-window delivered once."""
import json
import vlib
from vlib import cN, cNlist, clist, cbool

IMPORTS = "From DtlsV Require Import Lib.Bytes Rec.Window Rec.WindowRun."


def monitor_e2e(c):
    """property predicate on an implementation trace; returns None or description"""
    seen = set()
    hi = None
    for pos, (idx, got) in enumerate(zip(c["script"], c["delivered"])):
        if idx < 0:
            if got != -1:
                return "a ChangeCipherSpec record (arrival %d) made Read return payload %d" % (pos, got)
            continue
        seq = c["seqs"][idx]
        if got != -1 and got != idx:
            return "arrival %d of record %d delivered payload %d" % (pos, idx, got)
        if got != -1:
            if idx in seen:
                return "payload %d delivered twice (arrival %d)" % (idx, pos)
        else:
            # window tolerance: not yet delivered and fewer than W behind the newest accepted
            newest = max([c["seqs"][i] for i in seen] + c["pre"]) if (seen or c["pre"]) else None
            if idx not in seen and newest is not None and (seq > newest or newest - seq < c["w"]):
                return "record %d (seq %d) within window %d of newest %d was not delivered (arrival %d)" % (
                    idx, seq, c["w"], newest, pos)
        if got != -1:
            seen.add(idx)
    if c["extra"]:
        return "%d payloads delivered that were never written" % c["extra"]
    return None


def monitor_x(c):
    """histories with an export/resume or with records overtaking the peer's final flight"""
    if c.get("notes"):
        return None, None, None
    if c["kind"] == "resume-replay":
        again = sorted(set(c["before"]) & set(c["after"]))
        if again:
            return ("payload %s delivered by Read before the state export and AGAIN by the resumed connection when the network "
                    "duplicated its datagram (the peer wrote it once)" % again,
                    "state.go generateState / generateInternalState, resume.go (the exported state carries nothing about the receive side)",
                    {"monitor": "payload delivered again after export/resume"})
        want = [i for i in range(c["n"] + 1) if i not in c["before"]]
        if sorted(c["after"]) != want or c["extra"]:
            return ("after the resume Read returned payloads %s, expected each of %s exactly once" % (c["after"], want),
                    "state.go / resume.go", {"monitor": "resumed connection does not deliver the remaining records exactly once"})
        return None, None, None
    # early / early-resumed / early-resumed-close: records (and a close_notify) that overtake the end of the peer's final flight
    resumed = c["kind"].startswith("early-resumed")
    closing = c["kind"].endswith("-close")
    who = ("client's" if resumed else "server's")
    want = list(range(c["n"])) if closing else list(range(c["n"] + 1))
    if not c["done"]:
        return ("%d application record(s)%s that overtook the %s ChangeCipherSpec/Finished: the receiving side's handshake did not "
                "complete although the final flight arrived (%s)" % (c["n"], " and a close_notify" if closing else "", who,
                                                                     c.get("notes2") or "still pending"),
                "conn.go handleApplicationDataRecord / handleQueuedPackets (early records read back while the handshake completes)",
                {"monitor": "early records block or fail the handshake", "version": 12, "resumed": resumed, "close_notify": closing})
    if sorted(c["after"] or []) != want or c["extra"] or c["parked"]:
        return ("records that overtook the %s ChangeCipherSpec/Finished (reordering inside the window): Read returned %s, "
                "expected each of %s exactly once; %d record(s) still parked in Conn.encryptedPackets" % (who, c["after"], want, c["parked"]),
                "internal/flight/flight12 flight5Parse / flight4bParse (reading the early-record queue back)",
                {"monitor": "records that overtook the final flight not delivered exactly once", "version": 12, "resumed": resumed})
    return None, None, None


def monitor_earlydup(c):
    """genuine early application data with network duplicates (TestVerifC06EarlyDup): the property's own predicate -
    no payload is returned by Read more times than the peer wrote it (once); nothing early is lost either"""
    if c.get("notes"):
        return None, None
    who = "server's" if c["receiver"] == "client" else "client's"
    base = {"version": 12, "receiver": c["receiver"], "resumed": c["resumed"]}
    if not c["done"]:
        return ("%d application record(s) with duplicates overtook the %s ChangeCipherSpec/Finished: the %s handshake did not "
                "complete although the final flight arrived (%s)" % (c["n"], who, c["receiver"], c.get("notes2") or "still pending"),
                dict(base, monitor="early records with duplicates block or fail the handshake"))
    counts = {}
    for i in c["after"]:
        counts[i] = counts.get(i, 0) + 1
    twice = sorted(i for i, k in counts.items() if k > 1)
    if twice:
        i = twice[0]
        return ("payload %d (epoch 1 seq %d) was written once by the peer and returned by Read %d times: its datagram overtook the %s "
                "ChangeCipherSpec/Finished (processed before the %s handshake was marked established, i.e. parked) and the network "
                "delivered copies of that datagram (arrivals %s); Read returned %s" % (
                    i, c["seqs"][i] if i < len(c["seqs"]) else -1, counts[i], who, c["receiver"], c["arrivals"], c["after"]),
                dict(base, monitor="early (parked) payload delivered more than once"))
    want = list(range(c["n"] + 1))
    if sorted(c["after"]) != want or c["extra"] or c["parked"]:
        return ("early records with duplicates: Read returned %s, expected each of %s exactly once (%d unknown payloads, %d record(s) "
                "still queued)" % (c["after"], want, c["extra"], c["parked"]),
                dict(base, monitor="early records with duplicates not delivered exactly once"))
    return None, None


def run(chk):
    proved = chk.prove()
    out_u = vlib.out_path("c06u")
    out_e = vlib.out_path("c06e")
    env = {"VERIF_SEED": chk.seed, "VERIF_TIER": chk.tier}
    rc1, o1 = vlib.go_test(".", "^TestVerifC06Unit$", dict(env, VERIF_OUT=out_u), tags=["c06"])
    rc2, o2 = vlib.go_test(".", "^TestVerifC06E2E$", dict(env, VERIF_OUT=out_e), timeout=1800, tags=["c06"])
    unit = vlib.read_jsonl(out_u)
    e2e = vlib.read_jsonl(out_e)
    vlib.cleanup(out_u)
    vlib.cleanup(out_e)
    found_input = False
    for rc, o, nm in ((rc1, o1, "TestVerifC06Unit"), (rc2, o2, "TestVerifC06E2E")):
        if rc != 0:
            kind = vlib.classify_go_failure(o)
            if kind == "panic":
                chk.finding("conn.go receive path", {"monitor": "panic", "test": nm}, "panic in " + nm,
                            {"test": nm, "output": o[-3000:]})
                found_input = True
            else:
                chk.broken("correspondence harness %s no longer runs against /repo (%s)" % (nm, kind), o)

    # implementation-side monitors (the property's own predicate)
    for c in e2e:
        m = monitor_e2e(c)
        if m:
            found_input = True
            chk.finding("conn.go receive path", {"monitor": m.split(" (")[0], "variant": c["variant"]}, m,
                        {"how": "establish variant, server writes n payloads, deliver captured records to the "
                                "client in `script` order; `delivered` is what Read returned per arrival",
                         "case": c, "rerun": "VERIF_SEED=%d bin/check C06 --tier %s" % (chk.seed, chk.tier)})
            break

    # correspondence with the model, evaluated inside Coq
    if proved or True:
        ok_model, _ = vlib.coq_make(["theories/Rec/WindowRun.vo"])
        if not ok_model:
            chk.broken("model Rec/WindowRun.v no longer compiles", _)
        else:
            uterms = ["(%d%%nat, %s, %s, %s)" % (
                c["w"], cN(c["maxseq"]), cNlist(c["xs"]),
                clist(["(%s,%s)" % (cbool(a), cbool(b)) for a, b in zip(c["ok"], c["latest"])])) for c in unit]
            bad, err = vlib.coq_mismatches("c06u", IMPORTS, "unit_case", "unit_ok", uterms)
            if bad is None:
                chk.broken("correspondence evaluation (unit) failed in coqc", err)
            else:
                for i in bad[:1]:
                    chk.finding("replaydetector as driven by conn.go", {"monitor": "model-mismatch"},
                                "replay detector verdicts differ from Rec/Window.v model",
                                {"case": unit[i], "correspondence": "Rec.WindowRun.unit_ok"},
                                no_input=not found_input)
            chk.count("unit", len(unit), [(c["w"], tuple(c["xs"])) for c in unit
                                          if any(c["ok"]) and not all(c["ok"])],
                      samples=[c for c in unit if any(c["ok"]) and not all(c["ok"])][-2:])
            def ep(c, i):
                return "(%d,%d)" % (c["epochs"][i], c["seqs"][i])
            pre_ep = lambda c: clist(["(%d,%d)" % (c["epochs"][0] if c["epochs"] else 1, q) for q in c["pre"]])
            # ChangeCipherSpec arrivals (script index -1) are inert for the window model: they are left out
            # of the model's input (the monitor above checks that they deliver nothing)
            eterms = ["(%d%%nat, %s, %s, %s)" % (
                c["w"], pre_ep(c), clist([ep(c, i) for i in c["script"] if i >= 0]),
                clist([cbool(d != -1) for i, d in zip(c["script"], c["delivered"]) if i >= 0])) for c in e2e]
            bad, err = vlib.coq_mismatches("c06e", IMPORTS, "e2e_ep_case", "e2e_ep_ok", eterms)
            if bad is None:
                chk.broken("correspondence evaluation (e2e) failed in coqc", err)
            else:
                for i in bad[:1]:
                    m = monitor_e2e(e2e[i])
                    chk.finding("conn.go receive path", {"monitor": "model-mismatch", "variant": e2e[i]["variant"]},
                                "deliveries differ from Rec/Window.v model" + (": " + m if m else ""),
                                {"case": e2e[i], "correspondence": "Rec.WindowRun.e2e_ok"},
                                no_input=(m is None and not found_input))
            nontriv = [c for c in e2e if any(d != -1 for d in c["delivered"]) and any(d == -1 for d in c["delivered"])]
            chk.count("e2e", len(e2e), [(c["variant"], c["w"], tuple(c["script"])) for c in nontriv],
                      samples=nontriv[-2:])
            chk.cov["traces_validated_against_impl"] += len(e2e)
            variants = {}
            for c in e2e:
                variants[c["variant"]] = variants.get(c["variant"], 0) + 1
            chk.leg_info("e2e", variants=variants, windows=sorted({c["w"] for c in e2e}),
                         exhaustive="all arrival sequences of length<=%d over 3 records, W=2"
                                    % (6 if chk.tier == "thorough" else 4))
    # histories around the steady state of one connection: export/resume in the middle, records that overtake
    # the end of the peer's final flight
    out_x = vlib.out_path("c06x")
    rc3, o3 = vlib.go_test(".", "^TestVerifC06X$", dict(env, VERIF_OUT=out_x), timeout=900, tags=["c06"])
    xs = vlib.read_jsonl(out_x)
    vlib.cleanup(out_x)
    if rc3 != 0:
        kind = vlib.classify_go_failure(o3)
        if kind == "panic":
            chk.finding("conn.go receive path", {"monitor": "panic", "test": "TestVerifC06X"}, "panic in TestVerifC06X",
                        {"test": "TestVerifC06X", "output": o3[-3000:]})
            found_input = True
        else:
            chk.broken("correspondence harness TestVerifC06X no longer runs against /repo (%s)" % kind, o3)
    seen_sig = set()
    for c in xs:
        m, site, sig = monitor_x(c)
        if m and json.dumps(sig, sort_keys=True) not in seen_sig:
            seen_sig.add(json.dumps(sig, sort_keys=True))
            found_input = True
            chk.finding(site, sig, m + " [variant %s, window %d, %d payloads]" % (c["variant"], c["w"], c["n"]),
                        {"how": "TestVerifC06X (go test -tags verif, overlay c06): kind `resume-replay` = establish, server writes n, "
                                "client reads the first k, client state exported + resumed on a new endpoint, every old datagram "
                                "delivered again, one new record; kind `early` = the server's n records are delivered before the "
                                "datagram with its ChangeCipherSpec/Finished", "case": c})
    chk.count("histories", len(xs), [(c["kind"], c["variant"], c["w"], c["n"], tuple(c.get("before") or [])) for c in xs
                                     if c.get("after")], samples=xs[:2])
    chk.cov["traces_validated_against_impl"] += len(xs)
    # genuine early application data (parked before the local handshake is marked established) with network duplicates
    out_d = vlib.out_path("c06d")
    rc4, o4 = vlib.go_test(".", "^TestVerifC06EarlyDup$", dict(env, VERIF_OUT=out_d), timeout=900, tags=["c06"])
    ds = vlib.read_jsonl(out_d)
    vlib.cleanup(out_d)
    if rc4 != 0:
        kind = vlib.classify_go_failure(o4)
        if kind == "panic":
            chk.finding("conn.go receive path", {"monitor": "panic", "test": "TestVerifC06EarlyDup"}, "panic in TestVerifC06EarlyDup",
                        {"test": "TestVerifC06EarlyDup", "output": o4[-3000:]})
            found_input = True
        else:
            chk.broken("correspondence harness TestVerifC06EarlyDup no longer runs against /repo (%s)" % kind, o4)
    elif not ds:
        chk.broken("TestVerifC06EarlyDup produced no cases", o4)
    seen_d = set()
    for c in ds:
        m, sig = monitor_earlydup(c)
        if m and json.dumps(sig, sort_keys=True) not in seen_d:
            seen_d.add(json.dumps(sig, sort_keys=True))
            found_input = True
            chk.finding("conn.go handleApplicationDataRecord / parkEarlyApplicationData (replay window commit of a parked record)", sig,
                        m + " [variant %s, window %d]" % (c["variant"], c["w"]),
                        {"how": "TestVerifC06EarlyDup (go test -tags verif, overlay c06): DTLS 1.2 handshake in a synctest bubble; the side that "
                                "sends the last flight (server; client when resumed) completes and writes n payloads; `arrivals` is the order in "
                                "which the network hands datagrams to the receiver: orig:i = payload i overtaking the held ChangeCipherSpec/"
                                "Finished datagram, A:i = copy of that datagram while still queued, final = the held final flight, B:i = copy "
                                "right behind it, C:i = copy after the receiver's handshake returned, fresh = one new record; `after` is what "
                                "Read returned (payload indices, in order)",
                         "case": c, "rerun": "VERIF_SEED=%d bin/check C06 --tier %s" % (chk.seed, chk.tier)})
    setup_fail = [c for c in ds if c.get("notes")]
    if ds and len(setup_fail) * 4 > len(ds):
        chk.broken("TestVerifC06EarlyDup: %d of %d scenarios could not be set up (%s)" % (len(setup_fail), len(ds), setup_fail[0]["notes"]), o4)
    chk.count("earlydup", len(ds), [(c["variant"], c["w"], c["resumed"], c["grouped"], json.dumps(c["plan"])) for c in ds
                                    if c.get("after") and not c.get("notes") and any(sum(p) for p in c["plan"])],
              samples=[c for c in ds if not c.get("notes")][-2:])
    chk.cov["traces_validated_against_impl"] += len(ds)
    if not proved:
        where, out = getattr(chk, "proof_error", ("?", ""))
        chk.broken("proof obligation Properties/C06.v no longer checks (%s)" % where, out) \
            if not found_input else None
    # DTLS 1.3 record layer: model Rec/Rec13.v, theorems Properties/C06rec13.v, correspondence legs
    import rec13lib
    rec13lib.run_c06(chk)
    chk.finish(
        level="proof",
        rule="unit: generated + exhaustive (len<=5 quick / 6 thorough over {0..3}, W in 1..3) arrival sequences through the replay "
             "detector; e2e: real handshakes in a synctest bubble, server writes n payloads, captured records "
             "delivered to the client in scripted order. Non-trivial = at least one arrival accepted and one rejected; "
             "distinct by (window, arrival sequence).",
        assumptions=["replay detector lives in pion/transport (outside /repo): modelled by Rec/Window.v and tied by the unit leg",
                     "authenticity of captured records (C05) - scripts here only reorder/duplicate genuine records"])
