"""C07 confidentiality: theorems Properties/C07.v (send-side labels over every interleaving: application data /
Finished / DTLS 1.3 post-ServerHello handshake / post-handshake messages are only ever emitted protected and never
at epoch 0; unprotected application data is never delivered; symbolic exporter secrecy) + whole real sessions
whose every datagram is scanned for the written payloads, the Finished verify_data and the protected DTLS 1.3
handshake bodies, every record opened in-package and compared with the model's label set, epoch-0
application_data markers injected at every stage, exporter compared with everything computable from the hellos."""
import vlib
from vlib import cbool

IMPORTS = "From DtlsV Require Import Rec.WindowRun Rec.C07Emit Rec.C07Run."


def label_term(l):
    return "(%s, %d, %d, %d, %s)" % (cbool(l["v13"]), l["ct"], l["ht"], l["epoch"], cbool(l["enc"]))


def label_monitor(l):
    """the property's own predicate on one wire record label"""
    if l["ct"] == 23 and (l["epoch"] == 0 or not l["enc"]):
        return "application_data record emitted at epoch %d, protected=%s" % (l["epoch"], l["enc"])
    if l["ct"] == 22 and l["ht"] == 20 and not l["enc"]:
        return "Finished emitted unprotected (epoch %d)" % l["epoch"]
    if l["v13"] and l["ct"] == 22 and l["ht"] not in (1, 2) and not l["enc"]:
        return "DTLS 1.3 handshake message type %d after ServerHello emitted unprotected" % l["ht"]
    if l["v13"] and l["ct"] in (23, 26) and not l["enc"]:
        return "DTLS 1.3 post-handshake record (content type %d) emitted unprotected" % l["ct"]
    return None


def replay(chk, path):
    """bin/check C07 --replay <file>: the sessions of C07 are a fixed schedule per (seed, tier); the finding is
    replayed by re-running that schedule with the seed and tier stored in the file (about a minute)."""
    import json
    with open(path) as f:
        body = json.load(f)
    chk.seed, chk.tier = body.get("seed", chk.seed), body.get("tier", chk.tier)
    rp = body.get("replay") or {}
    print("REPLAY of %s: re-running the C07 schedule with seed %s, tier %s; stored scenario: %s" % (
        path, chk.seed, chk.tier, {k: rp.get(k) for k in ("variant", "drop", "post_drop", "ku_drop", "stage", "target", "mode",
                                                       "captured", "side") if k in rp}), flush=True)
    return run(chk)


RESUME_WHEN = {"verify": "VerifyConnection time", "getcert": "GetClientCertificate time (ConnectionState() inside the callback)",
               "mid": "mid-handshake (ConnectionState() from another goroutine)", "established": "established time"}


EXPORT_POINTS = {
    "live": "ConnectionState() of the open connection, exported while open",
    "peer-closed-held": "State taken while open, exported after the PEER closed",
    "peer-closed-late": "ConnectionState() taken after the peer closed",
    "held": "State taken with ConnectionState() while open, kept across the local Close(), exported after Close",
    "late": "ConnectionState() taken from the closed Conn",
    "serialized": "MarshalBinary/UnmarshalBinary copy of the State taken while open, exported after Close",
    "serialized-after-resume": "the unmarshalled State that was given to Resume, exported after the resumed Conn was closed",
    "late-serialized": "MarshalBinary/UnmarshalBinary of the State taken from the closed Conn",
}


def export_point_text(point):
    if point in EXPORT_POINTS:
        return EXPORT_POINTS[point]
    base = {"resumed": "Resume from the serialised State taken while open",
            "reresumed-held": "Resume from the *State held across Close (no serialisation)",
            "reresumed-late": "Resume from the State taken from the closed Conn (no serialisation)",
            "reresumed-late-serialized": "Resume from the serialised State taken from the closed Conn"}
    for suffix, txt in (("-held", "; State of the resumed Conn taken while open, exported after its Close"),
                        ("-late", "; ConnectionState() of the resumed Conn after its Close"),
                        ("", "; ConnectionState() of the resumed Conn while open")):
        stem = point[:len(point) - len(suffix)] if suffix else point
        if (not suffix or point.endswith(suffix)) and stem in base:
            return base[stem] + txt
    return point


def exporter_lifecycle(chk):
    """last sentence of C07 at every point of the lifecycle where the API hands out a value (TestVerifC07Export):
    (i) every successful export equals the live one (and the peer's); (ii) no successful export equals a value the
    harness's own PRF / HKDF computes from the captured hellos and public constants."""
    out = vlib.out_path("c07x")
    rc, o = vlib.go_test(".", "^TestVerifC07Export$", {"VERIF_SEED": chk.seed, "VERIF_TIER": chk.tier, "VERIF_OUT": out},
                         tags=["c07"], timeout=1500, race=(chk.tier == "thorough"))
    rows = [r for r in vlib.read_jsonl(out) if r.get("kind") == "export"]
    vlib.cleanup(out)
    found = False
    if rc != 0:
        kind = vlib.classify_go_failure(o)
        if kind == "panic":
            found = True
            chk.finding("state.go ExportKeyingMaterial / conn.go Close", {"monitor": "panic", "leg": "exporter-lifecycle"},
                        "panic during a C07 exporter-lifecycle session", {"output": o[-4000:]})
        else:
            chk.broken("correspondence harness TestVerifC07Export no longer runs against /repo (%s)" % kind, o)
    if rc == 0 and not rows:
        chk.broken("TestVerifC07Export produced no observation", o)
    n_exp, keys = 0, []
    done_pub, done_diff = set(), set()
    for r in rows:
        if not r["done"] or r.get("err"):
            chk.broken("exporter-lifecycle session did not run (%s) [variant %s]" % (r.get("err"), r["variant"]), str(r)[:3000])
            break
        if not r.get("ref_ok"):
            chk.broken("exporter-lifecycle: the harness's own PRF / HKDF exporter keyed with the real secret does not "
                       "reproduce the live export [variant %s]: the public recomputation would prove nothing" % r["variant"],
                       str(r)[:3000])
            break
        live = {}
        for e in r["exports"]:
            if e["point"] == "live" and e["side"] == "client" and e["ok"]:
                live[(e["label"], e["len"])] = e["hex"]
        if not live:
            chk.broken("exporter-lifecycle: no export on the live client connection [variant %s]" % r["variant"], str(r)[:3000])
            break
        for e in r["exports"]:
            n_exp += 1
            keys.append((r["variant"], e["point"], e["side"], e["ok"], e["len"] if e["ok"] else e.get("err", "")[:50]))
            rp = {"variant": r["variant"], "point": e["point"], "side": e["side"], "label": e["label"], "length": e["len"],
                  "client_random": r.get("cr"), "server_random": r.get("sr"), "cipher_suite": r.get("suite"),
                  "exported": e.get("hex"), "exported_live": live.get((e["label"], e["len"])),
                  "states": [x for x in (r.get("state_log") or []) if x.startswith(e["point"] + "/" + e["side"])],
                  "how": "perfect network; handshake of `variant`; one payload each way; ConnectionState() on both sides and "
                         "ExportKeyingMaterial(label, nil, length) (= exported_live); client.Close(), server.Close(); then the "
                         "State is obtained as `point` says (%s) and ExportKeyingMaterial(label, nil, length) is called "
                         "again; client_random/server_random are bytes 2..34 of the ClientHello/ServerHello bodies on the "
                         "wire" % export_point_text(e["point"])}
            if (e.get("err") or "").startswith("PANIC"):
                found = True
                chk.finding("state.go ExportKeyingMaterial", {"monitor": "panic", "leg": "exporter-lifecycle", "v13": r["v13"]},
                            "ExportKeyingMaterial panicked (%s) [variant %s, %s, %s side]" % (
                                e["err"], r["variant"], e["point"], e["side"]), rp)
                continue
            if not e["ok"]:
                continue
            cls = e["point"]
            if e.get("public"):
                if (r["v13"],) in done_pub:
                    continue
                done_pub.add((r["v13"],))
                found = True
                rp["formula"] = e["public"]
                chk.finding("state.go ExportKeyingMaterial / generateState / conn.go Close (secret shared with or taken from "
                            "the connection after its lifetime)",
                            {"monitor": "exporter computable from the cleartext handshake", "leg": "exporter-lifecycle",
                             "v13": r["v13"], "point": cls},
                            "ExportKeyingMaterial(%r, nil, %d) succeeded and returned %s..., which equals %s computed by the "
                            "harness's own implementation from the captured hello randoms alone (the live connection exported "
                            "%s...) [variant %s, %s side, point: %s]" % (
                                e["label"], e["len"], e["hex"][:24], e["public"], (rp["exported_live"] or "?")[:24],
                                r["variant"], e["side"], export_point_text(e["point"])), rp)
            elif e["hex"] != live.get((e["label"], e["len"])):
                if (r["v13"],) in done_diff or (r["v13"],) in done_pub:
                    continue
                done_diff.add((r["v13"],))
                found = True
                chk.finding("state.go ExportKeyingMaterial / generateState (State of one session)",
                            {"monitor": "export differs from the live connection's", "leg": "exporter-lifecycle",
                             "v13": r["v13"], "point": "live/server" if e["point"] == "live" else cls},
                            "ExportKeyingMaterial(%r, nil, %d) succeeded with %s... but the live client connection of the same "
                            "session exported %s... [variant %s, %s side, point: %s]" % (
                                e["label"], e["len"], e["hex"][:24], (rp["exported_live"] or "?")[:24], r["variant"],
                                e["side"], export_point_text(e["point"])), rp)
    chk.count("exporter-lifecycle", n_exp, keys,
              samples=[{"variant": r["variant"], "points": r["points"][:6], "first": (r["exports"] or [None])[0]} for r in rows[:2]])
    chk.leg_info("exporter-lifecycle", sessions=len(rows), exports=n_exp,
                 succeeded=sum(1 for r in rows for e in r["exports"] if e["ok"]),
                 points=sorted({e["point"] for r in rows for e in r["exports"]}),
                 refused=sorted({(r["v13"], x.split("/")[0] + ": " + x.split(": ", 1)[-1][:70]) for r in rows for x in r.get("refused") or []}),
                 public_candidates_per_export=max([r.get("n_public", 0) for r in rows] or [0]),
                 reference_selftest=sorted({r.get("ref_ok") or "FAILED" for r in rows}))
    chk.cov["traces_validated_against_impl"] = chk.cov.get("traces_validated_against_impl", 0) + len(rows)
    return found


def run(chk):
    proved = chk.prove()
    out = vlib.out_path("c07")
    rc, o = vlib.go_test(".", "^TestVerifC07$", {"VERIF_SEED": chk.seed, "VERIF_TIER": chk.tier, "VERIF_OUT": out},
                         tags=["c07"], timeout=3000, race=(chk.tier == "thorough"))
    rows = vlib.read_jsonl(out)
    vlib.cleanup(out)
    found = False
    if rc != 0:
        kind = vlib.classify_go_failure(o)
        if kind == "panic":
            found = True
            chk.finding("conn.go", {"monitor": "panic"}, "panic during a C07 session", {"output": o[-4000:]})
        else:
            chk.broken("correspondence harness TestVerifC07 no longer runs against /repo (%s)" % kind, o)
    sess = [r for r in rows if r["kind"] == "session"]
    inj = [r for r in rows if r["kind"] == "inject"]
    psk0 = [r for r in rows if r["kind"] == "psk0"]
    resumed = [r for r in rows if r["kind"] == "resume"]

    # ---- empty pre-shared key: must be refused; if accepted the exporter is computable from the hellos
    for r in psk0:
        if r["done"]:
            found = True
            chk.finding("internal/flight/flight12 flight4Parse / flight3 handleServerKeyExchange (PSK callback result)",
                        {"monitor": "handshake completed with an empty pre-shared key", "mode": r["mode"].split("+")[0]},
                        "the PSK callback returned an EMPTY key (%s) and the handshake completed: pre_master_secret is 00000000, "
                        "a peer knowing no secret is accepted%s" % (
                            r["mode"], "; the exported keying material equals %s" % r["exp_public"] if r.get("exp_public") else ""),
                        {"mode": r["mode"], "exporter_client": r.get("exp_c"), "exporter_server": r.get("exp_s"),
                         "formula": r.get("exp_public"),
                         "how": "TLS_PSK_WITH_AES_128_GCM_SHA256, PSK callbacks return []byte{} as said in `mode` (ems = extended "
                                "master secret on), handshake over a perfect network; label 'EXPERIMENTAL verif c07', 32 bytes"})
            break

    # ---- resumed states: application data never at epoch 0 / in clear
    for r in resumed:
        if r.get("epoch0") or r.get("leaks"):
            found = True
            chk.finding("state.go generateInternalState / resume.go (state captured before the keys were switched on)",
                        {"monitor": "resumed connection emits application data unprotected",
                         "captured": "".join(ch for ch in r["mode"] if not ch.isdigit())},
                        "a State captured at %s (%s side%s) was accepted by Resume and the first Write emitted %d "
                        "application_data record(s) at epoch 0%s [variant %s]" % (
                            RESUME_WHEN.get(r["mode"].split("-")[0].rstrip("0123456789"), r["mode"]), r["side"],
                            "; handed to Resume as the *State the library returned, no serialisation round trip: " + r.get("st_note", "")
                            if r["mode"].endswith("-direct") else "; MarshalBinary / UnmarshalBinary round trip",
                            r.get("epoch0", 0), " with the payload in clear" if r.get("leaks") else "", r["variant"]),
                        {"variant": r["variant"], "captured": r["mode"], "side": r["side"], "labels": r["labels"],
                         "state": r.get("st_note"), "leak": (r.get("leaks") or [None])[0],
                         "how": "handshake of `variant`; the State is taken as `captured` says (verify = argument of the "
                                "VerifyConnection callback, getcert = ConnectionState() inside GetClientCertificate, midK = "
                                "ConnectionState() by another goroutine before handshake datagram #K is delivered, established = "
                                "ConnectionState() after the handshake; `-direct` = the *State goes straight to Resume, otherwise "
                                "MarshalBinary + UnmarshalBinary first); Resume on a fresh socket; Write one payload; look at the wire"})
            break

    # ---- monitors on the implementation trace
    seen_leak = set()
    for r in sess:
        for lk in (r["leaks"] or [])[:1]:
            lkey = (lk["what"].split(":")[0], r["v13"])
            if lkey in seen_leak:
                continue   # one finding per kind of secret; the others are the same defect in other sessions
            seen_leak.add(lkey)
            found = True
            chk.finding("conn.go processPacket / processHandshakePacket (record emitted without protection)",
                        {"monitor": "secret bytes in clear on the wire", "what": lk["what"].split(":")[0],
                         "v13": r["v13"]},
                        "%s bytes %s found in clear in datagram #%d written by the %s [variant %s, drop %d, post-handshake "
                        "drop %d, KeyUpdate drop %d, early-writes %s]" % (
                            lk["what"], lk["sec"], lk["idx"], lk["from"], r["variant"], r["drop"], r.get("post_drop", -1),
                            r.get("ku_drop", -1), r["early"]),
                        {"variant": r["variant"], "drop": r["drop"], "post_drop": r.get("post_drop", -1),
                         "ku_drop": r.get("ku_drop", -1), "early": r["early"], "leak": lk,
                         "how": "run the session of `variant` dropping handshake datagram `drop` / the post_drop-th datagram after "
                                "the server's establishment / the ku_drop-th after the first UpdateKeys call; datagram `leak.idx` "
                                "contains `leak.sec` in clear"})
    seen_lab = set()
    for r in sess:
        for l in r["labels"] or []:
            m = label_monitor(l)
            if m and m not in seen_lab:
                seen_lab.add(m)
                found = True
                chk.finding("conn.go Write / writeApplicationData / flight generators",
                            {"monitor": "record label", "ct": l["ct"], "ht": l["ht"], "epoch": l["epoch"], "enc": l["enc"],
                             "v13": l["v13"]},
                            "%s [variant %s, handshake drop %d, post-handshake drop %d, KeyUpdate drop %d, sender %s]" % (
                                m, r["variant"], r["drop"], r.get("post_drop", -1), r.get("ku_drop", -1), l["from"]),
                            {"variant": r["variant"], "drop": r["drop"], "post_drop": r.get("post_drop", -1),
                             "ku_drop": r.get("ku_drop", -1), "early": r["early"], "label": l,
                             "how": "session of `variant`; drop the post_drop-th datagram after the server's establishment / "
                                    "the ku_drop-th after the first UpdateKeys call; let the retransmission timer fire; a "
                                    "record with `label` is on the wire"})
    for r in sess:
        if r["early_ret"]:
            found = True
            chk.finding("conn.go Write (c.Handshake() gate)", {"monitor": "Write returned before establishment"},
                        "%d of %d Writes issued before/during the handshake returned while the handshake was not "
                        "established [variant %s]" % (r["early_ret"], r["early_w"], r["variant"]), {"session": r})
            break
    for r in sess:
        if r["unknown"]:
            found = True
            chk.finding("conn.go receive path", {"monitor": "Read returned a payload nobody wrote"},
                        "%d unknown payloads [variant %s]" % (r["unknown"], r["variant"]), {"session": r})
            break
    for r in inj:
        if r.get("queued"):
            found = True
            chk.finding("conn.go handleApplicationDataRecord", {"monitor": "epoch-0 application data accepted into the Read queue",
                                                                  "v13": r["v13"]},
                        "an unprotected (epoch 0) application_data record delivered while the handshake was running was put "
                        "into the Read queue (Read returned it afterwards: %s) [variant %s, before handshake datagram #%d, "
                        "target %s]" % (r["marker_read"], r["variant"], r["stage"], r["target"]),
                        {"variant": r["variant"], "stage": r["stage"], "target": r["target"], "hex": r["marker_hex"],
                         "how": "deliver `hex` to `target` before handshake datagram #stage; complete the handshake; Read on `target`"})
            break
    for r in inj:
        eff = (r.get("effect") or "").strip()
        if eff or (r["done"] and not r.get("after_ok")):
            found = True
            chk.finding("conn.go handleApplicationDataRecord (epoch 0)",
                        {"monitor": "unprotected application data record has an effect", "v13": r["v13"],
                         "effect": eff or "no service afterwards"},
                        "an unprotected (epoch 0) application_data record must be refused silently: here it %s [variant %s, %s, "
                        "target %s]" % (
                            {"emit": "drew an alert", "emit hs-abort": "drew an alert and ended the handshake in progress",
                             "hs-abort": "ended the handshake in progress"}.get(eff, "stopped later genuine payloads from "
                                                                                     "being delivered"),
                            r["variant"], "established" if r["stage"] < 0 else "before handshake datagram #%d" % r["stage"],
                            r["target"]),
                        {"variant": r["variant"], "stage": r["stage"], "target": r["target"], "hex": r["marker_hex"],
                         "how": "deliver `hex` to `target` before handshake datagram #stage (-1: after the handshake)"})
            break
    for r in inj:
        if r["marker_read"]:
            found = True
            chk.finding("conn.go handleApplicationDataRecord", {"monitor": "epoch-0 application data delivered",
                                                                  "v13": r["v13"]},
                        "Read returned the marker carried by an unprotected (epoch 0) application_data record "
                        "[variant %s, stage %d, target %s]" % (r["variant"], r["stage"], r["target"]),
                        {"variant": r["variant"], "stage": r["stage"], "target": r["target"], "hex": r["marker_hex"],
                         "how": "deliver `hex` to `target` before handshake datagram #stage (-1: after the handshake)"})
            break
    for r in sess:
        if not r["done"]:
            continue
        if r.get("exp_err"):
            chk.broken("exporter leg of TestVerifC07 could not run (%s) [variant %s]" % (r["exp_err"], r["variant"]),
                       str(r)[:3000])
            break
        if r["exp_c"] != r["exp_s"]:
            found = True
            chk.finding("state.go ExportKeyingMaterial", {"monitor": "exporters disagree", "v13": r["v13"]},
                        "client and server export different keying material [variant %s]" % r["variant"],
                        {"variant": r["variant"], "drop": r["drop"], "client": r["exp_c"], "server": r["exp_s"]})
            break
        if r.get("exp_public"):
            found = True
            chk.finding("state.go ExportKeyingMaterial", {"monitor": "exporter computable from the cleartext handshake",
                                                           "v13": r["v13"]},
                        "the exported keying material equals %s computed from the captured hello randoms alone "
                        "[variant %s]" % (r["exp_public"], r["variant"]),
                        {"variant": r["variant"], "drop": r["drop"], "exporter": r["exp_c"], "formula": r["exp_public"],
                         "how": "label 'EXPERIMENTAL verif c07', length 32; client_random / server_random = bytes 2..34 of "
                                "the last ClientHello / ServerHello bodies on the wire"})
            break
    found = exporter_lifecycle(chk) or found
    unopened = sum(r["unopened"] for r in sess)
    if unopened:
        bad = [r for r in sess if r["unopened"]][0]
        chk.broken("TestVerifC07 could not open %d records of its own sessions with the endpoints' keys [variant %s]" % (
            unopened, bad["variant"]), str(bad)[:3000])

    # ---- model / implementation comparison: every observed record label is a label of Rec/C07Emit.v
    ok_model, mo = vlib.coq_make(["theories/Rec/C07Run.vo"])
    labels = {}
    for r in sess:
        for l in r["labels"] or []:
            if l["ct"] < 0:
                continue
            labels.setdefault(label_term(l), (r, l))
    if not ok_model:
        chk.broken("model Rec/C07Run.v no longer compiles", mo)
    elif labels:
        terms = sorted(labels)
        bad, err = vlib.coq_mismatches("c07", IMPORTS, "c07_case", "c07_ok", terms, shard=400)
        if bad is None:
            chk.broken("correspondence evaluation failed in coqc", err)
        else:
            for i in bad[:3]:
                r, l = labels[terms[i]]
                m = label_monitor(l)
                chk.finding("conn.go send path / flight generators",
                            {"monitor": "model-mismatch", "ct": l["ct"], "ht": l["ht"], "epoch": l["epoch"],
                             "enc": l["enc"], "v13": l["v13"]},
                            "a record (content type %d, handshake type %d, epoch %d, protected=%s) was observed on the wire "
                            "that Rec/C07Emit.v never emits [variant %s, drop %d]" % (
                                l["ct"], l["ht"], l["epoch"], l["enc"], r["variant"], r["drop"]),
                            {"variant": r["variant"], "drop": r["drop"], "label": l, "term": terms[i],
                             "correspondence": "Rec.C07Run.c07_ok"},
                            no_input=(m is None and not found))

    # ---- accounting
    n_rec = sum(r["records"] for r in sess)
    keys = []
    for r in sess:
        for l in r["labels"] or []:
            keys.append((r["variant"], r["early"], r.get("post_drop", -1), r.get("ku_drop", -1), l["from"], l["ct"], l["ht"],
                         l["epoch"], l["enc"]))
    chk.count("wire-scan", n_rec, keys, samples=[{"variant": r["variant"], "drop": r["drop"], "labels": (r["labels"] or [])[:4]}
                                                 for r in sess[:2]])
    chk.count("epoch0-injection", len(inj), [(r["variant"], r["stage"], r["target"]) for r in inj],
              samples=[{k: r.get(k) for k in ("variant", "stage", "target", "marker_hex", "marker_read", "effect")} for r in inj[:2]])
    chk.count("empty-psk", len(psk0), [(r["mode"], r["done"]) for r in psk0],
              samples=[{k: r.get(k) for k in ("mode", "done", "err")} for r in psk0[:2]])
    chk.count("resumed-states", len(resumed), [(r["variant"], r["mode"], r["side"], bool(r.get("refused"))) for r in resumed],
              samples=[{k: r.get(k) for k in ("variant", "mode", "side", "refused", "labels")} for r in resumed[:3]])
    chk.leg_info("resumed-states", refused=sum(1 for r in resumed if r.get("refused")),
                 resumed=sum(1 for r in resumed if not r.get("refused")),
                 refusals=sorted({(r["mode"], (r.get("refused") or "")[:60]) for r in resumed if r.get("refused")}))
    chk.leg_info("empty-psk", completed=sum(1 for r in psk0 if r["done"]), results=sorted({(r["mode"], r.get("err", "")[:90]) for r in psk0}))
    chk.cov["traces_validated_against_impl"] = (chk.cov.get("traces_validated_against_impl", 0) + len(sess) + len(inj)
                                                 + len(psk0) + len(resumed))
    chk.leg_info("wire-scan", sessions=len(sess), completed=sum(1 for r in sess if r["done"]),
                 not_completed=[(r["variant"], r["drop"]) for r in sess if not r["done"]],
                 datagrams=sum(r["datagrams"] for r in sess), records=n_rec,
                 secret_windows_scanned=sum(r["secrets"] for r in sess), payloads_written=sum(r["payloads"] for r in sess),
                 payloads_delivered=sum(r["delivered"] for r in sess),
                 early_writes=sum(r["early_w"] for r in sess), early_writes_returned_early=sum(r["early_ret"] for r in sess),
                 key_updates=sum(r["ku"] for r in sess), distinct_labels=len(labels),
                 exporter_pairs_compared=sum(1 for r in sess if r.get("exp_c")),
                 variants=sorted({r["variant"] for r in sess}))
    chk.leg_info("epoch0-injection", markers_read=sum(1 for r in inj if r["marker_read"]),
                 aborted_handshakes=sum(1 for r in inj if "hs-abort" in (r.get("effect") or "")))
    if not proved and not found:
        where, pout = getattr(chk, "proof_error", ("?", ""))
        chk.broken("proof obligation Properties/C07.v no longer checks (%s)" % where, pout)
    chk.finish(
        level="proof",
        rule="per variant (13 DTLS 1.2 suite/auth/CID configurations, 3 DTLS 1.3 suites): one virtual-time session per "
             "dropped handshake datagram (-1..7; every 4th with a small MTU) with concurrent writers, KeyUpdate with and "
             "without peer request (1.3), exporter, Close; two real-time sessions with Writes issued before and during the "
             "handshake; one injection session per stage with an epoch-0 application_data marker (plain, tls12_cid typed, "
             "DTLS 1.0 version). Every datagram scanned for 16..24-byte windows of every payload / Finished verify_data / "
             "protected 1.3 handshake body; every record opened with the endpoints' keys and labelled. Non-trivial = every "
             "record; distinct by (variant, early, sender, content type, handshake type, epoch, protected).",
        assumptions=["a record labelled protected is sealed under the write keys of its epoch and reveals nothing of its "
                     "content (AEAD / CBC-HMAC secrecy; the harness checks the actual bytes for the listed secrets)",
                     "Dolev-Yao: PRF / HKDF / hash are free constructors; the premises 'master secret / exporter master "
                     "secret not derivable' are the key-exchange secrecy assumptions (C03/C04 cover authentication)",
                     "send-side model: state {version, established, closed, local epoch, current flight, activated}; "
                     "resumed (imported) states are C19's subject"])
