"""C08 robustness: theorems Properties/C08.v (undecodable / forged input is inert in the receive-path model,
queue and reassembly bounds, garbage does not change what genuine traffic does) + THE DECIDER FOR "NO PANIC":
hostile datagram streams (raw random, structure-aware mutations of captured genuine datagrams at every
handshake step, correctly protected but malformed content built with the session keys) against real client and
server endpoints for every suite family / version / connection-ID configuration.

A panic inside an endpoint goroutine kills the test binary: the harness journals the id of every case before
it starts; the driver re-runs the crashed case alone with a per-datagram trace to name the datagram, and
restarts the shard after it."""
import json
import os
import re
from concurrent.futures import ThreadPoolExecutor

import vlib
from vlib import cbool, clist

IMPORTS = "From DtlsV Require Import Lib.Bytes Rec.WindowRun Rec.Recv Rec.C08Robust Rec.C08Run."
PKG_CS = "./pkg/crypto/ciphersuite"

# ---- explicit list of inputs that may legitimately stop an endpoint (kept minimal) ----------------------
# Only datagrams of the DROP classes (cannot be parsed as DTLS records / protected but not authentic) are
# required to be without effect.  Everything else is only required not to panic / wedge / bloat:
EXCEPTIONS = [
    "X1 unprotected alert record that decodes, level fatal or close_notify: protocol-defined termination "
    "(DTLS 1.2 alerts are unauthenticated until the epoch changes) - ONLY while the handshake is running: once "
    "established every unprotected alert must be inert; a NON-fatal one must be inert in every phase",
    "X2 unprotected handshake fragments that decode: the handshake is unauthenticated until Finished, forged "
    "flight content may derail or abort a handshake in progress (never panic / never wedge an ESTABLISHED one)",
    "X3 unprotected return_routability_check records that decode: unexpected_message as coded (pinned by the suite); an "
    "unprotected change_cipher_spec while the handshake is running (part of the unauthenticated handshake). "
    "Unprotected application_data and ACK records, and change_cipher_spec once established or claiming an epoch, "
    "must be inert",
    "X4 records that authenticate under the session keys (class auth): a malformed one is answered with a "
    "fatal alert / Read error, an authenticated fatal alert or close_notify closes",
]

# ON RECORD, deliberately NOT monitored (observation, 2026-09-26): every unprotected (epoch 0) record that DECODES -
# an alert, a handshake fragment, a change_cipher_spec - has its record sequence number committed to the epoch-0
# anti-replay window (markPacketAsValid in handleRecordContent / bufferHandshakeRecord).  One such datagram
# carrying a FAR-FUTURE record number, e.g. the warning alert 15fefd0000 000000300003 0002 0129 during a handshake,
# slides the window past everything the genuine peer will send at epoch 0: its later handshake records are
# rejected as too old and the handshake in progress never completes.  This gives an unauthenticated sender
# nothing beyond exceptions X1/X2 (a forged fatal alert or forged flight content ends an unauthenticated
# handshake anyway), so the `warn` generator keeps its record numbers just ahead of the genuine sender's, inside
# the window (28..43), and no monitor is attached.  Established connections are not affected (epoch >= 1 windows
# only move on authenticated records: C05_forged_keeps_window, generator `forged`).

SHARDS = 6


def func_name(line):
    """'github.com/pion/dtls/v3/pkg/x.(*T).M(0x1, {...})' -> 'x.(*T).M'"""
    f = line.strip()
    for i, ch in enumerate(f):
        if ch == "(" and i > 0 and f[i - 1] != ".":
            f = f[:i]
            break
    return f.split("/")[-1]


def top_repo_frame(out):
    """first /repo frame of the panicking goroutine: 'file.go:line function'"""
    m = re.search(r"panic: (.*)", out)
    msg = m.group(1).strip() if m else "?"
    msg = re.sub(r"\[recovered.*", "", msg).strip()
    site, func = "?", "?"
    lines = out.splitlines()
    for i, l in enumerate(lines):
        mm = re.match(r"\s+/repo/([^\s:]+):(\d+)", l)
        if mm and i > 0 and "zz_verif" not in mm.group(1):
            site = "%s:%s" % (mm.group(1), mm.group(2))
            func = func_name(lines[i - 1])
            break
    return msg, site, func


def is_crash(out):
    return ("panic:" in out) or ("deadlock:" in out) or ("fatal error:" in out)


def norm_panic(msg):
    return re.sub(r"-?\d+", "N", msg)


def livelock_site(out):
    """for a watchdog crash: the innermost protocol frame (not conn.go's write path) of a running goroutine"""
    best = None
    if "processPostHandshakeMessages" in out:
        return "internal/handshake/post_handshake.go", "dtlshandshake.(*postHandshake).processPostHandshakeMessages"
    for blk in re.split(r"\n\n(?=goroutine )", out):
        head = blk.split("\n", 1)[0]
        if "synctest bubble" not in head or "(durable)" in head:
            continue
        lines = blk.splitlines()
        frames = []
        for i, l in enumerate(lines):
            mm = re.match(r"\s+/repo/([^\s:]+):(\d+)", l)
            if mm and "zz_verif" not in mm.group(1) and i > 0:
                frames.append((mm.group(1), func_name(lines[i - 1])))
        if any("processPostHandshakeMessages" in f[1] for f in frames):
            return "internal/handshake/post_handshake.go", "dtlshandshake.(*postHandshake).processPostHandshakeMessages"
        for f in frames:
            if f[0] != "conn.go":
                best = best or f
    return best or ("?", "?")


AVOID = set()   # generator names of inputs that crashed: skipped afterwards so that the rest of a case is reached


def run_shard(chk, shard, legs_rows, crashes, problems):
    frm = 0
    for attempt in range(60):
        out = vlib.out_path("c08.%d.%d" % (shard, attempt))
        env = {"VERIF_SEED": chk.seed, "VERIF_TIER": chk.tier, "VERIF_OUT": out, "VERIF_C08_FROM": frm,
               "VERIF_C08_SHARD": shard, "VERIF_C08_SHARDS": SHARDS, "VERIF_C08_AVOID": ",".join(sorted(AVOID))}
        rc, o = vlib.go_test(".", "^TestVerifC08$", env, tags=["c08"], timeout=(3000 if chk.tier == "thorough" else 600),
                             race=(chk.tier == "thorough" and shard == 0))
        rows = vlib.read_jsonl(out)
        vlib.cleanup(out)
        legs_rows += [r for r in rows if r["kind"] in ("case", "mem")]
        if rc == 0:
            return
        if vlib.classify_go_failure(o) == "build":
            problems.append(("build", o))
            return
        journal = [r for r in rows if r["kind"] == "journal"]
        done = {r["id"] for r in rows if r["kind"] == "case"}
        pending = [j for j in journal if j["id"] not in done]
        if not is_crash(o) or not pending:
            problems.append(("fail", o))
            return
        j = pending[-1]
        c = replay_crash(chk, j, o)
        crashes.append(c)
        g = (c.get("datagram") or {}).get("gen", "")
        if g.startswith("prot:") or g.startswith("corpus:") or g == "mut:cbc-splice":
            AVOID.add(g)
            frm = j["id"]      # same case again, without that input
        else:
            frm = j["id"] + 1
    problems.append(("fail", "more than 60 crashing cases in shard %d" % shard))


def replay_crash(chk, j, first_out):
    """re-run the single case with a per-datagram trace: the last traced datagram is the culprit"""
    out = vlib.out_path("c08.replay.%d" % j["id"])
    env = {"VERIF_SEED": chk.seed, "VERIF_TIER": chk.tier, "VERIF_OUT": out, "VERIF_C08_ONLY": j["id"],
           "VERIF_C08_TRACE": 1, "VERIF_C08_AVOID": ",".join(sorted(AVOID))}
    rc, o = vlib.go_test(".", "^TestVerifC08$", env, tags=["c08"], timeout=600)
    rows = vlib.read_jsonl(out)
    vlib.cleanup(out)
    traces = [r for r in rows if r["kind"] == "trace"]
    reproduced = rc != 0 and is_crash(o)
    src = o if reproduced else first_out
    msg, site, func = top_repo_frame(src)
    kind = "panic"
    if "c08 watchdog: livelock" in src:
        kind = "livelock"
        site, func = livelock_site(src)
        if func == "?":
            site, func = livelock_site(first_out + "\n" + o)
        msg = "endpoint goroutine spins: more than 40000 datagrams written, never blocks again"
    elif "c08 watchdog: memory" in src:
        kind = "memory"
        site, func = livelock_site(src)
        msg = "heap above 3 GB"
    elif "deadlock:" in src and "panic: runtime error" not in src:
        kind = "deadlock"
    last = traces[-1] if (traces and reproduced) else None
    crash = {"case": j, "reproduced": reproduced, "panic": msg, "site": site, "func": func, "kind": kind,
             "deadlock": kind == "deadlock",
             "datagram": last, "n_before": len(traces), "output": src[-2500:]}
    # minimise: the culprit alone, at the same point of the same session (context-free for cleartext input)
    if kind == "panic" and last is not None and last.get("note") not in ("auth",) and \
            not last["gen"].startswith("mut:cbc-splice"):
        out2 = vlib.out_path("c08.min.%d" % j["id"])
        spec = "%s:%d:%s:%s" % (j["variant"], j["stage"], last["target"], last["hex"])
        rc2, o2 = vlib.go_test(".", "^TestVerifC08Replay$", {"VERIF_C08_REPLAY": spec, "VERIF_OUT": out2},
                               tags=["c08"], timeout=300)
        vlib.cleanup(out2)
        crash["single_datagram_replay"] = {"spec": spec, "crashes": rc2 != 0 and is_crash(o2)}
    return crash


# ----------------------------------------------------------------------------- monitors

def obs_violation(o):
    """the property's own predicate on one injected datagram: drop classes must have no effect"""
    cls = o["class"]
    if cls in ("clear", "auth", "slot", "pinlen"):
        return None   # slot / pinlen: judged by what happens to the handshake (their own monitors)
    e = o["eff"]
    if not e:
        return None
    if cls == "hsfar":
        # a well-formed fragment of a far-future message is a handshake datagram: the endpoint may answer it with its
        # current flight (HelloVerifyRequest again, ...); anything else (error, alert, close, delivery) is an effect
        e = {k: v for k, v in e.items() if k != "emit"}
        if not e:
            return None
    if (cls.startswith("alert:") or cls == "ccs0") and not o["est"]:
        return None  # exception X1: an unprotected fatal alert / close_notify ends a handshake in progress; an
        #              unprotected change_cipher_spec is part of the (unauthenticated) handshake while it runs
    what = []
    if e.get("hs_err"):
        what.append("aborts the handshake in progress (%s)" % e["hs_err"].replace("handshake failed: ", ""))
    if e.get("read_err"):
        what.append("surfaces as a Read error (%s)" % e["read_err"])
    if e.get("alert"):
        what.append("is answered with an alert (%s)" % e["alert"])
    elif e.get("emit"):
        what.append("makes the endpoint transmit")
    if e.get("closed"):
        what.append("closes the connection")
    if e.get("deliv"):
        what.append("is delivered to Read")
    return "; ".join(what) if what else None


def drop_kind(cls):
    if cls == "warn":
        return "unprotected warning alert (not fatal, not close_notify)"
    if cls.startswith("alert:"):
        return "unprotected fatal alert / close_notify"
    if cls == "app0":
        return "unprotected application_data record"
    if cls == "rrc0":
        return "unprotected return_routability_check record"
    if cls == "hsfar":
        return "unprotected fragment of a far-future handshake message"
    if cls == "ccs0":
        return "unprotected change_cipher_spec record"
    if cls == "undec:ccs-epoch":
        return "change_cipher_spec-typed record claiming a protected epoch (taken as cleartext, never authenticated)"
    if cls.startswith("unsplit"):
        return "datagram that does not split into DTLS records"
    if cls.startswith("undec"):
        return "unprotected record whose content does not decode"
    if cls == "forged":
        return "protected record that does not authenticate"
    return cls


def site_of(cls):
    if cls == "warn":
        return "conn.go classifyReadLoopError / deliverReadError (non-fatal alert)"
    if cls.startswith("alert:"):
        return "conn.go handleRecordContent (alert record of epoch 0 on an established connection)"
    if cls == "app0":
        return "conn.go handleApplicationDataRecord (epoch 0)"
    if cls == "rrc0":
        return "connection_id.go returnRoutabilityConn.HandleRecord (unprotected record: unexpected_message alert + error)"
    if cls == "hsfar":
        return "conn.go bufferHandshakeRecord / legacyReplayMarker"
    if cls == "ccs0":
        return "conn.go handleChangeCipherSpecRecord"
    if cls == "undec:ccs-epoch":
        return ("pkg/crypto/ciphersuite *.Decrypt (change_cipher_spec records returned unchanged) / conn.go "
                "handleIncomingPacket (RecordLayer.Unmarshal error at epoch >= 1 -> fatal alert + error)")
    if cls.startswith("unsplit"):
        return "conn.go readAndProcessDatagram/unpackDatagram + classifyReadLoopError"
    if cls.startswith("undec"):
        return "conn.go handleIncomingPacket (RecordLayer.Unmarshal error -> fatal alert + error)"
    return "conn.go receive path"


def model_term(o):
    """(established, class, observed effect) for Rec.C08Run.c08_ok"""
    cls = o["class"]
    k = {"empty": "KEmpty", "badhdr": "KBadHeader", "forged": "KForged", "clear": None, "auth": None,
         "warn": "KWarnAlert" if o.get("fresh") else "KUndecStale",
         "alert:fatal": "KFatalAlert" if o.get("fresh") else "KUndecStale",
         "alert:close": "KCloseNotify" if o.get("fresh") else "KUndecStale",
         "app0": "KClearApp", "ccs0": "KClearCcs" if o["est"] else None,
         "hsfar": None, "pinlen": None, "slot": None, "rrc0": "KClearRrc"}.get(cls, "?")
    if k is None or o.get("nrec", 0) > 1:
        return None  # only single-record datagrams (and datagrams that do not split) have a one-step prediction
    if cls.startswith("unsplit:"):
        k = "KUnsplitLen" if cls == "unsplit:len" else "KUnsplitOther"
    elif cls == "undec:epoch13":
        k = "KForged"
    elif cls == "undec:ccs-epoch":
        k = "KCcsEpoch"  # C08_ccs_claiming_epoch_no_output: no output whatever epoch it claims, whatever its body
    elif cls.startswith("undec:"):
        k = "KUndecHs" if cls == "undec:hs" else ("KUndecContent" if o.get("fresh") else "KUndecStale")
    e = o["eff"]
    alert = e.get("alert", "")
    return "(%s, %s, %s, (%s, %s, %s, %s))" % (
        cbool(o.get("neg", False)), cbool(o["est"]), k, cbool(bool(e.get("hs_err")) or bool(e.get("read_err"))),
        cbool(alert != ""), cbool(bool(e.get("closed"))), cbool(bool(e.get("deliv"))))


# a lost datagram is repaired by a retransmission timer: armed when the flight was sent, it fires one flight interval
# after the loss at the latest (zero transit time in the lab), the second time - with backoff - two intervals later.
# LOSSPER_BOUND intervals after the loss the handshake has to be complete, whatever harmless records arrive meanwhile.
LOSSPER_BOUND = 2.5


def lossper_late(c):
    if c["gen"] != "lossper" or c.get("loss_ms", -1) < 0:
        return None
    if not c["done"] or c.get("done_ms", -1) < 0:
        return "never completes (client=%s server=%s)" % (c["cerr"], c["serr"])
    took = c["done_ms"] - c["loss_ms"]
    if took > LOSSPER_BOUND * c["ival_ms"]:
        return "completes %d ms after the loss (flight interval %d ms)" % (took, c["ival_ms"])
    return None


def replay(chk, path):
    """bin/check C08 --replay <file>: re-run the single session of a stored finding (same seed and tier), with a
    per-datagram trace, and say whether it still fails.  Unit-level findings (no session) re-run the whole check."""
    import json
    with open(path) as f:
        body = json.load(f)
    rp = body.get("replay") or {}
    case = rp.get("case") or {}
    cid = case.get("id", rp.get("case_id"))
    if cid is None or cid < 0:
        vlib.log("replay file names no session (unit-level or machinery finding): running the whole check")
        chk.seed, chk.tier = body.get("seed", chk.seed), body.get("tier", chk.tier)
        return run(chk)
    seed, tier = body.get("seed", chk.seed), body.get("tier", chk.tier)
    out = vlib.out_path("c08.replay.%d" % cid)
    rc, o = vlib.go_test(".", "^TestVerifC08$", {"VERIF_SEED": seed, "VERIF_TIER": tier, "VERIF_OUT": out,
                                                  "VERIF_C08_ONLY": cid, "VERIF_C08_TRACE": 1}, tags=["c08"], timeout=600)
    rows = vlib.read_jsonl(out)
    vlib.cleanup(out)
    traces = [r for r in rows if r["kind"] == "trace"]
    cs = [r for r in rows if r["kind"] == "case"]
    why = []
    if rc != 0 and is_crash(o):
        msg, site, func = top_repo_frame(o)
        why.append("the test binary crashed: %s" % ("livelock (watchdog)" if "c08 watchdog" in o else msg))
    elif rc != 0:
        chk.broken("replay run of case %d failed (%s)" % (cid, vlib.classify_go_failure(o)), o)
    for c in cs:
        for ob in c["obs"] or []:
            v = obs_violation(ob)
            if v:
                why.append("a %s datagram %s" % (ob["class"], v))
        if c["inj"] and not (c["done"] and c["echo_cs"] and c["echo_sc"]):
            why.append("the session does not complete / echo afterwards (client=%s server=%s echo_cs=%s echo_sc=%s)" % (
                c["cerr"], c["serr"], c["echo_cs"], c["echo_sc"]))
        if c.get("inert") and c["done"] and (c["first_c"] != "payload" or c["first_s"] != "payload"):
            why.append("first Read: client=%s server=%s" % (c["first_c"], c["first_s"]))
        if c["qmax"] > 100 or c["fb_count"] > 1000 or c["fb_size"] >= 2000000:
            why.append("limits: queue %d fragments %d bytes %d" % (c["qmax"], c["fb_count"], c["fb_size"]))
        if c["gen"].startswith("flood-cache") and c["cache1"] - c["cache0"] > 50:
            why.append("handshake cache grew by %d entries" % (c["cache1"] - c["cache0"]))
        if lossper_late(c):
            why.append("after the loss of handshake datagram #%d, with a harmless forged record every quarter interval "
                       "to the %s, the handshake %s" % (c["stage"], c["target"], lossper_late(c)))
    print("REPLAY case %d (%s, stage %s, generator %s): %d datagrams traced; %s" % (
        cid, case.get("variant", cs[0]["variant"] if cs else "?"), case.get("stage", "?"), case.get("gen", "?"), len(traces),
        "FAILS: " + "; ".join(why[:4]) if why else "no monitor fires"), flush=True)
    if why:
        chk.finding(body["site"], body["signature"], body["what"],
                    {"replayed_from": path, "still_fails_because": why[:6], "case": cs[0] if cs else case,
                     "datagrams": [{"target": t["target"], "gen": t["gen"], "class": t.get("note"), "hex": t["hex"]} for t in traces[-8:]],
                     "how": "VERIF_SEED=%s VERIF_TIER=%s VERIF_C08_ONLY=%d VERIF_C08_TRACE=1 go test -run TestVerifC08" % (seed, tier, cid)})
    chk.count("replay", max(len(traces), 1), [(cid,)])
    chk.finish(level="proof", rule="replay of one session (case %d, seed %s, tier %s)" % (cid, seed, tier))


def run(chk):
    if chk.tier != "thorough":
        # belt and braces next to the harness watchdog: no runaway test binary may eat the machine
        # (not with -race: the race detector needs a huge address space)
        import resource
        resource.setrlimit(resource.RLIMIT_AS, (24 << 30, 24 << 30))
    proved = chk.prove()
    rows, crashes, problems = [], [], []
    with ThreadPoolExecutor(max_workers=SHARDS) as ex:
        list(ex.map(lambda s: run_shard(chk, s, rows, crashes, problems), range(SHARDS)))
    cases = sorted([r for r in rows if r["kind"] == "case"], key=lambda r: r["id"])
    found = False
    for kind, o in problems[:1]:
        chk.broken("correspondence harness TestVerifC08 no longer %s against /repo" %
                   ("builds" if kind == "build" else "runs"), o)

    # ---- unit leg: every suite's Decrypt on hostile input, panics recovered in-process
    outu = vlib.out_path("c08u")
    rcu, ou = vlib.go_test(PKG_CS, "^TestVerifC08Decrypt$", {"VERIF_SEED": chk.seed, "VERIF_TIER": chk.tier,
                                                             "VERIF_OUT": outu}, tags=["c08"], timeout=1200)
    urows = vlib.read_jsonl(outu)
    vlib.cleanup(outu)
    if rcu != 0:
        chk.broken("unit harness TestVerifC08Decrypt no longer runs (%s)" % vlib.classify_go_failure(ou), ou)

    # ---- unit leg F69: PSKPreMasterSecret at the 16-bit edge (a crash reachable by configuration)
    outp = vlib.out_path("c08p")
    rcp, op = vlib.go_test("./pkg/crypto/prf", "^TestVerifC08PSKLength$", {"VERIF_OUT": outp}, tags=["c08"], timeout=600)
    prows = vlib.read_jsonl(outp)
    vlib.cleanup(outp)
    if rcp != 0 or not prows:
        chk.broken("unit harness TestVerifC08PSKLength no longer runs (%s)" % vlib.classify_go_failure(op), op)
    for r in prows:
        if r.get("panic") or not r.get("shape"):
            found = True
            chk.finding("pkg/crypto/prf/prf.go PSKPreMasterSecret",
                        {"monitor": "panic" if r.get("panic") else "malformed pre_master_secret", "function": "prf.PSKPreMasterSecret"},
                        "PSKPreMasterSecret on a pre-shared key of %d bytes %s (the handshake goroutine of an endpoint "
                        "configured with such a key crashes)" % (
                            r["len"], "panics: " + r["panic"] if r.get("panic") else "returns %d bytes of the wrong shape" % r["out_len"]),
                        {"psk_length": r["len"], "row": r, "how": "prf.PSKPreMasterSecret(bytes.Repeat([]byte{0xab}, psk_length))"})
            break

    # ---- unit leg K-C08-4: the listener's inbound packet buffer
    outb = vlib.out_path("c08b")
    rcb, ob = vlib.go_test("./internal/net", "^TestVerifC08PacketBuffer$", {"VERIF_OUT": outb}, tags=["c08"], timeout=600)
    brows = vlib.read_jsonl(outb)
    vlib.cleanup(outb)
    if rcb != 0 or not brows:
        chk.broken("unit harness TestVerifC08PacketBuffer no longer runs (%s)" % vlib.classify_go_failure(ob), ob)
    for r in brows:
        # every documented limit (2 MB reassembly, 100 queued records of at most 8 KB) is far below 4 MB / 1024 datagrams
        if r["queued"] > 1024 or r["bytes"] > (4 << 20) or r["bytes_after"] > (4 << 20):
            found = True
            chk.finding("internal/net/buffer.go PacketBuffer.WriteTo (listener: per-connection inbound queue)",
                        {"monitor": "unbounded inbound packet buffer"},
                        "the listener's per-connection inbound PacketBuffer has no limit and never shrinks: %d datagrams of %d "
                        "bytes written while the connection does not read are all queued (%d held, %d slots, %d bytes); after "
                        "draining it still holds %d slots / %d bytes" % (
                            r["written"], r["size"], r["queued"], r["slots"], r["bytes"], r["slots_after"], r["bytes_after"]),
                        {"row": r, "how": "NewPacketBuffer(); WriteTo(make([]byte, size), addr) `written` times without "
                                          "ReadFrom; what a listener does for every datagram from a known remote address, "
                                          "before any DTLS parsing (12000 unparsable 1000-byte datagrams suffice)"})
            break

    # ---- listener leg: the server behind the library's own UDP listener (internal/net/udp -> per-connection packet
    #      queue -> Conn), loopback sockets, real time.  Datagrams of 64 ... 65507 bytes that do not parse, sent from the
    #      genuine client's address after and during the handshake, must be consumed and dropped: the handshake completes,
    #      the next two genuine application records and one in the other direction are delivered within 2 s each, and the
    #      server's Read reports no error
    outl = vlib.out_path("c08l")
    rcl, ol = vlib.go_test(".", "^TestVerifC08Listener$", {"VERIF_SEED": chk.seed, "VERIF_TIER": chk.tier, "VERIF_OUT": outl},
                           tags=["c08"], timeout=900)
    lrows = [r for r in vlib.read_jsonl(outl) if r.get("kind") == "listener"]
    vlib.cleanup(outl)
    if rcl != 0 and is_crash(ol):
        msg, site, func = top_repo_frame(ol)
        found = True
        chk.finding(site or "listener.go / internal/net/udp", {"monitor": "panic", "function": func or "?", "leg": "listener"},
                    "the listener leg crashed: %s" % msg, {"output": ol[-4000:]})
    elif rcl != 0 or not lrows:
        chk.broken("harness TestVerifC08Listener no longer runs (%s)" % vlib.classify_go_failure(ol), ol)
    lrun = [r for r in lrows if not r.get("skipped") and not r.get("note") and r.get("sent")]
    unsent = [r for r in lrows if not r.get("skipped") and (r.get("note") or not r.get("sent"))]
    if len(unsent) > len(lrows) // 2:
        chk.broken("listener leg: most datagrams could not be sent over loopback UDP", json.dumps(unsent[:3]))

    def listener_bad(r):
        if r["hs_c"] != "ok" or r["hs_s"] != "ok":
            return "the handshake does not complete (client=%s server=%s)" % (r["hs_c"], r["hs_s"])
        if r.get("read_err"):
            return "the server's Read returns \"%s\" (%s times)%s" % (
                r["read_err"], "more than 200" if r["read_errs"] > 200 else r["read_errs"],
                " and of the 2 genuine application records the client sends next %d are delivered" % r["delivered"])
        if r["delivered"] < 2 or not r["echo"]:
            return "of the 2 genuine application records the client sends next %d are delivered within 2 s each%s" % (
                r["delivered"], "" if r["echo"] else "; the server's own payload does not reach the client")
        return None
    for phase in ("established", "handshake"):
        lb = [r for r in lrun if r["phase"] == phase and listener_bad(r)]
        if not lb:
            continue
        r = sorted(lb, key=lambda r: (r["size"], r["id"]))[0]
        found = True
        chk.finding("internal/net/udp/packet_conn.go receiveMTU / conn.go inboundBufferSize / internal/net/buffer.go "
                    "PacketBuffer.ReadFrom (a packet longer than the reader's buffer is not consumed)",
                    {"monitor": "datagram from the client's address wedges the connection behind the listener", "phase": phase},
                    "server behind listenWithConfig over loopback UDP, variant %s; ONE datagram of %d bytes that is no DTLS record "
                    "(fill %s) sent from the client's address %s: %s [failing sizes: %s; sizes without effect: %s]" % (
                        r["variant"], r["size"], r["fill"],
                        "after the handshake" if phase == "established" else "right after the client's handshake datagram #%d" % r["after"],
                        listener_bad(r), sorted({x["size"] for x in lb}),
                        sorted({x["size"] for x in lrun if x["phase"] == phase and not listener_bad(x)})),
                    {"how": "TestVerifC08Listener: listenWithConfig(\"udp\", 127.0.0.1:0), Accept + Handshake; client over its own "
                            "UDP socket; write `size` bytes of `fill` from that socket to the listener's address; then the client "
                            "writes two payloads, the server one", "row": r,
                     "variant": r["variant"], "phase": phase, "size": r["size"], "fill": r["fill"], "after": r["after"],
                     "all": [(x["id"], x["variant"], x["phase"], x["after"], x["size"], x["fill"]) for x in lb[:30]]})

    # ---- M1 panic / deadlock / livelock: one finding per (function, message); all cases that hit it listed
    by_site = {}
    for c in crashes:
        by_site.setdefault((c["kind"], c["func"], norm_panic(c["panic"])), []).append(c)
    upanics = {}
    for u in urows:
        if u.get("panic"):
            upanics.setdefault(norm_panic(u["panic"]), []).append(u)
    for (kind, func, pmsg), cs in sorted(by_site.items()):
        found = True
        unauth = [c for c in cs if (c.get("datagram") or {}).get("note") not in ("auth", None)]
        c = (unauth or cs)[0]
        d = c["datagram"] or {}
        who = "unauthenticated sender" if unauth else "authenticated peer (record sealed with the session keys)"
        sig = {"monitor": kind, "function": func, "panic": pmsg}
        chk.finding(c["site"].split(":")[0] + " " + func, sig,
                    "%s in an endpoint goroutine: %s at %s; reachable by an %s [e.g. variant %s, %s, input %s; %d "
                    "crashing cases, variants %s]" % (
                        kind, c["panic"], c["site"], who, c["case"]["variant"],
                        "established" if c["case"]["stage"] < 0 else "before handshake datagram #%d" % c["case"]["stage"],
                        d.get("gen", c["case"]["gen"]), len(cs), sorted({x["case"]["variant"] for x in cs})),
                    {"how": "VERIF_SEED=%s VERIF_TIER=%s VERIF_C08_ONLY=%d VERIF_C08_TRACE=1 go test -run TestVerifC08 "
                            "(through bin/check C08); `datagram.hex` is the last datagram delivered to "
                            "`datagram.target` before the crash" % (chk.seed, chk.tier, c["case"]["id"]),
                     "case": c["case"], "datagram": d, "class": d.get("note"),
                     "single_datagram_replay": c.get("single_datagram_replay"),
                     "all_inputs": sorted({(x.get("datagram") or {}).get("gen", "?") for x in cs}),
                     "unit_level": [{"suite": u["suite"], "kind": u["kind"], "record_hex": u["hex"], "keys": u.get("keys")}
                                    for u in upanics.get(pmsg, [])[:3]],
                     "reproduced": c["reproduced"], "stack": c["output"]})
    for pmsg, us in sorted(upanics.items()):
        if any(norm_panic(c["panic"]) == pmsg for c in crashes):
            continue
        u = us[0]
        found = True
        chk.finding("pkg/crypto/ciphersuite %s.Decrypt" % u["suite"],
                    {"monitor": "panic", "function": "%s.Decrypt" % u["suite"].split("+")[0], "panic": pmsg},
                    "panic in %s.Decrypt on %s input: %s" % (u["suite"], u["kind"], u["panic"]),
                    {"suite": u["suite"], "record_hex": u["hex"], "keys": u.get("keys"), "kind": u["kind"]})

    # ---- M4 drop classes are inert (per datagram), grouped by (what it is, what it causes)
    groups = {}
    for c in cases:
        for o in c["obs"] or []:
            v = obs_violation(o)
            if v is None:
                continue
            g = (drop_kind(o["class"]), "in every phase" if o["class"] == "rrc0" else (
                "during dual-stack version negotiation" if (o.get("neg") and o["class"] == "warn")
                else ("before establishment" if not o["est"] else "after establishment")))
            cur = groups.setdefault(g, {"ex": None, "effects": set(), "n": 0, "classes": set()})
            cur["n"] += o["n"]
            cur["effects"].add(v)
            cur["classes"].add(o["class"])
            if o.get("hex") and (cur["ex"] is None or len(o["hex"]) < len(cur["ex"][1]["hex"])):
                cur["ex"] = (c, o, v)
    for g, info in sorted(groups.items()):
        if info["ex"] is None:
            continue
        c, o, v = info["ex"]
        found = True
        chk.finding(site_of(o["class"]),
                    {"monitor": "drop-class datagram has an effect", "what": g[0], "when": g[1]},
                    "%s, %s: it %s [%d such datagrams; shortest: variant %s, %s, target %s, class %s, hex %s]" % (
                        g[0], g[1], v, info["n"], c["variant"],
                        "established" if c["stage"] < 0 else "before handshake datagram #%d" % c["stage"],
                        c["target"], o["class"], o.get("hex", "")[:80]),
                    {"how": "start `variant`, deliver `hex` to `target` at `stage` (index of the handshake datagram before "
                            "whose delivery it is injected; -1 = after the handshake): VERIF_C08_REPLAY=%s:%d:%s:%s "
                            "go test -run TestVerifC08Replay" % (c["variant"], c["stage"], c["target"], o.get("hex", "")),
                     "variant": c["variant"], "stage": c["stage"], "target": c["target"], "class": o["class"],
                     "hex": o.get("hex"), "effect": o["eff"], "case_id": c["id"],
                     "all_effects_seen": sorted(info["effects"]), "classes": sorted(info["classes"]),
                     "reading": "the datagram cannot be parsed as DTLS record(s) by an independent reading of RFC 6347 4.1 / "
                                "RFC 9147 4 (classifier c08Classify), so the property requires it to be dropped and the "
                                "endpoint to keep serving"})

    # ---- M4b keeps serving after drop-only batches
    # inert batches: every injected datagram had to be without effect when it arrived (drop classes; warning
    # alerts while the target's handshake was running).  Afterwards the handshake completes, fresh payloads
    # are delivered both ways, and the FIRST Read of each side returns the peer's payload, not an error.
    late, firsts = [], []
    for c in cases:
        if not c.get("inert") or c["gen"].startswith("flood") or c["gen"] in ("slot", "pinlen", "lossinj", "dupfirst") or c["inj"] == 0:
            continue
        if any(obs_violation(o) for o in c["obs"] or []):
            continue  # already reported through the datagram that did it
        if not (c["done"] and c["echo_cs"] and c["echo_sc"]):
            late.append(c)
        elif c["first_c"] != "payload" or c["first_s"] != "payload":
            firsts.append(c)
    if late:
        c = sorted(late, key=lambda c: (c["gen"] not in ("corpus", "warn"), c["inj"], c["id"]))[0]
        found = True
        chk.finding("conn.go receive path", {"monitor": "no service after dropped datagrams"},
                    "after datagrams that all had to be without effect (none had an immediate one) the handshake did not "
                    "complete / a fresh payload was not delivered [%d such cases; e.g. variant %s stage %d generator %s, "
                    "%d datagrams to the %s; client=%s server=%s]" % (
                        len(late), c["variant"], c["stage"], c["gen"], c["inj"], c["target"], c["cerr"], c["serr"]),
                    {"how": "VERIF_C08_ONLY=%d VERIF_C08_TRACE=1" % c["id"], "case": c,
                     "datagrams": [o.get("hex") for o in c["obs"] or []],
                     "all": [(x["id"], x["variant"], x["stage"], x["gen"], x["inj"]) for x in late[:20]]})
    if firsts:
        c = sorted(firsts, key=lambda c: (c["gen"] not in ("corpus", "warn"), c["inj"], c["id"]))[0]
        found = True
        chk.finding("conn.go classifyReadLoopError / deliverReadError",
                    {"monitor": "first Read after inert datagrams is not the peer's payload"},
                    "after datagrams that all had to be without effect the first Read returned %s (client) / %s (server) "
                    "instead of the peer's payload [%d such cases; e.g. variant %s stage %d generator %s, %d datagrams to "
                    "the %s]" % (c["first_c"], c["first_s"], len(firsts), c["variant"], c["stage"], c["gen"], c["inj"],
                                 c["target"]),
                    {"how": "start `variant`; before handshake datagram #stage is delivered, deliver `datagrams` to `target`; "
                            "complete the handshake; the peer writes a payload; the first Read on `target` must return it. "
                            "VERIF_C08_ONLY=%d VERIF_C08_TRACE=1" % c["id"],
                     "variant": c["variant"], "stage": c["stage"], "target": c["target"],
                     "datagrams": [o.get("hex") for o in c["obs"] or []], "case": c,
                     "all": [(x["id"], x["variant"], x["stage"], x["gen"], x["inj"]) for x in firsts[:20]]})

    # ---- F62: a lost datagram must still be retransmitted after its sender got a harmless forged record;
    #      F78: a re-framed copy of the pending genuine record arriving first must not stop the handshake
    for gen, mon, text in (
            ("lossinj", "retransmission cancelled by a harmless forged record",
             "handshake datagram #%(stage)d was lost and at that moment its sender (%(target)s) received ONE unprotected fragment "
             "of a far-future handshake message (small unused record number): it stopped retransmitting, the handshake "
             "never completes"),
            ("dupfirst", "handshake stopped by a re-framed copy of the pending genuine record",
             "the first record of genuine handshake datagram #%(stage)d, re-framed into two fragments under a small unused record "
             "number, reached the %(target)s before the genuine datagram: the handshake does not complete")):
        gs = [c for c in cases if c["gen"] == gen and c["inj"] > 0]
        bad = [c for c in gs if not (c["done"] and c["echo_cs"] and c["echo_sc"])]
        if bad:
            c = sorted(bad, key=lambda c: c["id"])[0]
            found = True
            chk.finding("internal/handshake fsm12.go / fsm13.go (retransmission after an unauthenticated handshake datagram)",
                        {"monitor": mon},
                        (text % c) + " [%d of %d cases; e.g. variant %s: client=%s server=%s]" % (
                            len(bad), len(gs), c["variant"], c["cerr"], c["serr"]),
                        {"how": "VERIF_C08_ONLY=%d VERIF_C08_TRACE=1" % c["id"], "variant": c["variant"], "stage": c["stage"],
                         "target": c["target"], "datagrams": [o.get("hex") for o in c["obs"] or []], "case": c,
                         "all": [(x["id"], x["variant"], x["stage"], x["target"]) for x in bad[:30]]})
    # ---- retransmission starved: datagram #k is lost and from then on its sender gets a harmless forged record (one
    #      lone fragment of a far-future message: fresh ones, or one identical one) every quarter of the flight interval
    #      for 8 intervals.  The timer armed when the flight was sent must still fire on time.
    lp = [c for c in cases if c["gen"] == "lossper" and c.get("loss_ms", -1) >= 0]
    bad = [c for c in lp if lossper_late(c) and not any(obs_violation(o) for o in c["obs"] or [])]
    if lp:
        took = sorted((c["done_ms"] - c["loss_ms"]) / max(c["ival_ms"], 1) for c in lp if c.get("done_ms", -1) >= 0)
        vlib.log("lossper: %d sessions with a loss, completion after the loss in flight intervals: min %.2f median %.2f max %.2f, "
                 "%d late/never" % (len(lp), took[0] if took else -1, took[len(took) // 2] if took else -1,
                                    took[-1] if took else -1, len(bad)))
    # two places own such a timer: the handshake state machines (fsm12 / fsm13 wait) and, before the state machine of a
    # dual-stack client exists, the version negotiation loop (conn.go negotiateVersionClient); told apart by whether the
    # target had a state machine when the forged records arrived
    def lp_phase(c):
        return "version negotiation" if any(o.get("neg") for o in c["obs"] or []) else "handshake"
    for phase, site in (("handshake", "internal/handshake fsm12.go / fsm13.go wait (flight retransmission timer)"),
                        ("version negotiation", "conn.go negotiateVersionClient (ClientHello repeated on a read timeout that "
                                                "every datagram read re-arms)")):
        pb = [c for c in bad if lp_phase(c) == phase]
        if not pb:
            continue
        c = sorted(pb, key=lambda c: c["id"])[0]
        found = True
        chk.finding(site,
                    {"monitor": "retransmission starved by periodic harmless records", "phase": phase},
                    "handshake datagram #%d was lost (variant %s, sent by the %s) and from then on its sender received one harmless "
                    "unprotected record - a lone fragment of a far-future handshake message, small unused record number - every "
                    "quarter of the flight interval (%d ms) for 8 intervals: the handshake %s; it has to complete within %.1f "
                    "intervals of the loss (first retransmission one interval after the flight was sent); every such record "
                    "re-arms the retransmission timer, the lost flight is not repeated for as long as they keep coming [%d of %d "
                    "cases with a loss; variants: %s]" % (
                        c["stage"], c["variant"], c["target"], c["ival_ms"], lossper_late(c), LOSSPER_BOUND, len(pb), len(lp),
                        ", ".join(sorted({x["variant"] for x in pb}))),
                    {"how": "VERIF_C08_ONLY=%d VERIF_C08_TRACE=1; drop handshake datagram #stage, then deliver one of `datagrams` "
                            "to `target` every ival_ms/4 (first one ival_ms/8 after the loss)" % c["id"],
                     "variant": c["variant"], "stage": c["stage"], "target": c["target"], "ival_ms": c["ival_ms"],
                     "loss_ms": c["loss_ms"], "done_ms": c["done_ms"],
                     "datagrams": [o.get("hex") for o in c["obs"] or []], "case": c,
                     "all": [(x["id"], x["variant"], x["stage"], x["target"], x["done_ms"] - x["loss_ms"] if x["done_ms"] >= 0 else -1)
                             for x in pb[:40]]})
    # ---- K-C08-2: the slot of a message the peer sends PROTECTED, taken by one unprotected record
    sl = [c for c in cases if c["gen"] == "slot" and c["inj"] > 0]
    bad = [c for c in sl if not (c["done"] and c["echo_cs"] and c["echo_sc"])]
    if bad:
        c = sorted(bad, key=lambda c: (not c["variant"].startswith("v13"), c["stalled"] is False, c["id"]))[0]
        found = True
        chk.finding("internal/fragmentbuffer/fragment_buffer.go (reassembly keyed by message_seq only) / conn.go "
                    "bufferHandshakeRecord / flight parsers",
                    {"monitor": "handshake slot of a protected message taken by an unprotected record"},
                    "ONE unprotected (epoch 0) handshake record carrying the type and message_seq of a message the genuine peer "
                    "sends PROTECTED (DTLS 1.3 EncryptedExtensions ..., DTLS 1.2 Finished) is reassembled with epoch 0; the "
                    "flight parser wants the protected epoch, the sequence moves on and the genuine message is skipped as a "
                    "retransmission or refused: the handshake never completes / is aborted [%d of %d cases; e.g. variant %s "
                    "before handshake datagram #%d, target %s: client=%s server=%s]" % (
                        len(bad), len(sl), c["variant"], c["stage"], c["target"], c["cerr"], c["serr"]),
                    {"how": "VERIF_C08_ONLY=%d VERIF_C08_TRACE=1; datagrams delivered to `target` before handshake datagram "
                            "#stage" % c["id"], "variant": c["variant"], "stage": c["stage"], "target": c["target"],
                     "datagrams": [o.get("hex") for o in c["obs"] or []], "case": c,
                     "all": [(x["id"], x["variant"], x["stage"], x["target"], x["cerr"], x["serr"]) for x in bad[:30]]})
    # ---- K-C08-3b: one forged first fragment pins the length of the next expected message
    pl = [c for c in cases if c["gen"] == "pinlen" and c["inj"] > 0 and c["stage"] >= 0]
    bad = [c for c in pl if not (c["done"] and c["echo_cs"] and c["echo_sc"])]
    if bad:
        c = sorted(bad, key=lambda c: c["id"])[0]
        found = True
        chk.finding("internal/fragmentbuffer/fragment_buffer.go pushHandshakeFragments (first fragment fixes handshakeLength)",
                    {"monitor": "next handshake message made unassemblable by one forged fragment"},
                    "ONE unprotected one-byte fragment {message_seq = next expected, offset 0, declared length 5000} pins the "
                    "length of the next message: the genuine message (other length, same offset) can never be reassembled and "
                    "the handshake never completes [%d of %d cases; e.g. variant %s before handshake datagram #%d, target %s: "
                    "client=%s server=%s]" % (len(bad), len(pl), c["variant"], c["stage"], c["target"], c["cerr"], c["serr"]),
                    {"how": "VERIF_C08_ONLY=%d VERIF_C08_TRACE=1" % c["id"], "variant": c["variant"], "stage": c["stage"],
                     "target": c["target"], "datagrams": [o.get("hex") for o in c["obs"] or []], "case": c,
                     "all": [(x["id"], x["variant"], x["stage"], x["target"]) for x in bad[:30]]})

    # ---- M3 bounds
    for c in cases:
        if c["qmax"] > 100 or c["fb_count"] > 1000 or c["fb_size"] >= 2000000:
            found = True
            chk.finding("conn.go enqueueEncryptedPackets / fragment_buffer.go Push",
                        {"monitor": "fixed buffering limit exceeded",
                         "limit": "queue" if c["qmax"] > 100 else ("fragment count" if c["fb_count"] > 1000 else "bytes")},
                        "queue %d (limit 100), fragments %d (limit 1000), bytes %d (limit 2000000)" % (
                            c["qmax"], c["fb_count"], c["fb_size"]), {"case": c})
            break
    fq = [c for c in cases if c["gen"] == "flood-queue"]
    for c in fq:
        if not (c["done"] and c["echo_cs"] and c["echo_sc"]):
            if any(obs_violation(o) for o in c["obs"] or []):
                continue
            found = True
            chk.finding("conn.go enqueueEncryptedPackets", {"monitor": "queue flood stops the endpoint"},
                        "130 forged next-epoch records: the endpoint did not complete / deliver afterwards "
                        "[variant %s stage %d]" % (c["variant"], c["stage"]), {"case": c})
            break
    ff = [c for c in cases if c["gen"] in ("flood-frag", "flood-frag2")]
    # two different defects, two signatures: (a) an ESTABLISHED connection no longer delivers application data
    # (repaired in 826a95e, must stay detectable), (b) a handshake IN PROGRESS never completes
    for phase, sel in (("established", [c for c in ff if c["stage"] < 0]), ("handshake", [c for c in ff if c["stage"] >= 0])):
        bad = [c for c in sel if not (c["done"] and c["echo_cs"] and c["echo_sc"])]
        if not bad:
            continue
        c = sorted(bad, key=lambda c: (c["gen"] != "flood-frag", c["id"]))[0]   # canonical member first (F39)
        found = True
        if phase == "established":
            site = ("internal/fragmentbuffer/fragment_buffer.go Push (limit check precedes the content-type check) / "
                    "conn.go bufferHandshakeRecord")
            what = ("about 1000 small unauthenticated epoch-0 handshake fragments of future message_seq fill the reassembly "
                    "buffer for good; afterwards EVERY record (application data, alerts, handshake) is dropped: a fresh "
                    "genuine payload is never delivered on the established connection")
        else:
            site = "internal/fragmentbuffer/fragment_buffer.go Push (fixed limits, nothing is ever evicted) / conn.go bufferHandshakeRecord"
            what = ("about 1000 small unauthenticated epoch-0 handshake fragments of future message_seq fill the reassembly "
                    "buffer for good; every later handshake record of the genuine peer is refused, so the handshake in "
                    "progress never completes (it stalls until the caller's deadline)")
        chk.finding(site,
                    {"monitor": "receive path wedged by unauthenticated fragments", "phase": phase, "fb_count": c["fb_count"]},
                    "%s [variant %s, %d/%d such cases]" % (what, c["variant"], len(bad), len(sel)),
                    {"how": "VERIF_C08_ONLY=%d; datagram i = 16fefd 0000 00000000<9000+i> <len> | 0b 000fa0 "
                            "<recv_seq+1+i> 000000 000008 | 8 bytes" % c["id"], "case": c,
                     "reading": "no limit is exceeded and nothing panics, but the endpoint no longer serves valid "
                                "traffic: a functional deadlock of the receive path caused by an unauthenticated sender"})
    fc = [c for c in cases if c["gen"] == "flood-cache" and c["stage"] < 0 and c["done"]]
    grow = [c for c in fc if c["cache1"] - c["cache0"] > 1000]
    if grow:
        c = grow[0]
        found = True
        chk.finding("conn.go bufferHandshakeRecord -> internal/flight/cache.go Push (no limit, never pruned)",
                    {"monitor": "unbounded handshake cache growth after establishment"},
                    "every complete in-order unauthenticated epoch-0 handshake message sent to an ESTABLISHED "
                    "endpoint is reassembled and retained for ever in the handshake cache: %d datagrams -> %d new "
                    "entries (there is no limit; 2^16 message numbers x 8 KB per connection, then it wraps) "
                    "[variant %s, %d/%d such cases]" % (c["inj"], c["cache1"] - c["cache0"], c["variant"],
                                                        len(grow), len(fc)),
                    {"how": "VERIF_C08_ONLY=%d; datagram i = 16fefd 0000 00000000<9000+i> 0264 | 00 000258 "
                            "<recv_seq+i> 000000 000258 | 600 bytes" % c["id"], "case": c})
    fa = [c for c in cases if c["gen"] == "flood-cache-auth" and c["done"] and c["inj"] >= 100]
    grow = [c for c in fa if c["cache1"] - c["cache0"] > 50]
    if grow:
        c = grow[0]
        found = True
        chk.finding("conn.go bufferHandshakeRecord -> internal/flight/cache.go Push (post-handshake messages of the peer)",
                    {"monitor": "unbounded handshake cache growth after establishment", "sender": "authenticated peer"},
                    "the established endpoint keeps every post-handshake handshake message of its AUTHENTICATED peer in the "
                    "handshake cache, which nothing reads or prunes: %d protected messages -> %d new entries [variant %s, "
                    "target %s, %d/%d such cases]" % (c["inj"], c["cache1"] - c["cache0"], c["variant"], c["target"],
                                                      len(grow), len(fa)),
                    {"how": "VERIF_C08_ONLY=%d; 300 in-order protected handshake messages (1.3: valid NewSessionTickets to the "
                            "client, 1.2: type-0 messages of 600 bytes) sealed with the session keys" % c["id"], "case": c})
    mem = [r for r in rows if r["kind"] == "mem"]
    heap = max([m.get("heap_mb", 0) for m in mem] or [0])
    if heap > 400:
        found = True
        chk.finding("runtime.MemStats", {"monitor": "heap growth"}, "heap grew by %.0f MB over a shard" % heap, {"mem": mem})

    # ---- model / implementation comparison on the drop classes
    ok_model, mo = vlib.coq_make(["theories/Rec/C08Run.vo"])
    terms, tcases = [], []
    for c in cases:
        for o in c["obs"] or []:
            t = model_term(o)
            if t is not None:
                terms.append(t)
                tcases.append((c, o))
    for r in lrun:
        if r["size"] > 8192:
            # longer than the connection's read buffer and not DTLS: Rec.C08Robust DOversized - consumed, no effect
            est = r["phase"] == "established"
            terms.append("(false, %s, KOversized, (%s, false, false, false))" % (
                cbool(est), cbool(bool(r.get("read_err")) or r["hs_c"] != "ok" or r["hs_s"] != "ok")))
            tcases.append(({"variant": r["variant"], "id": -1},
                           {"class": "oversized", "est": est, "listener": True, "eff": {}, "row": r}))
    if not ok_model:
        chk.broken("model Rec/C08Run.v no longer compiles", mo)
    elif terms:
        uniq = sorted(set(terms))
        bad_i, err = vlib.coq_mismatches("c08", IMPORTS, "c08_case", "c08_ok", uniq, shard=400)
        if bad_i is None:
            chk.broken("correspondence evaluation failed in coqc", err)
        else:
            for i in bad_i[:1]:
                c, o = tcases[terms.index(uniq[i])]
                chk.finding("conn.go receive path", {"monitor": "model-mismatch", "class": o["class"], "est": o["est"]},
                            "observed effect of a %s datagram differs from Rec/C08Robust.v (as-coded model) "
                            "[variant %s]" % (o["class"], c["variant"]),
                            {"case_id": c["id"], "obs": o, "term": uniq[i], "correspondence": "Rec.C08Run.c08_ok"},
                            no_input=(not o.get("listener") and obs_violation(o) is None and not found))

    # ---- accounting
    n_inj = sum(c["inj"] for c in cases)
    keys = []
    gens, classes, outcomes = {}, {}, {}
    for c in cases:
        for o in c["obs"] or []:
            gens[o["gen"].split(":")[0]] = gens.get(o["gen"].split(":")[0], 0) + o["n"]
            classes[o["class"]] = classes.get(o["class"], 0) + o["n"]
            keys.append((c["variant"], c["stage"], c["target"], o["gen"], o["class"], o["est"]))
        k = "%s/%s/%s" % (c["gen"].split("-")[0], "hs" if c["stage"] >= 0 else "est",
                          "ok" if (c["done"] and c["echo_cs"] and c["echo_sc"]) else
                          ("stalled" if c["stalled"] else ("aborted" if not c["done"] else "no-echo")))
        outcomes[k] = outcomes.get(k, 0) + 1
    chk.count("e2e", n_inj, keys, samples=[{"variant": c["variant"], "stage": c["stage"], "gen": c["gen"],
                                            "obs": (c["obs"] or [])[:2]} for c in cases[:3]])
    chk.count("psk-length-unit", len(prows), [(r["len"], bool(r.get("panic"))) for r in prows], samples=prows[-3:])
    chk.count("listener", len(lrun), [(r["variant"], r["phase"], r["after"], r["size"], r["fill"]) for r in lrun],
              samples=lrun[:2])
    chk.count("packet-buffer-unit", len(brows), [(r["written"], r["size"]) for r in brows], samples=brows[:2])
    chk.count("decrypt-unit", len(urows), [(u["suite"], u["kind"], u.get("err", "")) for u in urows],
              samples=urows[:2])
    chk.cov["traces_validated_against_impl"] = len(cases)
    chk.leg_info("e2e", sessions=len(cases), datagrams=n_inj, generators=gens, classes=classes, outcomes=outcomes,
                 crashing_cases=len(crashes), variants=sorted({c["variant"] for c in cases}),
                 max_queue=max([c["qmax"] for c in cases] or [0]),
                 max_fragments=max([c["fb_count"] for c in cases] or [0]), heap_growth_mb=heap,
                 exceptions=EXCEPTIONS)
    if not proved and not found:
        where, pout = getattr(chk, "proof_error", ("?", ""))
        chk.broken("proof obligation Properties/C08.v no longer checks (%s)" % where, pout)
    chk.finish(
        level="proof",
        rule="per session (15 suite/version/CID variants) x injection point (before each handshake datagram, both "
             "directions; established) x generator (raw random 0..2000 bytes incl. unified-header first bytes; 22 "
             "structure-aware mutations of the pending/earlier genuine datagrams; 33 protected-but-malformed contents + 5 "
             "hand-built CBC paddings sealed with the session keys; regression corpus; queue / fragment / cache floods). "
             "Every datagram is classified by an independent reader of the record formats; drop classes must be "
             "inert and the session must complete and echo afterwards. Non-trivial = every injected datagram; distinct "
             "by (variant, stage, target, generator, class, established).",
        assumptions=["int_ctxt (C05): a protected record authenticates only if the peer sealed it under that header",
                     "model level: Rec/Recv.v (DTLS 1.2 receive path) + datagram layer of Rec/C08Robust.v; the DTLS 1.3 "
                     "record path is exercised by the harness only",
                     "absolute memory (GC) is not bounded by the model: queue, reassembly and handshake-cache counters "
                     "and runtime.MemStats growth are monitored"] + EXCEPTIONS)
