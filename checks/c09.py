"""C09 nonce uniqueness: theorems Properties/C09.v over the send-side counter model + wire capture
of whole sessions (loss -> retransmissions, fragmentation, concurrent writers, alerts,
export/import, counter preset near 2^48) compared record by record with the model."""
import collections
import vlib
from vlib import cN, clist

IMPORTS = "From DtlsV Require Import Lib.Bytes Rec.WindowRun Rec.Send Rec.SendRun."


def monitor(c):
    for side in ("client", "server"):
        recs = c.get(side) or []
        seen = {}
        last = {}
        for i, r in enumerate(recs):
            k = (r["e"], r["s"])
            if k in seen:
                return side, "record number (epoch %d, seq %d) emitted twice by the %s (records #%d and #%d, types %d/%d)" % (
                    r["e"], r["s"], side, seen[k], i, recs[seen[k]]["ct"], r["ct"])
            seen[k] = i
            if r["e"] in last and r["s"] <= last[r["e"]]:
                return side, "sequence numbers of epoch %d not increasing at the %s (%d after %d)" % (
                    r["e"], side, r["s"], last[r["e"]])
            last[r["e"]] = r["s"]
            if r["s"] > 2 ** 48 - 1:
                return side, "sequence number above 2^48-1"
    if c["kind"] == "wrap":
        room = 2 ** 48 - 1 - c["wrap_base"] + 1
        if c["wrap_ok"] > room:
            return "client", "write succeeded past 2^48-1 (base %d, %d ok)" % (c["wrap_base"], c["wrap_ok"])
    return None


def side_term(c, side):
    recs = c.get(side) or []
    before = [(r["e"], r["s"]) for r in recs if r["ph"] == 0]
    after = [(r["e"], r["s"]) for r in recs if r["ph"] == 1]
    imp = c["import_epoch"] if (side == "server" and c["import_epoch"] >= 0) else 0
    if side != "server":
        before, after = before + after, []
    preset = []
    if c["kind"] == "wrap" and side == "client":
        preset = [(1, c["wrap_base"])]
    pr = lambda l: clist(["(%d,%d)" % x for x in l])
    return "(%s, %d, %s, %s)" % (pr(before), imp, pr(after), pr(preset))


def run(chk):
    proved = chk.prove()
    out = vlib.out_path("c09")
    rc, o = vlib.go_test(".", "^TestVerifC09$", {"VERIF_SEED": chk.seed, "VERIF_TIER": chk.tier, "VERIF_OUT": out},
                         tags=["c09"], timeout=2400)
    cases = vlib.read_jsonl(out)
    vlib.cleanup(out)
    # DTLS 1.3 leg: encrypted sequence numbers, opened with the sender's write generations
    out13 = vlib.out_path("c09v13")
    rc13, o13 = vlib.go_test(".", "^TestVerifC09V13$", {"VERIF_SEED": chk.seed, "VERIF_TIER": chk.tier, "VERIF_OUT": out13},
                             tags=["c09", "c09v13", "c20"], timeout=2400)
    cases += vlib.read_jsonl(out13)
    vlib.cleanup(out13)
    if rc13 != 0 and rc == 0:
        rc, o = rc13, o13
    found = False
    if rc != 0:
        kind = vlib.classify_go_failure(o)
        if kind == "panic":
            found = True
            chk.finding("conn.go send path", {"monitor": "panic"}, "panic in send path", {"output": o[-4000:]})
        else:
            chk.broken("correspondence harness TestVerifC09 no longer runs against /repo (%s)" % kind, o)
    reported = set()
    for c in cases:
        m = monitor(c)
        if m:
            found = True
            side, text = m
            cid = "cid" in c["variant"]
            sig = {"monitor": text.split(" (")[0].split(" emitted")[0], "cid": cid, "side": side}
            site = "conn.go processHandshakePacket"
            if c["kind"] == "session-export-close":
                # the exporting connection was shut down with Close() before the import
                sig = {"monitor": "record number reused across export/import", "exporter": "closed-with-close_notify"}
                site = "state.go generateState / generateInternalState (the exported sequence number is a snapshot; the exporting Conn keeps emitting from it)"
                text = "%s: the exporting connection's close_notify and the imported connection's first record carry the same (epoch, sequence number) under the same keys" % text
            key = str(sig)
            if key in reported:
                continue
            reported.add(key)
            chk.finding(site, sig, "%s [variant %s mtu %d drop %d dup %d]" % (
                text, c["variant"], c["mtu"], c["drop"], c["dup"]),
                {"how": "handshake of `variant` with MTU `mtu` on the scripted network dropping datagram #drop and "
                        "duplicating #dup; `client`/`server` are the (epoch,seq,type) of every record each side emitted",
                 "case": c})
    ok_model, mo = vlib.coq_make(["theories/Rec/SendRun.vo"])
    if not ok_model:
        chk.broken("model Rec/SendRun.v no longer compiles", mo)
    elif cases:
        terms, owners = [], []
        for i, c in enumerate(cases):
            for side in ("client", "server"):
                terms.append(side_term(c, side))
                owners.append((i, side))
        bad, err = vlib.coq_mismatches("c09", IMPORTS, "c09_case", "c09_ok", terms, shard=40)
        if bad is None:
            chk.broken("correspondence evaluation failed in coqc", err)
        else:
            for j in bad[:1]:
                i, side = owners[j]
                m = monitor(cases[i])
                if m and found:
                    continue   # already reported with its failing input
                chk.finding("conn.go send path", {"monitor": "model-mismatch", "side": side},
                            "record numbers on the wire differ from Rec/Send.v (%s of %s)" % (side, cases[i]["variant"]),
                            {"case": cases[i], "correspondence": "Rec.SendRun.c09_ok"}, no_input=(m is None))
        wraps = [c for c in cases if c["kind"] == "wrap"]
        for c in wraps:
            expect = min(6, 2 ** 48 - 1 - c["wrap_base"] + 1)
            if c["done"] and (c["wrap_ok"] != expect or c["wrap_ok"] + c["wrap_err"] != 6):
                chk.finding("conn.go nextLocalSequenceNumber", {"monitor": "wrap-count"},
                            "from counter %d: %d writes succeeded, model says %d" % (c["wrap_base"], c["wrap_ok"], expect),
                            {"case": c}, no_input=(c["wrap_ok"] <= expect))
    nrec = sum(len(c.get("client") or []) + len(c.get("server") or []) for c in cases)
    nontriv = [c for c in cases if c["done"] and (c["drop"] >= 0 or c["dup"] >= 0 or c["import_epoch"] >= 0 or c["kind"] == "wrap")]
    chk.count("sessions", len(cases), [(c["variant"], c["mtu"], c["drop"], c["dup"], c["import_epoch"], c["kind"], c.get("wrap_base")) for c in nontriv],
              samples=[{k: c[k] for k in ("variant", "mtu", "drop", "dup", "import_epoch")} | {"server_records": (c.get("server") or [])[:12]} for c in nontriv[:2]])
    chk.cov["traces_validated_against_impl"] = len(cases)
    chk.leg_info("sessions", records_on_wire=nrec, not_completed=sum(1 for c in cases if not c["done"]),
                 variants=sorted({c["variant"] for c in cases}))
    if not proved and not found:
        where, pout = getattr(chk, "proof_error", ("?", ""))
        chk.broken("proof obligation Properties/C09.v no longer checks (%s)" % where, pout)
    # DTLS 1.3 record layer: model Rec/Rec13.v, theorems Properties/C09rec13.v, correspondence legs
    import rec13lib
    rec13lib.run_c09(chk)
    chk.finish(
        level="proof",
        rule="whole DTLS 1.2 sessions in a synctest bubble: each of the first datagrams dropped once (retransmission of every "
             "flight), small MTUs (fragmented flights), duplicated datagrams, 1-3 concurrent writers per side, Close alerts, "
             "export/import of the server session, counter preset at 2^48-1-{0,1,3}; DTLS 1.3 sessions (loss, concurrent writers, "
             "key updates on both sides) with every record opened to read its encrypted number. Non-trivial = session with a fault, an "
             "import or a preset; distinct by (variant, mtu, drop, dup, import, preset).",
        assumptions=["the write lock serialises allocation+marshalling under the Go memory model (schedules are sampled by the runtime; "
                     "the model treats each emission as atomic)",
                     "distinct record numbers give distinct nonces: nonce layout injectivity is C10's theorem"])
