"""C09 nonce uniqueness: theorems Properties/C09.v over the send-side counter model + wire capture
of whole sessions (loss -> retransmissions, fragmentation, concurrent writers, alerts,
export/import, counter preset near 2^48) compared record by record with the model."""
import collections
import vlib
from vlib import cN, clist

IMPORTS = "From DtlsV Require Import Lib.Bytes Rec.WindowRun Rec.Send Rec.SendRun."
IMPORTS_X = "From DtlsV Require Import Lib.Bytes Rec.WindowRun Rec.Send Rec.SendRun Rec.SendExport Rec.SendExportRun."
SITE_X = "conn.go ConnectionState / state.go generateState, generateInternalState (sequence number handed out by an export)"


def monitor_union(pre, recs):
    """C09's own predicate over the records of the exporting connection up to the export moment
    followed by the records of the imported connection."""
    seen, last = {}, {}
    for i, r in enumerate(pre + recs):
        who = "exporting" if i < len(pre) else "imported"
        if r["e"] < 0:
            continue
        k = (r["e"], r["s"])
        if k in seen:
            return "record number (epoch %d, seq %d) emitted twice: by the %s connection (record #%d) and by the %s connection (record #%d)" % (
                r["e"], r["s"], seen[k][1], seen[k][0], who, i)
        seen[k] = (i, who)
        if r["e"] in last and r["s"] <= last[r["e"]]:
            return "sequence numbers of epoch %d not increasing across export/import (%d emitted by the %s connection after %d)" % (
                r["e"], r["s"], who, last[r["e"]])
        last[r["e"]] = r["s"]
        if r["s"] > 2 ** 48 - 1:
            return "sequence number above 2^48-1"
    return None


def monitor_export(c):
    """first import of the case whose union violates the predicate: (import, text)"""
    orig = c.get("orig") or []
    for im in c.get("imports") or []:
        if im.get("err"):
            continue
        t = monitor_union(orig[:im["prefix"]], im.get("recs") or [])
        if t:
            return im, t
    return None


def export_term(c):
    pr = lambda l: clist(["(%d,%d)" % (r["e"], r["s"]) for r in l if r["e"] >= 0])
    imps = sorted([im for im in (c.get("imports") or []) if not im.get("err")], key=lambda im: im["prefix"])
    return "(%s, %s)" % (pr(c.get("orig") or []),
                         clist(["(%d%%nat, %d, %s)" % (im["prefix"], im["epoch"], pr(im.get("recs") or [])) for im in imps]))


def prove_export(chk):
    """Properties/C09export.v (export/import as operations of the history)"""
    import re
    ok, out = vlib.coq_make(["theories/Properties/C09export.vo", "theories/Rec/SendExportRun.vo"])
    if not ok:
        m = re.search(r'File "([^"]+)", line (\d+)', out)
        chk.broken("proof obligation Properties/C09export.v no longer checks (%s)" % (("%s:%s" % m.groups()) if m else "?"), out)
        return False
    ok2, theorems, atext = vlib.coq_assumptions("C09export")
    closed = atext.count("Closed under the global context")
    axioms = sorted(set(re.findall(r"^([A-Za-z0-9_.']+)\s*:", atext, re.M)))
    chk.cov["obligations"] = chk.cov.get("obligations", 0) + len(theorems)
    chk.cov["discharged"] = chk.cov.get("discharged", 0) + (len(theorems) if ok2 else 0)
    chk.cov["theorems"] = list(chk.cov.get("theorems", [])) + theorems
    chk.leg_info("export-proof", theorems=theorems, closed=closed, axioms=axioms,
                 checker_cmd="cd /verif/coq && make -j16 theories/Properties/C09export.vo")
    if not ok2 or axioms or closed != len(theorems):
        chk.broken("Print Assumptions of Properties/C09export.v: %d/%d closed, axioms %s" % (closed, len(theorems), axioms), atext)
        return False
    return True


def run_export(chk):
    """export leg: k >= 1 exports at different moments of one connection, every State imported"""
    out = vlib.out_path("c09x")
    rc, o = vlib.go_test(".", "^TestVerifC09Export$", {"VERIF_SEED": chk.seed, "VERIF_TIER": chk.tier, "VERIF_OUT": out},
                         tags=["c09"], timeout=2400)
    cases = vlib.read_jsonl(out)
    vlib.cleanup(out)
    found = False
    if rc != 0:
        kind = vlib.classify_go_failure(o)
        if kind == "panic":
            found = True
            chk.finding(SITE_X, {"monitor": "panic", "leg": "export"}, "panic in export/import/send path", {"output": o[-4000:]})
        else:
            chk.broken("correspondence harness TestVerifC09Export no longer runs against /repo (%s)" % kind, o)
    how = ("handshake of `variant` (MTU `mtu`, datagram #drop dropped) in the bubble; the `side` connection then performs "
           "sched[k] application writes followed by ConnectionState() #k for k = 0,1,...; every State is resumed as returned "
           "(`direct`) and after MarshalBinary/UnmarshalBinary (`gob`) with resumeWithConfig/ResumeWithOptions on a side "
           "transport and writes `after` datagrams, then Close. `orig` = records of the exporting connection in emission "
           "order, orig[:prefix] = those emitted before export #export; `recs` = records of the imported connection")
    reported = set()
    for c in cases:
        m = monitor_export(c)
        if not m:
            continue
        found = True
        im, text = m
        nth = "first" if im["export"] == 0 else "later"
        kind = "record-number-reused-after-import" if "emitted twice" in text else (
            "sequence-not-increasing-after-import" if "not increasing" in text else "sequence-number-above-limit")
        sig = {"monitor": kind, "leg": "export", "export": nth}
        if str(sig) in reported:
            continue
        reported.add(str(sig))
        chk.finding(SITE_X, sig,
                    "%s [variant %s, %s exported, writes before each export %s, export #%d (%s, %s) carried sequence number %d "
                    "after %d records of the exporting connection]" % (
                        text, c["variant"], c["side"], c["sched"], im["export"], im["via"], im["api"], im["seq"], im["prefix"]),
                    {"how": how, "failing_import": im, "emitted_before_export": (c.get("orig") or [])[:im["prefix"]],
                     "case": {k: c[k] for k in ("variant", "side", "mtu", "drop", "writers", "sched", "after")},
                     "test": "VERIF_SEED=%s go test -tags verif -run ^TestVerifC09Export$" % chk.seed})
    errs = [(c, im) for c in cases for im in (c.get("imports") or []) if im.get("err")]
    for c, im in errs[:1]:
        chk.finding(SITE_X, {"monitor": "exported-state-not-importable", "leg": "export"},
                    "a State returned by ConnectionState() of an established DTLS 1.2 connection could not be resumed/written: %s" % im["err"],
                    {"how": how, "failing_import": im, "case": {k: c[k] for k in ("variant", "side", "mtu", "drop", "writers", "sched", "after")}})
        found = True
    done = [c for c in cases if c["done"]]
    if done:
        terms = [export_term(c) for c in done]
        bad, err = vlib.coq_mismatches("c09x", IMPORTS_X, "c09x_case", "c09x_ok", terms, shard=40)
        if bad is None:
            chk.broken("correspondence evaluation (export leg) failed in coqc", err)
        else:
            for j in bad[:1]:
                c = done[j]
                m = monitor_export(c)
                if m and found:
                    continue
                chk.finding(SITE_X, {"monitor": "model-mismatch", "leg": "export"},
                            "record numbers of exporting/imported connections differ from Rec/SendExport.v (%s of %s)" % (c["side"], c["variant"]),
                            {"how": how, "case": c, "correspondence": "Rec.SendExportRun.c09x_ok"}, no_input=(m is None))
    nimp = sum(len(c.get("imports") or []) for c in cases)
    multi = [c for c in done if len(c["sched"]) > 1]
    chk.count("export", len(cases), [(c["variant"], c["side"], c["mtu"], c["drop"], c["writers"], tuple(c["sched"]), c["after"]) for c in done],
              samples=[{k: c[k] for k in ("variant", "side", "sched", "after")} | {"imports": (c.get("imports") or [])[:2]} for c in multi[:2]])
    chk.cov["traces_validated_against_impl"] = chk.cov.get("traces_validated_against_impl", 0) + len(cases)
    chk.leg_info("export", sessions=len(cases), not_completed=len(cases) - len(done), imports=nimp,
                 sessions_with_several_exports=len(multi),
                 records_on_wire=sum(len(c.get("orig") or []) for c in cases) + sum(len(im.get("recs") or []) for c in cases for im in (c.get("imports") or [])))
    return found


def monitor(c):
    for side in ("client", "server"):
        recs = c.get(side) or []
        seen = {}
        last = {}
        for i, r in enumerate(recs):
            k = (r["e"], r["s"])
            if k in seen:
                return side, "record number (epoch %d, seq %d) emitted twice by the %s (records #%d and #%d, types %d/%d)" % (
                    r["e"], r["s"], side, seen[k], i, recs[seen[k]]["ct"], r["ct"])
            seen[k] = i
            if r["e"] in last and r["s"] <= last[r["e"]]:
                return side, "sequence numbers of epoch %d not increasing at the %s (%d after %d)" % (
                    r["e"], side, r["s"], last[r["e"]])
            last[r["e"]] = r["s"]
            if r["s"] > 2 ** 48 - 1:
                return side, "sequence number above 2^48-1"
    if c["kind"] == "wrap":
        room = 2 ** 48 - 1 - c["wrap_base"] + 1
        if c["wrap_ok"] > room:
            return "client", "write succeeded past 2^48-1 (base %d, %d ok)" % (c["wrap_base"], c["wrap_ok"])
    return None


def side_term(c, side):
    recs = c.get(side) or []
    before = [(r["e"], r["s"]) for r in recs if r["ph"] == 0]
    after = [(r["e"], r["s"]) for r in recs if r["ph"] == 1]
    imp = c["import_epoch"] if (side == "server" and c["import_epoch"] >= 0) else 0
    if side != "server":
        before, after = before + after, []
    preset = []
    if c["kind"] == "wrap" and side == "client":
        preset = [(1, c["wrap_base"])]
    pr = lambda l: clist(["(%d,%d)" % x for x in l])
    return "(%s, %d, %s, %s)" % (pr(before), imp, pr(after), pr(preset))


def run(chk):
    proved = chk.prove()
    out = vlib.out_path("c09")
    rc, o = vlib.go_test(".", "^TestVerifC09$", {"VERIF_SEED": chk.seed, "VERIF_TIER": chk.tier, "VERIF_OUT": out},
                         tags=["c09"], timeout=2400)
    cases = vlib.read_jsonl(out)
    vlib.cleanup(out)
    # DTLS 1.3 leg: encrypted sequence numbers, opened with the sender's write generations
    out13 = vlib.out_path("c09v13")
    rc13, o13 = vlib.go_test(".", "^TestVerifC09V13$", {"VERIF_SEED": chk.seed, "VERIF_TIER": chk.tier, "VERIF_OUT": out13},
                             tags=["c09", "c09v13", "c20"], timeout=2400)
    cases += vlib.read_jsonl(out13)
    vlib.cleanup(out13)
    if rc13 != 0 and rc == 0:
        rc, o = rc13, o13
    found = False
    if rc != 0:
        kind = vlib.classify_go_failure(o)
        if kind == "panic":
            found = True
            chk.finding("conn.go send path", {"monitor": "panic"}, "panic in send path", {"output": o[-4000:]})
        else:
            chk.broken("correspondence harness TestVerifC09 no longer runs against /repo (%s)" % kind, o)
    reported = set()
    for c in cases:
        m = monitor(c)
        if m:
            found = True
            side, text = m
            cid = "cid" in c["variant"]
            sig = {"monitor": text.split(" (")[0].split(" emitted")[0], "cid": cid, "side": side}
            site = "conn.go processHandshakePacket"
            if c["kind"] == "session-export-close":
                # the exporting connection was shut down with Close() before the import
                sig = {"monitor": "record number reused across export/import", "exporter": "closed-with-close_notify"}
                site = "state.go generateState / generateInternalState (the exported sequence number is a snapshot; the exporting Conn keeps emitting from it)"
                text = "%s: the exporting connection's close_notify and the imported connection's first record carry the same (epoch, sequence number) under the same keys" % text
            key = str(sig)
            if key in reported:
                continue
            reported.add(key)
            chk.finding(site, sig, "%s [variant %s mtu %d drop %d dup %d]" % (
                text, c["variant"], c["mtu"], c["drop"], c["dup"]),
                {"how": "handshake of `variant` with MTU `mtu` on the scripted network dropping datagram #drop and "
                        "duplicating #dup; `client`/`server` are the (epoch,seq,type) of every record each side emitted",
                 "case": c})
    ok_model, mo = vlib.coq_make(["theories/Rec/SendRun.vo"])
    if not ok_model:
        chk.broken("model Rec/SendRun.v no longer compiles", mo)
    elif cases:
        terms, owners = [], []
        for i, c in enumerate(cases):
            for side in ("client", "server"):
                terms.append(side_term(c, side))
                owners.append((i, side))
        bad, err = vlib.coq_mismatches("c09", IMPORTS, "c09_case", "c09_ok", terms, shard=40)
        if bad is None:
            chk.broken("correspondence evaluation failed in coqc", err)
        else:
            for j in bad[:1]:
                i, side = owners[j]
                m = monitor(cases[i])
                if m and found:
                    continue   # already reported with its failing input
                chk.finding("conn.go send path", {"monitor": "model-mismatch", "side": side},
                            "record numbers on the wire differ from Rec/Send.v (%s of %s)" % (side, cases[i]["variant"]),
                            {"case": cases[i], "correspondence": "Rec.SendRun.c09_ok"}, no_input=(m is None))
        wraps = [c for c in cases if c["kind"] == "wrap"]
        for c in wraps:
            expect = min(6, 2 ** 48 - 1 - c["wrap_base"] + 1)
            if c["done"] and (c["wrap_ok"] != expect or c["wrap_ok"] + c["wrap_err"] != 6):
                chk.finding("conn.go nextLocalSequenceNumber", {"monitor": "wrap-count"},
                            "from counter %d: %d writes succeeded, model says %d" % (c["wrap_base"], c["wrap_ok"], expect),
                            {"case": c}, no_input=(c["wrap_ok"] <= expect))
    nrec = sum(len(c.get("client") or []) + len(c.get("server") or []) for c in cases)
    nontriv = [c for c in cases if c["done"] and (c["drop"] >= 0 or c["dup"] >= 0 or c["import_epoch"] >= 0 or c["kind"] == "wrap")]
    chk.count("sessions", len(cases), [(c["variant"], c["mtu"], c["drop"], c["dup"], c["import_epoch"], c["kind"], c.get("wrap_base")) for c in nontriv],
              samples=[{k: c[k] for k in ("variant", "mtu", "drop", "dup", "import_epoch")} | {"server_records": (c.get("server") or [])[:12]} for c in nontriv[:2]])
    chk.cov["traces_validated_against_impl"] = len(cases)
    chk.leg_info("sessions", records_on_wire=nrec, not_completed=sum(1 for c in cases if not c["done"]),
                 variants=sorted({c["variant"] for c in cases}))
    if not proved and not found:
        where, pout = getattr(chk, "proof_error", ("?", ""))
        chk.broken("proof obligation Properties/C09.v no longer checks (%s)" % where, pout)
    # export/import as operations of the history: model Rec/SendExport.v, theorems Properties/C09export.v
    if proved:
        prove_export(chk)
    run_export(chk)
    # DTLS 1.3 record layer: model Rec/Rec13.v, theorems Properties/C09rec13.v, correspondence legs
    import rec13lib
    rec13lib.run_c09(chk)
    chk.finish(
        level="proof",
        rule="whole DTLS 1.2 sessions in a synctest bubble: each of the first datagrams dropped once (retransmission of every "
             "flight), small MTUs (fragmented flights), duplicated datagrams, 1-3 concurrent writers per side, Close alerts, "
             "export/import of the server session, counter preset at 2^48-1-{0,1,3}; export leg: 1-4 ConnectionState() calls at "
             "different moments of one connection (client or server; right after the handshake, after 0-6 more writes each), "
             "every State resumed as returned and through MarshalBinary/UnmarshalBinary, 1-4 writes + Close on the imported "
             "connection, C09's predicate over (records before that export) ++ (records of the import); DTLS 1.3 sessions (loss, concurrent writers, "
             "key updates on both sides) with every record opened to read its encrypted number. Non-trivial = session with a fault, an "
             "import or a preset; distinct by (variant, mtu, drop, dup, import, preset).",
        assumptions=["the write lock serialises allocation+marshalling under the Go memory model (schedules are sampled by the runtime; "
                     "the model treats each emission as atomic)",
                     "distinct record numbers give distinct nonces: nonce layout injectivity is C10's theorem"])
