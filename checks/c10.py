"""C10 wire conformance: theorems Properties/C10.v + byte-for-byte correspondence of the real Go
derivation / record-protection functions with the independent Gallina implementation
(Crypto/C10*.v, written from the RFC text) evaluated in Coq on the same inputs.

Every harness observation is a generic case {fn, h, in[], n[], out[]}; Crypto/C10Run.v
`case_ok` recomputes `out` from (fn, h, in, n) and compares. The property's own predicate IS this
equality, so a mismatching case is a failing input of the property (replay = the case plus the
model's value).

Leg `handshake12` is the passive-decoder view of live DTLS 1.2 handshakes: the handshake messages are
reassembled from the captured datagrams in wire order (never from pion's handshake cache / pull rules),
both Finished records are opened with keys derived from the key-log master secret, and function codes
13/14 (Finished verify_data), 15 (CertificateVerify input, signature checked with the client's public key
by Go's stdlib), 17 / 2 (extended / plain master secret) are recomputed by Crypto/C10Transcript.v."""
import re

import vlib
from vlib import cN, cNlist, clist, chex

IMPORTS = "From DtlsV Require Import Lib.Bytes Crypto.C10Run."

SITE_RX = "pkg/crypto/ciphersuite (receive direction)"
SITE_HS = "internal/flight/flight12 handshake_messages (Finished verify_data, CertificateVerify, session hash)"

SITE_KU = ("internal/handshake/post_handshake.go nextTrafficGeneration (DTLS 1.3 key update: "
           "application_traffic_secret_N chain and the record keys of every epoch)")
KU_MONITOR = "record of a key-updated epoch does not open under the keys of application_traffic_secret_N"
KU_DELIVERY = "application data written after a key update is not delivered by the peer"
KU_HOW = ("DTLS 1.3 handshake with the named suite (harness/overlay/root/zz_verif_c10_ku_test.go, variant = "
          "suite/pattern/updates), then the calls listed in `script` (Conn.UpdateKeys / Conn.Write on a perfect "
          "network, every call awaited); capture every datagram; derive application_traffic_secret_g = "
          "HKDF-Expand-Label(application_traffic_secret_{g-1}, \"traffic upd\", \"\", Hash.length) from `secret_0`, "
          "then key / iv / sn (RFC 8446 7.3, RFC 9147 4.2.3) and open `record` (unmask the sequence number, "
          "nonce = iv xor seq, additional data = the unified header with the clear sequence number)")

# (leg, package, test regexp, site reported for mismatches)
HARNESSES = [
    # the first two legs start with the regression corpus (former failing inputs of the fixed defects
    # F8 "CBC connection-ID MAC" and F7 "DTLS 1.3 exporter keyed with the empty secret")
    ("suite", "./pkg/crypto/ciphersuite", "^TestVerifC10Suite$", "pkg/crypto/ciphersuite"),
    ("exporter", ".", "^TestVerifC10ExporterUnit$", "state.go ExportKeyingMaterial"),
    ("exporter-e2e", ".", "^TestVerifC10ExporterE2E$", "state.go ExportKeyingMaterial"),
    ("prf", "./pkg/crypto/prf", "^TestVerifC10Prf$", "pkg/crypto/prf/prf.go"),
    # RFC 4279 premaster secret for keys of 0 .. 2^16+4 bytes (65532..65535 used to panic / wrap), compared
    # through a projection (function code 19) because such a key cannot be written out in a case file
    ("premaster-long", "./pkg/crypto/prf", "^TestVerifC10PremasterLongPSK$", "pkg/crypto/prf/prf.go PSKPreMasterSecret"),
    ("ccm", "./pkg/crypto/ciphersuite", "^TestVerifC10CCMMode$", "pkg/crypto/ccm/ccm.go"),
    ("suites12", "./internal/ciphersuite", "^TestVerifC10Suites12$", "internal/ciphersuite Init/Encrypt"),
    ("keyschedule", "./pkg/crypto/keyschedule", "^TestVerifC10KeySchedule$", "pkg/crypto/keyschedule/keyschedule.go"),
    ("schedule13", "./internal/handshake", "^TestVerifC10Schedule13$", "internal/handshake/traffic_secrets.go"),
    ("keymessage", "./internal/handshakecrypto", "^TestVerifC10KeyMessage$", "internal/handshakecrypto/crypto.go ValueKeyMessage"),
    ("live", ".", "^TestVerifC10Live$", "conn.go record protection (live traffic, key-log keyed decoder)"),
    # live DTLS 1.2 handshakes seen by a passive decoder holding the key log: every handshake message
    # reassembled from the captured datagrams in WIRE order, both Finished records opened with keys derived
    # from the logged master secret; verify_data / CertificateVerify input / extended master secret are
    # recomputed by the model (Crypto/C10Transcript.v) over that wire-order transcript
    ("handshake12", ".", "^TestVerifC10Handshake12$", SITE_HS),
    # DTLS 1.3: SignatureScheme of CertificateVerify for P-256 / P-384 keys, key log lines of both sides
    ("handshake13", ".", "^TestVerifC10Handshake13$", SITE_HS),
    # DTLS 1.3 key-update chains: live connections re-keyed 3..5 times (thorough: up to 40) per direction, every
    # captured record of epochs 3, 4, 5, ... opened by a passive decoder that derives application_traffic_secret_n
    # from secret 0 with its own HKDF; fn 57 / 58 compared with traffic_secret_n of Crypto/C10Hkdf.v
    ("keyupdate13", ".", "^TestVerifC10KeyUpdate13$", SITE_KU),
    ("record13", "./internal/ciphersuite", "^TestVerifC10Record13$", "internal/ciphersuite/tls_13_record_protection.go"),
    # receive direction: records a conforming peer may send (explicit nonce != epoch||seq, extra padding, ...)
    ("receive12", "./internal/ciphersuite", "^TestVerifC10Receive12$", SITE_RX),
    ("receive13", "./internal/ciphersuite", "^TestVerifC10Receive13$", SITE_RX),
]


def term(c):
    return "(%d, %d, %s, %s, %s)" % (c["fn"], c["h"], clist([chex(x) for x in c["in"]]),
                                     cNlist(c["n"]), clist([chex(x) for x in c["out"]]))


def model_value(c, name):
    """Ask Coq for the model's outputs on one case (for the replay file)."""
    txt = ("From Coq Require Import List NArith.\nImport ListNotations.\n" + IMPORTS +
           "\nOpen Scope N_scope.\nDefinition v := Eval vm_compute in expected %s.\nPrint v.\n" % term(c))
    ok, out = vlib.coq_run(txt, name, timeout=300)
    if not ok:
        return None
    m = re.search(r"v\s*=\s*(.*?)\n\s*:", out, re.S)
    if not m:
        return None
    body = m.group(1)
    if "None" in body:
        return "None (model does not define this function code / arity)"
    lists = re.findall(r"\[([0-9;\s]*)\]", body)
    return ["".join("%02x" % int(x) for x in re.findall(r"\d+", l)) for l in lists]


HASHES = {256: "sha256", 384: "sha384", 512: "sha512", 1: "sha1"}


def py_p_hash(hname, secret, seed, n):
    """TLS 1.2 P_hash with Python's hmac - used only by the implementation-side monitor below"""
    import hashlib
    import hmac
    h = getattr(hashlib, hname)
    out, a = b"", seed
    while len(out) < n:
        a = hmac.new(secret, a, h).digest()
        out += hmac.new(secret, a + seed, h).digest()
    return out[:n]


def monitor(c):
    """the property's own predicates evaluated on one implementation observation; None or a description.
    (1) regression corpus: the output is the recorded RFC value;
    (2) a DTLS 1.3 exporter output is not computable from the two hello randoms alone."""
    if c.get("expect") and (not c["out"] or c["out"][0] != c["expect"]):
        return "regression corpus case no longer yields the recorded RFC value %s" % c["expect"]
    if c["fn"] == 61 and c.get("cr") and c.get("sr") and c["n"] and c["n"][0] > 0:
        label = bytes.fromhex(c["in"][1])
        pub = py_p_hash(HASHES.get(c["h"], "sha256"), b"", label + bytes.fromhex(c["cr"]) + bytes.fromhex(c["sr"]),
                        c["n"][0])
        if c["out"] and bytes.fromhex(c["out"][0]) == pub:
            return "DTLS 1.3 exporter output equals P_hash(\"\", label || client_random || server_random): " \
                   "computable by anyone who saw the hello messages"
    return None


def nontrivial(c):
    return any(len(o) > 0 for o in c["out"])


def key_of(c):
    if c.get("hs"):
        return (c["fn"], c["hs"]["variant"], c["hs"].get("side", ""), c["hs"]["check"], c["hs"].get("label", ""))
    if c.get("rx"):
        return (c["fn"], c["rx"]["suite"], c["rx"]["record"])
    if c.get("ku"):
        return (c["fn"], c["ku"]["variant"], c["ku"]["direction"], c["ku"]["generation"], c["ku"]["check"])
    return (c["fn"], c["h"], tuple(c["in"]), tuple(c["n"]))


def monitor_rx(c):
    """receive-direction predicate: a record built per RFC must be accepted with the right plaintext,
    a record with one bit changed must be rejected. Returns None or (signature, description)."""
    rx = c.get("rx")
    if not rx:
        return None
    if rx["want"] == 1 and rx["got"] != 1:
        return ({"monitor": "conforming record rejected", "suite": rx["family"]},
                "%s: a record built per RFC by a conforming peer (%s) is rejected by Decrypt/Open: %s" % (
                    rx["suite"], ("explicit nonce: " + rx["nonce_mode"]) if rx.get("nonce_mode") else c.get("tag", ""),
                    rx.get("err", "")))
    if rx["want"] == 0 and rx["got"] != 0:
        return ({"monitor": "forged record accepted", "suite": rx["family"], "control": rx.get("control", "")},
                "%s: a record with one bit of `%s` changed is accepted" % (rx["suite"], rx.get("control", "")))
    return None


def monitor_ku(c):
    """key-update predicate (the property's own): every record captured from a direction in epoch 3+g opens under
    key / iv / sn of application_traffic_secret_g, g-fold "traffic upd" of secret 0, computed by the passive
    decoder of the harness. Returns None or (signature, description)."""
    ku = c.get("ku")
    if not ku or ku.get("check") != "records":
        return None
    if ku["bad"]:
        under = ku["opened_under"]
        return ({"monitor": KU_MONITOR, "direction": ku["direction"]},
                "%s: %s, records written by the %s in epoch %d (its key update number %d): %d of %d captured records "
                "open under key/iv/sn of application_traffic_secret_%d derived from secret 0; the record in datagram "
                "%d %s" % (KU_MONITOR, ku["variant"], ku["direction"], ku["epoch"], ku["generation"], ku["opened"],
                           ku["records"], ku["generation"], ku["datagram"],
                           ("opens under the keys of application_traffic_secret_%d instead" % under) if under >= 0
                           else "opens under none of the generations 0..%d" % (ku["updates"] + 1)))
    if not ku["delivered_to_peer"]:
        return ({"monitor": KU_DELIVERY, "direction": ku["direction"]},
                "%s: %s, the %s's Write under generation %d was not returned by the peer's Read" % (
                    KU_DELIVERY, ku["variant"], ku["direction"], ku["generation"]))
    return None


HS_MONITORS = {
    13: "finished verify_data differs from PRF over the wire-order transcript",
    14: "finished verify_data differs from PRF over the wire-order transcript",
    17: "extended master secret differs from PRF over the wire-order session hash",
    2: "master secret differs from PRF(pre_master_secret, \"master secret\", randoms)",
}
HS_FORMULA = {
    13: "PRF(master_secret, \"client finished\", Hash(handshake_messages))[0..11]  (RFC 5246 7.4.9)",
    14: "PRF(master_secret, \"server finished\", Hash(handshake_messages))[0..11]  (RFC 5246 7.4.9)",
    17: "PRF(pre_master_secret, \"extended master secret\", Hash(handshake_messages through ClientKeyExchange))[0..47]"
        "  (RFC 7627 4)",
    2: "PRF(pre_master_secret, \"master secret\", client_random + server_random)[0..47]  (RFC 5246 8.1)",
}
CV_MONITOR = "CertificateVerify signature does not verify over the wire-order transcript"
HS_HOW = ("run a DTLS 1.2 handshake of the named variant (harness/overlay/root/zz_verif_c10_hs_test.go "
          "c10HSVariants) with a KeyLogWriter on the client, capture every datagram, reassemble the epoch-0 "
          "handshake messages in the order they appear on the wire (`message_order`; in = secret followed by "
          "the message bodies, n = msg_type,message_seq per body), open both epoch-1 Finished records with "
          "keys derived from the CLIENT_RANDOM key-log line, and compare with the RFC formula over "
          "handshake_messages = the wire-order messages after the HelloVerifyRequest, each with a 12-byte "
          "single-fragment header (RFC 6347 4.2.1 / 4.2.6)")


SITE_KEYLOG = "KeyLogWriter (internal/config HandshakeConfig.WriteKeyLog and its callers)"
SITE_SKE = "pkg/protocol/handshake/message_server_key_exchange.go Marshal (PSK / ECDHE_PSK)"
SITE_CV13 = "pkg/crypto/signaturehash SelectSignatureScheme13 (DTLS 1.3 CertificateVerify)"
KEYLOG_MONITOR = "key log line not found under ClientHello.random"
SKE_MONITOR = "ServerKeyExchange is not psk_identity_hint<0..2^16-1> || ServerECDHParams"
CV13_MONITOR = "DTLS 1.3 CertificateVerify scheme does not name the curve of the signing key"


def hs_wire_fact(c, model):
    """live-handshake facts other than the transcript formulas (function codes 16, 18, 64):
    (site, stable signature, description, extra replay fields) of a deviating case"""
    hs = c["hs"]
    if c["fn"] == 18:
        if hs.get("version") == "DTLS 1.3":
            sig = {"monitor": KEYLOG_MONITOR, "version": "DTLS 1.3"}
        else:
            sig = {"monitor": KEYLOG_MONITOR, "version": hs.get("version", "DTLS 1.2"), "side": hs.get("side"),
                   "resumed": bool(hs.get("resumed"))}
        wcr, lcr, lsec, sec = c["in"]
        if not lcr:
            why = "the log has no %s line at all" % hs.get("label")
        elif lcr != wcr:
            why = "its %s line is filed under %s" % (hs.get("label"), lcr)
        else:
            why = "the secret of its %s line is not the one the records are protected with" % hs.get("label")
        what = ("%s: %s handshake %s (%s), %s key log: a passive decoder looks for `%s %s <secret>` "
                "(ClientHello.random as sent on the wire) but %s" % (
                    KEYLOG_MONITOR, hs.get("version"), hs["variant"], hs["suite"], hs.get("side"), hs.get("label"),
                    wcr, why))
        return SITE_KEYLOG, sig, what, {
            "how": "run the handshake of the named variant with a KeyLogWriter on both sides; in = ClientHello.random "
                   "from the wire, the random and secret columns of the best matching key log line (empty: no line "
                   "with that label), the secret of the connection", "label": hs.get("label"),
            "key_log": hs.get("key_log", ""), "wire_client_random": wcr}
    if c["fn"] == 16:
        sig = {"monitor": SKE_MONITOR, "key_exchange": hs.get("key_exchange"), "hint": hs.get("hint")}
        what = ("%s: handshake %s (%s), server identity hint %s: the ServerKeyExchange body on the wire is %s, "
                "RFC 4279 2 / RFC 5489 2 prescribe %s" % (
                    SKE_MONITOR, hs["variant"], hs["suite"], hs.get("hint"), c["out"][0],
                    (model[0] if isinstance(model, list) and model else model)))
        return SITE_SKE, sig, what, {
            "how": "DTLS 1.2 handshake with the named PSK suite; in = the server's configured psk_identity_hint "
                   "(empty: none) and the ECDH point found at the end of the message, n = named curve; out = "
                   "the ServerKeyExchange body captured from the wire"}
    sig = {"monitor": CV13_MONITOR, "key": hs.get("key"), "scheme": hs.get("scheme")}
    what = ("%s: handshake %s (%s): the server's CertificateVerify, made with a %s key, is sent and accepted under "
            "SignatureScheme %s; RFC 8446 4.2.3 assigns that curve %s" % (
                CV13_MONITOR, hs["variant"], hs["suite"], hs.get("key"), hs.get("scheme"),
                ("0x" + model[0]) if isinstance(model, list) and model else model))
    return SITE_CV13, sig, what, {
        "how": "DTLS 1.3 handshake, server certificate with an ECDSA key on the named curve (n = its NamedGroup); out = "
               "the SignatureScheme of the server's CertificateVerify as the client accepted it"}


def signature_of(c):
    """canonical failing-case signature: which function (and variant) deviates"""
    return {"monitor": "rfc-formula-mismatch", "function": c.get("tag", str(c["fn"]))}


def _cleanup_cases():
    """remove this run's scratch case files (vlib.coq_run leaves the .v sources behind)"""
    import glob
    import os
    d = os.path.join(vlib.WORK, "cases")
    for f in glob.glob(os.path.join(d, "c10_%d_*" % os.getpid())) + glob.glob(os.path.join(d, "c10val_*")):
        vlib.cleanup(f)


def run(chk):
    proved = chk.prove(extra_targets=["theories/Crypto/C10Run.vo"])
    env = {"VERIF_SEED": chk.seed, "VERIF_TIER": chk.tier}
    found_input = False
    legs = []
    failed = {}
    for leg, pkg, rx, site in HARNESSES:
        out = vlib.out_path("c10" + leg)
        rc, o = vlib.go_test(pkg, rx, dict(env, VERIF_OUT=out), timeout=1800, tags=["c10"])
        cases = vlib.read_jsonl(out)
        vlib.cleanup(out)
        if rc != 0:
            kind = vlib.classify_go_failure(o)
            if kind == "panic":
                chk.finding(site, {"monitor": "panic", "test": rx}, "panic in " + rx,
                            {"test": rx, "output": o[-3000:]})
                found_input = True
            elif kind == "build" or not cases:
                chk.broken("correspondence harness %s no longer runs against /repo (%s)" % (rx, kind), o)
                continue
            else:
                # a self-check of the harness failed (e.g. the library no longer opens its own record);
                # the observations emitted before that are still compared - if none of them deviates
                # from the model the failure is reported as broken machinery below
                failed[leg] = (rx, kind, o)
        elif not cases:
            chk.broken("correspondence harness %s produced no cases" % rx, o)
            continue
        legs.append((leg, site, cases))

    ok_model, mo = vlib.coq_make(["theories/Crypto/C10Run.vo"])
    if not ok_model:
        chk.broken("model Crypto/C10Run.v no longer compiles", mo)
    else:
        # implementation-side monitors (regression corpus values, exporter secrecy consequence)
        allc = [(leg, site, c) for leg, site, cases in legs for c in cases]
        mon_reported = set()
        rx_failed = set()
        for idx, (leg, site, c) in enumerate(allc):
            mr = monitor_rx(c)
            if mr:
                rx_failed.add(idx)
                sig, what = mr
                if str(sig) not in mon_reported:
                    mon_reported.add(str(sig))
                    found_input = True
                    chk.finding(SITE_RX, sig, what,
                                {"how": "initialise the suite with Init(ms, client_random, server_random, isClient=n[1]) "
                                        "(DTLS 1.2; in = ms, cr, sr, cid, plaintext, explicit nonce / IV) resp. "
                                        "NewRecordProtection(in[0]) (DTLS 1.3) and call Decrypt / Open on rx.record",
                                 "rx": c["rx"], "case": c,
                                 "rerun": "VERIF_SEED=%d bin/check C10 --tier %s" % (chk.seed, chk.tier)})
            mk = monitor_ku(c)
            if mk:
                rx_failed.add(idx)
                sig, what = mk
                if str(sig) not in mon_reported:
                    mon_reported.add(str(sig))
                    found_input = True
                    ku = c["ku"]
                    same = [x["ku"] for _, _, x in allc if x.get("ku") and x["ku"]["check"] == "records"
                            and x["ku"]["direction"] == ku["direction"]]
                    chk.finding(SITE_KU, sig, what,
                                {"how": KU_HOW, "variant": ku["variant"], "suite": ku["suite"],
                                 "direction": ku["direction"], "generation": ku["generation"], "epoch": ku["epoch"],
                                 "script": ku["script"], "secret_0": ku["secret_0"],
                                 "secret_0_source": ku["secret_0_source"], "record": ku.get("record"),
                                 "datagram": ku["datagram"], "reference_keys_of_generation": ku.get("reference"),
                                 "opens_under_generation": ku["opened_under"], "plaintext_then": ku.get("plaintext"),
                                 "failing": sorted({"%s gen %d" % (x["variant"], x["generation"])
                                                    for x in same if x["bad"]})[:40],
                                 "passing_generations": sorted({x["generation"] for x in same if not x["bad"]}),
                                 "case": c,
                                 "correspondence": "Crypto.C10Run.case_ok (function code 57: generation_keys / "
                                                   "traffic_secret_n of Crypto/C10Hkdf.v)",
                                 "rerun": "VERIF_SEED=%d bin/check C10 --tier %s" % (chk.seed, chk.tier)})
            hs = c.get("hs")
            if hs and hs.get("cv_ok") is False and CV_MONITOR not in mon_reported:
                mon_reported.add(CV_MONITOR)
                found_input = True
                same = [x for _, _, x in allc if x.get("hs") and x["hs"].get("cv_ok") is not None]
                chk.finding(SITE_HS, {"monitor": CV_MONITOR, "side": "client"},
                            "%s: handshake %s (%s); the client's signature (algorithm %s) does not verify with the "
                            "public key of its Certificate message over the handshake messages that preceded "
                            "CertificateVerify on the wire [%s]%s" % (
                                CV_MONITOR, hs["variant"], hs["suite"], hs.get("cv_alg", "?"), hs["order"],
                                (" (" + hs["cv_err"] + ")") if hs.get("cv_err") else ""),
                            {"how": HS_HOW + "; the signed input is out[0]", "variant": hs["variant"],
                             "suite": hs["suite"], "message_order": hs["order"],
                             "formula": "signature over handshake_messages up to, not including, CertificateVerify "
                                        "(RFC 5246 7.4.8)",
                             "failing_variants": sorted(x["hs"]["variant"] for x in same if x["hs"]["cv_ok"] is False),
                             "passing_variants": sorted(x["hs"]["variant"] for x in same if x["hs"]["cv_ok"]),
                             "case": c, "rerun": "VERIF_SEED=%d bin/check C10 --tier %s" % (chk.seed, chk.tier)})
            m = monitor(c)
            if m and (c.get("tag"), m[:40]) not in mon_reported:
                mon_reported.add((c.get("tag"), m[:40]))
                found_input = True
                chk.finding(c.get("site") or site, {"monitor": m.split(":")[0][:60], "function": c.get("tag")}, m,
                            {"function": c.get("tag"), "case": c,
                             "rerun": "VERIF_SEED=%d bin/check C10 --tier %s" % (chk.seed, chk.tier)})
        # one parallel evaluation over the cases of all legs
        terms = [term(c) for _, _, c in allc]
        shard = max(8, min(40, len(terms) // 36 + 1))
        bad, err = vlib.coq_mismatches("c10", IMPORTS, "c10_case", "case_ok", terms, shard=shard)
        if bad is None:
            chk.broken("correspondence evaluation failed in coqc", err)
        else:
            badset = set(bad)
            reported = set()
            for i in bad:
                if i in rx_failed:
                    continue  # already reported by the receive-direction monitor
                leg, site, c = allc[i]
                hs = c.get("hs")
                if hs and c["fn"] in HS_MONITORS:
                    # live handshake: one finding per (monitor, side), the first failing variant is the
                    # failing input, the other variants are listed for context
                    sig = {"monitor": HS_MONITORS[c["fn"]], "side": hs.get("side", "")}
                    k = (SITE_HS, str(sig))
                    if k in reported:
                        continue
                    reported.add(k)
                    found_input = True
                    same = [(j, x) for j, (_, _, x) in enumerate(allc)
                            if x.get("hs") and x["fn"] == c["fn"] and x["hs"].get("side") == hs.get("side")]
                    mv = model_value(c, "c10val_%s_%d" % (re.sub(r"[^a-z0-9]", "", leg), i))
                    chk.finding(SITE_HS, sig,
                                "%s: handshake %s (%s), %s: the wire carries %s, the RFC formula over the messages in "
                                "wire order [%s] gives %s" % (
                                    HS_MONITORS[c["fn"]], hs["variant"], hs["suite"], hs["check"] + " / " + hs.get("side", ""),
                                    c["out"][0], hs["order"], (mv[0] if isinstance(mv, list) and mv else mv)),
                                {"how": HS_HOW, "variant": hs["variant"], "suite": hs["suite"], "side": hs.get("side"),
                                 "message_order": hs["order"], "formula": HS_FORMULA[c["fn"]],
                                 "wire_value": c["out"][0], "model_value": mv,
                                 "extended_master_secret": hs.get("ems"), "resumed": hs.get("resumed"),
                                 "certificate_request_on_wire": hs.get("certificate_request"),
                                 "failing_variants": sorted(x["hs"]["variant"] for j, x in same if j in badset),
                                 "passing_variants": sorted(x["hs"]["variant"] for j, x in same if j not in badset),
                                 "case": c,
                                 "correspondence": "Crypto.C10Run.case_ok (function code %d), model "
                                                   "Crypto/C10Transcript.v" % c["fn"],
                                 "rerun": "VERIF_SEED=%d bin/check C10 --tier %s" % (chk.seed, chk.tier)})
                    continue
                if hs and c["fn"] in (16, 18, 64):
                    mv = None
                    if c["fn"] != 18:
                        mv = model_value(c, "c10val_%s_%d" % (re.sub(r"[^a-z0-9]", "", leg), i))
                    fsite, sig, what, extra = hs_wire_fact(c, mv)
                    k = (fsite, str(sig))
                    if k in reported:
                        continue
                    reported.add(k)
                    found_input = True
                    same = [(j, x) for j, (_, _, x) in enumerate(allc) if x.get("hs") and x["fn"] == c["fn"]]

                    def lab(x):
                        return "%s/%s%s" % (x["hs"]["variant"], x["hs"].get("side", ""),
                                            ("/" + x["hs"]["label"]) if x["hs"].get("label") else "")
                    extra.update({"variant": hs["variant"], "suite": hs["suite"], "side": hs.get("side"),
                                  "wire_value": c["out"][0] if c["fn"] != 18 else None, "model_value": mv,
                                  "failing": sorted(lab(x) for j, x in same if j in badset),
                                  "passing": sorted(lab(x) for j, x in same if j not in badset),
                                  "case": c,
                                  "correspondence": "Crypto.C10Run.case_ok (function code %d), model "
                                                    "Crypto/C10Transcript.v" % c["fn"],
                                  "rerun": "VERIF_SEED=%d bin/check C10 --tier %s" % (chk.seed, chk.tier)})
                    chk.finding(fsite, sig, what, extra)
                    continue
                sig = signature_of(c)
                if c.get("ku"):
                    sig = {"monitor": "rfc-formula-mismatch", "function": c.get("tag", str(c["fn"])),
                           "direction": c["ku"]["direction"]}
                k = (c.get("site") or site, str(sig))
                if k in reported:
                    continue
                reported.add(k)
                found_input = True
                mv = model_value(c, "c10val_%s_%d" % (re.sub(r"[^a-z0-9]", "", leg), i))
                chk.finding(c.get("site") or site, sig,
                            "%s: Go output differs from the RFC formula (independent model Crypto/C10*.v)%s"
                            % (c.get("tag", c["fn"]), (" [" + c["note"] + "]") if c.get("note") else ""),
                            {"how": "call the Go function named in `function` with the hex inputs `in` and numeric "
                                    "inputs `n` (hash code h: 256=SHA-256, 384=SHA-384, 512=SHA-512, 1=SHA-1); "
                                    "`go_out` is what /repo returned, `model_out` is the RFC value",
                             "function": c.get("tag"), "case": c, "go_out": c["out"], "model_out": mv,
                             "note": c.get("note", ""),
                             "correspondence": "Crypto.C10Run.case_ok (function code %d)" % c["fn"],
                             "rerun": "VERIF_SEED=%d bin/check C10 --tier %s" % (chk.seed, chk.tier)})
            base = 0
            for leg, site, cases in legs:
                nt = [c for c in cases if nontrivial(c)]
                chk.count(leg, len(cases), [key_of(c) for c in nt], samples=nt[-1:])
                fns = {}
                for c in cases:
                    t = c.get("tag", str(c["fn"]))
                    fns[t] = fns.get(t, 0) + 1
                nbad = sum(1 for i in range(base, base + len(cases)) if i in badset)
                base += len(cases)
                chk.leg_info(leg, functions=fns, mismatching=nbad)
                if leg in failed and nbad == 0:
                    rx, kind, o = failed[leg]
                    chk.broken("correspondence harness %s no longer runs against /repo (%s)" % (rx, kind), o)
                chk.cov["traces_validated_against_impl"] += len(cases)
    _cleanup_cases()
    if not proved:
        where, out = getattr(chk, "proof_error", ("?", ""))
        if not found_input:
            chk.broken("proof obligation Properties/C10.v no longer checks (%s)" % where, out)
    chk.finish(
        level="proof",
        rule="Each evaluation = one call of a real Go function (exported or unexported, in-package) on generated "
             "inputs (or one record / exporter call of a real connection), its outputs compared byte-for-byte with the "
             "independent Gallina implementation of the RFC formula evaluated by vm_compute; function code 63 is the "
             "negative monitor 'DTLS 1.3 exporter output != P_hash(empty, label||hello randoms)'. The suite and exporter "
             "legs start with the regression corpus of the fixed defects (recorded inputs and RFC values). "
             "Leg handshake12: per live DTLS 1.2 handshake variant (certificate suites with / without client auth, "
             "PSK, ECDHE-PSK, EMS on/off, resumption, fragmentation, a lost flight, no HelloVerifyRequest) both "
             "Finished verify_data values read from the wire with key-log keys, the CertificateVerify signature and "
             "the master secret are compared with the RFC formulas over the handshake messages in WIRE order; also the "
             "key log line of BOTH sides under the wire ClientHello.random (fn 18) and the PSK / ECDHE_PSK "
             "ServerKeyExchange encoding (fn 16). Leg handshake13: DTLS 1.3 CertificateVerify scheme versus the "
             "curve of the key (fn 64) and the NSS key log labels of both sides (fn 18). Leg premaster-long: RFC 4279 "
             "premaster secret for keys of 0..2^16+4 bytes through a projection (fn 19). "
             "Leg keyupdate13: live DTLS 1.3 connections (3 suites x alternate / update_requested / burst) re-keyed 5 "
             "times per direction (thorough: up to 40); every captured record of every epoch 3+g must open under "
             "key/iv/sn of application_traffic_secret_g derived from secret 0 by the harness' own HKDF (monitor), and "
             "those values (fn 57) plus the TrafficGeneration.Secret of writer and reader (fn 58) are compared with "
             "traffic_secret_n / generation_keys of the Coq model. "
             "Non-trivial = at least one non-empty output; distinct by (function, hash, inputs).",
        assumptions=["Go stdlib / x/crypto primitives (AES, GCM, ChaCha20-Poly1305, ECDH, ML-KEM) are outside /repo: "
                     "used as oracles for the primitive only; their inputs (key, nonce, AAD) are compared with the model",
                     "the model is hand-written from the RFC text; it is pinned to the standards by the known-answer "
                     "tests proved by kernel evaluation in Crypto/C10Sha2.v, C10Hmac.v, C10Hkdf.v"])


def replay(chk, path):
    """Replay = rerun the whole (seed-deterministic) check with the seed and tier recorded in the
    replay file; the recorded case is regenerated by the harness and compared again. For cases taken
    from real handshakes (exporter-e2e) the inputs are fresh but the signature is the same."""
    import json
    with open(path) as f:
        body = json.load(f)
    chk.seed = int(body.get("seed", chk.seed))
    chk.tier = body.get("tier", chk.tier)
    run(chk)
