"""C11 negotiation honours both policies: theorems Properties/C11.v over the executable negotiation model
Neg/C11Negotiate.v + real client/server handshakes over a generated product of option-set pairs
(zz_verif_c11_test.go), every observed association compared with `negotiate` inside Coq and checked
against the property's own statements (implementation-side monitors, independent of the model)."""
import json
import vlib
import c11lib

SITES = {
    "server-cipher-suites-empty-after-filter-no-alert":
        "conn.go HandshakeContext (filterCipherSuitesForCertificate / filterCipherSuitesForVersion -> ErrNoAvailableCipherSuites)",
    "dual-stack-client-and-server-deadlock":
        "conn.go prepareDualStackServerHandshakeStart / negotiateVersionServer (ClientHello consumed before the FSM starts)",
    "dual-stack-client-cannot-read-serverhello-with-protected-flight":
        "conn.go negotiateVersionClient / unpackDatagram (DTLS 1.2 unpacker before the version is known)",
    "dtls13-unprotected-alert-under-handshake-epoch-ignored-by-peer":
        "conn.go notify (alert left unencrypted until the handshake completes, header epoch of the handshake keys)",
    "completes-across-empty-intersection:alpn":
        "internal/flight/flight13/flight4handler.go flight4Generate (ALPN never negotiated on DTLS 1.3)",
    "alpn-outside-policy":
        "internal/flight/flight12/flight3handler.go flight3Parse (ALPNSelection of the ServerHello accepted without consulting "
        "SupportedProtocols)",
    "group-outside-policy":
        "internal/flight/flight12/flight3handler.go handleServerKeyExchange (ECDHE on the ServerKeyExchange's curve without "
        "consulting EllipticCurves)",
    "first-hello-rewrite-changes-the-association":
        "internal/flight/flight12/flight0handler.go flight0Parse / flight2handler.go flight2Parse (extension-driven choices "
        "taken from the cookie-less ClientHello, which no Finished covers)",
    "suite-does-not-fit-presented-certificate":
        "conn.go HandshakeContext (filterCipherSuitesForCertificate with GetCertificate(&ClientHelloInfo{})) vs "
        "flight12/flight4handler.go flight4Generate GetCertificate(ServerName)",
    "refused-although-suite-fits-sni-certificate":
        "conn.go HandshakeContext (filterCipherSuitesForCertificate with GetCertificate(&ClientHelloInfo{})) vs "
        "flight12/flight4handler.go flight4Generate GetCertificate(ServerName)",
    "ems-required-but-resumed-session-negotiated-without-ems":
        "internal/flight/flight12/flight0handler.go handleHelloResume / flight3handler.go handleResumption "
        "(Session{ID, Secret} carries no extended-master-secret flag)",
    "dtls13-client-alert-sealed-without-negotiated-connection-id":
        "internal/flight/flight13/flight3handler.go abortFlight3 (ResetConnectionIDs before the alert is written) / conn.go notify",
    "completes-although-ems-required-and-not-in-this-handshakes-hellos":
        "internal/flight/flight12/flight3handler.go flight3Parse (client: RequireExtendedMasterSecret checked on every "
        "ServerHello, before handleResumption) / flight0handler.go flight0Parse (server: ErrServerRequiredButNoClientEMS)",
    "version-downgrade-through-first-client-hello":
        "conn.go pickVersionFromClientHello / negotiateVersionClient (supported_versions of the first ClientHello is "
        "unauthenticated; no downgrade sentinel in ServerHello.random)",
    "server-commits-pre-hook-server-hello":
        "internal/flight/flight12/flight4handler.go flight4Generate / flight4bhandler.go flight4bGenerate (values committed "
        "before the ServerHello hook)",
    "client-signature-scheme-outside-policy":
        "internal/flight/flight12/flight5handler.go flight5Generate / flight13/flight5handler.go "
        "(SelectSignatureScheme over the server's list only)",
}
DEFAULT_SITE = "negotiation (cipher_suite.go, conn.go, internal/negotiation, flight12/flight13 hello handlers)"
# associations the negotiation model does not describe (transport / FSM defects, reported by the monitors)
# (both dual-stack start-up defects, F20 and F21, are repaired: the model's verdict - the association completes on
# DTLS 1.3 - is now compared for them as for every other pair; on a tree where they recur the monitors name them)
UNMODELLED = ()


def case_monitors(c):
    """the property's own predicate on one observed association: list of (monitor, text)"""
    if not c11lib.both_built(c):
        return []
    out = list(c11lib.monitor_in_policy(c)) + list(c11lib.monitor_unsolicited(c)) + \
        list(c11lib.monitor_ems_resumption(c)) + list(c11lib.monitor_sni_refusal(c)) + list(c11lib.monitor_hook(c))
    dims = c11lib.empty_dimensions(c)
    if c11lib.both_ok(c):
        for d in dims:
            out.append(("completes-across-empty-intersection:" + d,
                        "no common %s value, yet both sides report an established association (version %d)" % (
                            d, c["client"]["version"])))
    else:
        fs = c11lib.failure_shape(c)
        if fs:
            pat = c11lib.defect_pattern(c)
            if pat == "dtls13-client-alert-sealed-without-negotiated-connection-id":
                fs = ("DTLS 1.3 with a %d-byte server connection ID negotiated: the client refuses the server's protected flight "
                      "with alert %s, but the alert is sealed without the connection ID (abortFlight3 reset it) and never "
                      "reaches the server - %s" % (c["s"]["cid"], c11lib.ALERTS.get(c["client"]["err_alert"], c["client"]["err_alert"]), fs))
            out.append((pat if pat != "other" else "neither-completes-nor-alerts-on-both-sides",
                        "%s%s" % (fs, (" [empty intersection: %s]" % ",".join(dims)) if dims else "")))
    return out


def key_of(c):
    return json.dumps([c["c"], c["s"], c["resume"], c.get("steer"), (c.get("seed") or {}).get("c"), (c.get("seed") or {}).get("s")],
                      sort_keys=True)


def nondefault(d):
    return any(d[k] for k in ("min", "max", "suites_set", "psk", "key", "client_auth", "curves", "sigs", "csigs", "ems",
                              "srtp", "alpn", "store", "skip_hv")) or d["cid"] >= 0 or d.get("key2") or d.get("sni")


def run(chk):
    proved = chk.prove(extra_targets=["theories/Neg/C11Run.vo"])
    env = {"VERIF_SEED": chk.seed, "VERIF_TIER": chk.tier}
    legs = []
    found_input = False
    for leg, test, timeout in (("regress", "^TestVerifC11Regress$", 900), ("steer", "^TestVerifC11Steer$", 1800),
                               ("pairs", "^TestVerifC11$", 3000)):
        out = vlib.out_path("c11" + leg)
        rc, o = vlib.go_test(".", test, dict(env, VERIF_OUT=out), tags=["c11"], timeout=timeout)
        cases = vlib.read_jsonl(out)
        vlib.cleanup(out)
        if rc != 0:
            kind = vlib.classify_go_failure(o)
            if kind == "panic":
                found_input = True
                chk.finding(DEFAULT_SITE, {"monitor": "panic", "test": test}, "panic in " + test,
                            {"test": test, "output": o[-4000:]})
            else:
                chk.broken("correspondence harness %s no longer runs against /repo (%s)" % (test, kind), o)
        legs.append((leg, cases))

    # ---- implementation-side monitors (independent of the Coq model)
    reported = {}
    fired = {}
    for leg, cases in legs:
        for c in cases:
            for mon, text in case_monitors(c):
                fired[mon] = fired.get(mon, 0) + 1
                if mon in reported:
                    continue
                reported[mon] = c
                found_input = True
                chk.finding(SITES.get(mon, DEFAULT_SITE), {"monitor": mon},
                            "%s [client %s / server %s]" % (text, json.dumps(c11lib.slim_cfg(c["c"])), json.dumps(c11lib.slim_cfg(c["s"]))),
                            {"how": "two real endpoints built from the option sets c (client) and s (server), handshake over a "
                                    "perfect scripted network in a synctest bubble (150 s of virtual time)",
                             "case": c11lib.slim_case(c)})

    # steered leg: an association whose first ClientHello was rewritten must come out as its untouched twin
    steer_cases = [cs for leg, cs in legs if leg == "steer"]
    steer_cases = steer_cases[0] if steer_cases else []
    twins = {c["id"]: c for c in steer_cases if c["gen"].endswith(":untouched")}
    for c in steer_cases:
        if c["gen"].endswith(":untouched") or c["id"] not in twins or c["s"]["skip_hv"]:
            continue
        for mon, text in c11lib.monitor_first_hello(c, twins[c["id"]]):
            fired[mon] = fired.get(mon, 0) + 1
            if mon in reported:
                continue
            reported[mon] = c
            found_input = True
            chk.finding(SITES.get(mon, DEFAULT_SITE), {"monitor": mon},
                        "%s [client %s / server %s]" % (text, json.dumps(c11lib.slim_cfg(c["c"])), json.dumps(c11lib.slim_cfg(c["s"]))),
                        {"how": "DTLS 1.2 with hello verification; an on-path party rewrites only the first (cookie-less) "
                                "ClientHello; compared with the same pair left alone",
                         "case": c11lib.slim_case(c), "untouched": c11lib.slim_case(twins[c["id"]])})

    # ---- model / implementation comparison inside Coq
    allc = [c for _, cases in legs for c in cases]
    comparable = [c for c in allc if not c11lib.steered(c) and
                  not (c11lib.both_built(c) and not c11lib.both_ok(c) and c11lib.failure_shape(c)
                       and c11lib.defect_pattern(c) in UNMODELLED)]
    comparable_steered = [c for c in allc if c11lib.steered(c) and c11lib.steer_modelled(c)]
    ok_model, mout = vlib.coq_make(["theories/Neg/C11Run.vo"])
    if not ok_model:
        chk.broken("model Neg/C11Run.v no longer compiles", mout)
    elif comparable:
        terms = [c11lib.case_term(c) for c in comparable]
        bad, err = vlib.coq_mismatches("c11", c11lib.IMPORTS, "c11_case", "c11_ok", terms, shard=80)
        if bad is None:
            chk.broken("correspondence evaluation failed in coqc (Neg/C11Run.v c11_ok)", err)
        else:
            pred = c11lib.predicted("c11", [comparable[i] for i in bad[:5]]) or []
            for n, i in enumerate(bad[:1]):
                c = comparable[i]
                mons = case_monitors(c)
                chk.finding(DEFAULT_SITE, {"monitor": "model-mismatch", "observed": list(c11lib.obs_class(c))},
                            "association differs from Neg/C11Negotiate.v negotiate: model %s, observed class %s%s" % (
                                pred[n] if n < len(pred) else "?", c11lib.obs_class(c),
                                (": " + mons[0][1]) if mons else ""),
                            {"case": c11lib.slim_case(c), "correspondence": "Neg.C11Run.c11_ok",
                             "mismatching": len(bad)},
                            no_input=(not mons and not found_input))

        if comparable_steered:
            terms = [c11lib.steer_case_term(c) for c in comparable_steered]
            bad, err = vlib.coq_mismatches("c11s", c11lib.IMPORTS, "c11s_case", "c11s_ok", terms, shard=80)
            if bad is None:
                chk.broken("correspondence evaluation failed in coqc (Neg/C11Run.v c11s_ok)", err)
            else:
                for i in bad[:1]:
                    c = comparable_steered[i]
                    mons = case_monitors(c)
                    chk.finding(DEFAULT_SITE, {"monitor": "model-mismatch-steered", "observed": list(c11lib.obs_class(c))},
                                "steered association differs from Neg/C11Negotiate.v negotiate_steered: observed class %s%s" % (
                                    c11lib.obs_class(c), (": " + mons[0][1]) if mons else ""),
                                {"case": c11lib.slim_case(c), "correspondence": "Neg.C11Run.c11s_ok", "mismatching": len(bad)},
                                no_input=(not mons and not found_input))

    # ---- coverage
    for leg, cases in legs:
        sub = {"pairs": [c for c in cases if c["gen"] != "lattice"], "lattice": [c for c in cases if c["gen"] == "lattice"]} \
            if leg == "pairs" else {leg: cases}
        for name, cs in sub.items():
            nontriv = [c for c in cs if c11lib.both_built(c) and (nondefault(c["c"]) or nondefault(c["s"]))]
            chk.count(name, len(cs), [key_of(c) for c in nontriv],
                      samples=[{"c": c11lib.slim_cfg(c["c"]), "s": c11lib.slim_cfg(c["s"]),
                                "classes": [c["client"]["class"], c["server"]["class"]]} for c in nontriv[-2:]])
            classes = {}
            gens = {}
            vers = {}
            for c in cs:
                k = "%s/%s" % (c["client"]["class"], c["server"]["class"])
                classes[k] = classes.get(k, 0) + 1
                gens[c["gen"].split(":")[0] if name != "regress" else "regress"] = gens.get(c["gen"].split(":")[0], 0) + 1
                if c11lib.both_built(c):
                    vk = "%s x %s" % (c11lib.allowed_versions(c["c"]), c11lib.allowed_versions(c["s"]))
                    vers[vk] = vers.get(vk, 0) + 1
            chk.leg_info(name, result_classes=classes, generators=gens, version_ranges=vers)
    chk.cov["traces_validated_against_impl"] = len(comparable) + len(comparable_steered)
    chk.leg_info("pairs", monitors_fired=fired,
                 not_compared_with_model=len(allc) - len(comparable) - len(comparable_steered),
                 generator="62% compatible pairs, 28% one dimension emptied (version, suite, authentication mode, curve, "
                           "signature scheme, EMS, SRTP, ALPN, key type), 10% independent draws; quick tier adds a seeded "
                           "sample of the 2^14 lattice, thorough the whole lattice")
    if names_policy_leg(chk):
        found_input = True
    if not proved and not found_input:
        where, pout = getattr(chk, "proof_error", ("?", ""))
        chk.broken("proof obligation Properties/C11.v no longer checks (%s)" % where, pout)
    chk.finish(
        level="proof",
        rule="real client+server handshakes in a synctest bubble over a perfect scripted network for generated pairs of option "
             "sets (version range x cipher-suite list x PSK/certificate/ECDHE-PSK x certificate key type Ed25519/ECDSA/RSA x "
             "client authentication x curves x signature schemes x EMS policy x SRTP profiles+MKI x ALPN x connection-ID "
             "generators x hello-verify x session store/resumption x MTU); per association: result class per side, alerts on "
             "the wire, every field of both ConnectionState()s, SRTP accessors, in-package version/EMS/CIDs/group, captured "
             "ClientHello/ServerHello/ServerKeyExchange/CertificateVerify, 3 exporters, 2 payloads each way; compared with "
             "`negotiate` evaluated by vm_compute and checked by model-independent monitors. Steered leg "
             "(TestVerifC11Steer): a rogue server (ServerHello hook naming an ALPN protocol), an on-path rewriter of the "
             "first, cookie-less ClientHello (supported_groups, ALPN, extended_master_secret, server_name, "
             "supported_versions) - each run next to its untouched twin and compared with `negotiate_steered` -, servers "
             "with two certificates selected by SNI, sessions resumed under another EMS policy than they were stored "
             "under (master secrets compared in-package). Non-trivial = both endpoints "
             "built and at least one non-default option; distinct by (client set, server set, resumption).",
        assumptions=["both endpoints are pion/dtls (the quantifier of C11 is over configurations of the two endpoints); the steered "
                     "leg additionally holds the CLIENT to its own lists against a rogue ServerHello / ServerKeyExchange and lets "
                     "an on-path party rewrite only what no Finished message covers (the first ClientHello under hello "
                     "verification); rewriting the only ClientHello when the cookie exchange is off is C04's subject",
                     "negotiation is modelled on the final ClientHello and the server's answer; loss/reordering is C02/C01",
                     "a client that configures BOTH a PSK and a certificate is outside the generator (it cannot complete a "
                     "certificate handshake: flight3Parse takes the PSK path)",
                     "custom cipher suites, GetCertificate/GetClientCertificate callbacks, message hooks and "
                     "VerifyPeerCertificate/VerifyConnection callbacks are not varied",
                     "DTLS 1.3: signature scheme of the encrypted CertificateVerify is not observable on the wire "
                     "(compared for DTLS 1.2 only)"])


NAMES_POLICY_SITE = ("ALPN selection: pkg/protocol/extension/alpn.go ALPNProtocolSelection, flight12 flight4Generate / "
                     "flight4bGenerate (server), flight3Parse (client)")


def names_policy_leg(chk):
    """round g: the negotiated ALPN protocol must be, BYTE FOR BYTE, an entry of both configured lists.  Runs the
    differently-spelled-lists harness of C01 (TestVerifC01Names: lists whose entries are equal up to letter case,
    Unicode folding / form, surrounding bytes, prefixes) and applies C11's own predicate to every side that
    reports success."""
    out = vlib.out_path("c11names")
    rc, o = vlib.go_test(".", "^TestVerifC01Names$", {"VERIF_SEED": chk.seed, "VERIF_TIER": chk.tier, "VERIF_OUT": out},
                         tags=["c11", "c01"], timeout=3000)
    cases = vlib.read_jsonl(out)
    vlib.cleanup(out)
    if rc != 0 and vlib.classify_go_failure(o) != "panic":
        chk.broken("correspondence harness TestVerifC01Names (names-policy leg) no longer runs against /repo", o)
        return False
    found = False
    judged, near = 0, []
    for c in cases:
        if not c11lib.both_built(c):
            continue
        lc, ls = c["names_c"] or [], c["names_s"] or []
        for side in ("client", "server"):
            r = c[side]
            if r["class"] != "ok" or not r.get("alpn"):
                continue
            judged += 1
            name = r["alpn"]
            inc, ins = name in lc, name in ls
            if inc and ins:
                continue
            if not found:
                found = True
                chk.finding(NAMES_POLICY_SITE, {"monitor": "alpn-outside-policy", "leg": "names"},
                            "the %s completed with application protocol %r (bytes %s) which is not, byte for byte, an entry of %s "
                            "(client list %r, server list %r) [gen %s, mask %s, %s handshake]" % (
                                side, name, name.encode("utf-8").hex(),
                                "either list" if not inc and not ins else ("the client's list" if not inc else "the server's list"),
                                lc, ls, c["gen"], c["mask"], "resumed" if c["resume"] else "full"),
                            {"how": "TestVerifC01Names (tags c11,c01): ALPN lists as given (WithSupportedProtocols), option sets c/s, "
                                    "scripted network", "client_list": lc, "server_list": ls,
                             "client_reports": c["client"].get("alpn"), "server_reports": c["server"].get("alpn"),
                             "classes": [c["client"]["class"], c["server"]["class"]], "gen": c["gen"], "mask": c["mask"],
                             "resume": c["resume"], "c": c11lib.slim_cfg(c["c"]), "s": c11lib.slim_cfg(c["s"])})
        if lc != ls and {x.lower() for x in lc} & {x.lower() for x in ls}:
            near.append(c)
    chk.count("names-policy", len(cases), ["%s|%s|%s|%s" % (c["gen"], c["names_c"], c["names_s"], c["mask"]) for c in near],
              samples=[{"gen": c["gen"], "client_list": c["names_c"], "server_list": c["names_s"],
                        "alpn": [c["client"].get("alpn"), c["server"].get("alpn")],
                        "classes": [c["client"]["class"], c["server"]["class"]]} for c in near[-2:]])
    chk.leg_info("names-policy", sides_judged=judged,
                 note="non-trivial = the two lists differ but share an entry up to ASCII case; predicate: a side that reports "
                      "success with an ALPN protocol holds a byte string that is an entry of the client's AND of the server's list")
    return found


def replay(chk, path):
    """bin/check C11 --replay <file>: rerun the one association (option sets, steering, seeding association) of a finding"""
    c, body = c11lib.replay_case(chk, path, ["c11", "c11x"])
    if c is not None:
        hits = case_monitors(c)
        print("replayed: client %s / server %s" % (json.dumps(c11lib.slim_case(c)["client"]), json.dumps(c11lib.slim_case(c)["server"])))
        for mon, text in hits:
            chk.finding(SITES.get(mon, DEFAULT_SITE), {"monitor": mon}, text, {"how": "replay of " + path, "case": c11lib.slim_case(c)})
        st = c11lib.steer_of(c)
        ch1 = st.get("ch1_groups") is not None or st.get("ch1_alpn") is not None or st.get("ch1_strip_ems") or st.get("ch1_strip_sni")
        if ch1 and not c["s"]["skip_hv"]:
            twin, _ = c11lib.replay_case(chk, path, ["c11", "c11x"], untouched=True)
            if twin is not None:
                for mon, text in c11lib.monitor_first_hello(c, twin):
                    hits.append((mon, text))
                    chk.finding(SITES.get(mon, DEFAULT_SITE), {"monitor": mon}, text,
                                {"how": "replay of " + path, "case": c11lib.slim_case(c), "untouched": c11lib.slim_case(twin)})
        if not hits:
            print("replay: no monitor fires on this tree (stored signature %s)" % json.dumps(body.get("signature")))
    chk.finish(level="proof", rule="replay of one stored association")
