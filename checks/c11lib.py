"""Shared by checks/c11.py and checks/c01.py: harness observations (zz_verif_c11_test.go) -> Coq terms
for Neg/C11Run.v, the implementation-side monitors (the properties' own statements), case keys."""
import json
import re
import vlib
from vlib import cN, cNlist, cbool

IMPORTS = "From DtlsV Require Import Lib.Bytes Gen.GeneratedC11 Neg.C11Negotiate Neg.C11Run."
CHAIN_SIG = 0x0403      # every chain of the harness is issued with ecdsa-with-SHA256

ALERTS = {40: "handshake_failure", 41: "no_certificate", 42: "bad_certificate", 47: "illegal_parameter",
          70: "protocol_version", 71: "insufficient_security", 80: "internal_error", 109: "missing_extension",
          110: "unsupported_extension", 116: "certificate_required", 120: "no_application_protocol"}


def hexbytes(h):
    return list(bytes.fromhex(h or ""))


def fixed_cid(is_client, n):
    return [(0xC0 if is_client else 0x50) + i for i in range(n)]


def cfg_term(d, is_client):
    suites = "Some %s" % cNlist(d["suites"] or []) if d["suites_set"] else "None"
    if d["cid"] < 0:
        cid = "None"
    else:
        cid = "Some %s" % cNlist(fixed_cid(is_client, d["cid"]))
    return ("(mkCfg %d %d (%s) %s %s %d %d %d %s %s %s %s %d %s %s %s (%s) %s %s %d %s)" % (
        d["min"], d["max"], suites, cbool(d["psk"]), cbool(d["hint"]), d["key"], CHAIN_SIG, d["client_auth"],
        cbool(d["skip_verify"]), cNlist(d["curves"] or []), cNlist(d["sigs"] or []), cNlist(d["csigs"] or []),
        d["ems"], cNlist(d["srtp"] or []), cNlist(hexbytes(d["mki"])), cNlist(d["alpn"] or []), cid,
        cbool(d["store"]), cbool(d["skip_hv"]), d.get("key2", 0), cbool(d.get("sni", 0) == 1)))


def alpn_id(s):
    if not s:
        return 0
    m = re.match(r"p(\d+)$", s)
    return int(m.group(1)) if m else 9999


def obs_class(c):
    """0 both ok; 1/2 client/server failed locally and put an alert on the wire; 3/4 client/server failed
    locally without any alert (the peer is left waiting); 5 anything else"""
    cl, sv = c["client"], c["server"]
    if cl["class"] == "ok" and sv["class"] == "ok":
        return 0, 0
    if cl["class"] == "sent":
        return 1, cl["alert"]
    if sv["class"] == "sent":
        return 2, sv["alert"]
    if cl["class"] == "err" and sv["class"] in ("pending", "err"):
        return 3, 0
    if sv["class"] == "err" and cl["class"] in ("pending", "err"):
        return 4, 0
    return 5, 0


def resumed_obs(c):
    return bool(c["ch"]["sidlen"] > 0 and c["sh"]["seen"] and c["sh"]["sidlen"] > 0 and not c.get("shd_seen", True))


def opt(v):
    return "None" if v is None else "(Some %d)" % v


def obs_term(c):
    cl, sv = c["client"], c["server"]
    k, a = obs_class(c)
    ok = k == 0
    v13 = cl["version"] == 3
    res = resumed_obs(c)
    group = None
    sig = None
    csig = None
    if ok:
        if not res:
            group = cl["group"] if cl["group"] == sv["group"] else 99999
        if not v13:
            sig = c["ske_sig"]
            csig = c["cv_sig"]
    ems = (cl["ems"] and sv["ems"]) if not v13 else True
    skey = cl.get("peer_key") if (ok and "peer_key" in cl) else None
    return ("(mkObs %s %s %d %d %d %d %s %s %s %s %d %s %s %d %s %s %s %s %s %s %s %s %s)" % (
        cbool(cl["built"]), cbool(sv["built"]), k, a,
        cl["version"] if ok else 0, cl["suite"] if ok else 0, opt(group), opt(sig), opt(csig), cbool(ems if ok else False),
        cl["srtp"] if ok else 0, cNlist(hexbytes(cl["rmki"]) if ok else []), cNlist(hexbytes(sv["rmki"]) if ok else []),
        alpn_id(cl["alpn"]) if ok else 0,
        cNlist(hexbytes(cl["lcid"]) if ok else []), cNlist(hexbytes(sv["lcid"]) if ok else []),
        cbool(cl["rrc"] if ok else False), cbool(res if ok else False),
        cbool(cl["ncerts"] > 0 if ok else False), cbool(sv["ncerts"] > 0 if ok else False),
        cNlist(c["ch" if steered(c) else "ch1"]["exts"] or [] if ok else []), cNlist(c["sh"]["exts"] or [] if ok else []),
        opt(skey)))


def case_term(c):
    seeded = bool(c["resume"] and c["seeded"])
    return "(%s, %s, %s, %s)" % (cfg_term(c["c"], True), cfg_term(c["s"], False), cbool(seeded), obs_term(c))


def steer_of(c):
    return c.get("steer") or {}


def steered(c):
    st = steer_of(c)
    return bool(st.get("ch1_groups") is not None or st.get("ch1_alpn") is not None or st.get("ch1_strip_ems")
                or st.get("ch1_strip_sni") or st.get("ch1_strip_vers") or st.get("sh_alpn") or st.get("sh_suite")
                or st.get("sh_sessionid") or st.get("refuse"))


def steer_modelled(c):
    """the DTLS 1.2 steering model applies: two 1.2-only endpoints, no version stripping, and a rewritten
    first ClientHello only when hello verification is on (otherwise the Finished messages cover it: C04)"""
    st = steer_of(c)
    if st.get("ch1_strip_vers") or allowed_versions(c["c"]) != [2] or allowed_versions(c["s"]) != [2]:
        return False
    if st.get("refuse"):
        # a verification callback of the application refuses the peer: certificate policy (C03), judged by the monitors
        return False
    ch1 = st.get("ch1_groups") is not None or st.get("ch1_alpn") is not None or st.get("ch1_strip_ems") or st.get("ch1_strip_sni")
    return not (ch1 and c["s"]["skip_hv"])


def steer_term(st):
    def o(l):
        return "None" if l is None else "(Some %s)" % cNlist(l)
    return "(mkSteer %s %s %s %s %d %d %s)" % (o(st.get("ch1_groups")), o(st.get("ch1_alpn")), cbool(st.get("ch1_strip_ems", False)),
                                             cbool(st.get("ch1_strip_sni", False)), st.get("sh_alpn", 0), st.get("sh_suite", 0),
                                             cbool(st.get("sh_sessionid", False)))


def steer_case_term(c):
    seeded = bool(c["resume"] and c["seeded"])
    return "(%s, %s, %s, %s, %s, %s)" % (cfg_term(c["c"], True), cfg_term(c["s"], False), cbool(seeded),
                                       cbool(not c["s"]["skip_hv"]), steer_term(steer_of(c)), obs_term(c))


def predicted(name, cases):
    """model's verdict per case: list of (class, alert)"""
    if not cases:
        return []
    out = []
    step = 400
    for i in range(0, len(cases), step):
        chunk = cases[i:i + step]
        terms = ["predicted %s %s %s" % (cfg_term(c["c"], True), cfg_term(c["s"], False),
                                         cbool(bool(c["resume"] and c["seeded"]))) for c in chunk]
        txt = ("From Coq Require Import List NArith.\nImport ListNotations.\n" + IMPORTS + "\nOpen Scope N_scope.\n"
               "Set Printing Depth 1000000.\nDefinition preds : list (N * N) := Eval vm_compute in [ %s ].\nPrint preds.\n" % "\n ; ".join(terms))
        ok, o = vlib.coq_run(txt, "%s_pred_%d" % (name, i))
        if not ok:
            return None
        m = re.search(r"preds\s*=\s*(\[.*?\])\s*:", o, re.S)
        if not m:
            return None
        out += [(int(a), int(b)) for a, b in re.findall(r"\(\s*(\d+),\s*(\d+)\s*\)", m.group(1))]
    return out if len(out) == len(cases) else None


# ----------------------------------------------------------------- helpers on configurations (driver side only)

def rng(d):
    return (3 if d["min"] == 3 else 2, 3 if d["max"] == 3 else 2)


def slim_cfg(d):
    return {k: v for k, v in d.items() if v not in (None, [], "", False, 0) or k == "cid" and v >= 0}


def slim_case(c):
    def side(s):
        return {k: v for k, v in s.items() if v not in (None, [], "", False, 0, -1)}
    extra = {}
    if steered(c):
        extra["steer"] = steer_of(c)
    if (c.get("seed") or {}).get("used"):
        extra["seed"] = {"c": slim_cfg(c["seed"]["c"]), "s": slim_cfg(c["seed"]["s"]), "ok": c["seed"]["ok"],
                         "ems": c["seed"]["ems"], "ms_hash": c["seed"]["ms_hash"]}
    return {**extra, "c": slim_cfg(c["c"]), "s": slim_cfg(c["s"]), "resume": c["resume"], "seeded": c["seeded"], "mask": c["mask"],
            "client": side(c["client"]), "server": side(c["server"]), "ch": side(c["ch"]), "sh": side(c["sh"]),
            "alerts": c["alerts"], "hrr": c["hrr_seen"], "hvr": c["hvr_seen"], "ske_sig": c["ske_sig"],
            "ske_curve": c["ske_curve"], "cv_sig": c["cv_sig"], "tdone_ms": c["tdone"], "data_ok": c["data_ok"],
            "gen": c["gen"], "id": c["id"],
            "rerun": "bin/check C11 (VERIF_SEED as recorded) or: TestVerifC11X (tags c11,c11x) with C11X_C / C11X_S = the two "
                     "option sets (full c11Cfg JSON), C11X_STEER = the steer object, C11X_RESUME=1 + C11X_SEED_C / C11X_SEED_S "
                     "= the option sets of the seeding association"}


# ----------------------------------------------------------------- policy oracle of the monitors (independent of the Coq model)

SUITES13 = [0x1301, 0x1302, 0x1303]
DEF12 = [0xc02b, 0xc02f, 0xcca9, 0xcca8, 0xc00a, 0xc014, 0xc02c, 0xc030]
ECDSA_SUITES = {0xc02b, 0xc02c, 0xc00a, 0xc0ac, 0xc0ae, 0xcca9}
RSA_SUITES = {0xc02f, 0xc030, 0xc014, 0xcca8}
PSK_SUITES = {0x00a8, 0x00ae, 0xc0a4, 0xc0a8, 0xc0a9, 0xccab, 0xc037}
DEF_CURVES = [4588, 29, 23, 24]
DEF_SIGS = [0x0403, 0x0503, 0x0603, 0x0807, 0x0804, 0x0805, 0x0806, 0x0401, 0x0501, 0x0601]
MLKEM = 4588
CUSTOM_SUITE = 0xFFFE     # the user-supplied suite of the harness (ECDHE-ECDSA, AES-128-GCM, SHA-256)


def suite_version(s):
    return 3 if s in SUITES13 else 2


def allowed_versions(d):
    """versions the option set allows: the configured range, minus versions none of the explicitly
    listed suites / curves can be used with"""
    lo, hi = rng(d)
    vs = [v for v in (3, 2) if lo <= v <= hi]
    if d["suites_set"] and d["suites"]:
        sv = [v for v in vs if any(suite_version(s) == v for s in d["suites"])]
        if sv:
            vs = sv
    if d["curves"]:
        vs = [v for v in vs if any(c != MLKEM or v == 3 for c in d["curves"])]
    if d["psk"] and not d["key"]:
        vs = [v for v in vs if v != 3]      # a PSK-only option set does not offer DTLS 1.3
    return vs


def enabled_suites(d):
    """suites the option set enables (before the key-type filter)"""
    if d["suites_set"]:
        base = list(d["suites"] or [])
    else:
        base = []
        for v in allowed_versions(d):
            base += SUITES13 if v == 3 else DEF12
    out = []
    for s in base:
        if s in SUITES13 or (s in PSK_SUITES and d["psk"]) or \
           ((s in ECDSA_SUITES or s in RSA_SUITES) and (not d["psk"] or d["key"] > 0)):
            out.append(s)
    return out


def fits_key(key, s):
    if s in ECDSA_SUITES:
        return key in (1, 2)
    if s in RSA_SUITES:
        return key == 3
    return True


def curves_of(d):
    return list(d["curves"] or DEF_CURVES)


def sigs_of(d):
    return list(d["sigs"] or DEF_SIGS)


def alpn_names(d):
    return ["p%d" % x for x in (d["alpn"] or [])]


def both_ok(c):
    return c["client"]["class"] == "ok" and c["server"]["class"] == "ok"


def both_built(c):
    return c["client"]["built"] and c["server"]["built"]


def monitor_in_policy(c):
    """C11 first sentence, on an association both sides report as established. Returns list of (monitor, text)."""
    out = []
    if not both_ok(c):
        return out
    cc, sc, cl, sv = c["c"], c["s"], c["client"], c["server"]
    v = cl["version"]
    av_c, av_s = allowed_versions(cc), allowed_versions(sc)
    if sv["version"] != v:
        out.append(("version-differs", "client speaks %d, server %d" % (v, sv["version"])))
    if v not in av_c or v not in av_s:
        out.append(("version-outside-range", "negotiated version %d, client allows %s, server allows %s" % (v, av_c, av_s)))
    common = [x for x in av_c if x in av_s]
    if common and v != max(common):
        if steer_of(c).get("ch1_strip_vers"):
            out.append(("version-downgrade-through-first-client-hello",
                        "supported_versions stripped from the first ClientHello on path (and the datagram forwarded twice): "
                        "both sides complete on version %d although both allow %d" % (v, max(common))))
        else:
            out.append(("version-not-highest", "negotiated version %d but both allow %d" % (v, max(common))))
    s = cl["suite"]
    if s not in (c["ch1"]["suites"] or []) or s not in enabled_suites(cc):
        out.append(("suite-not-offered", "suite %#06x not offered by the client (%s)" % (s, c["ch1"]["suites"])))
    if s not in enabled_suites(sc):
        out.append(("suite-not-enabled-on-server", "suite %#06x not enabled on the server" % s))
    if not fits_key(sc["key"], s):
        out.append(("suite-does-not-fit-key", "suite %#06x with server key type %d" % (s, sc["key"])))
    if cl.get("peer_key") and not fits_key(cl["peer_key"], s):
        kt = {1: "Ed25519", 2: "ECDSA", 3: "RSA"}
        out.append(("suite-does-not-fit-presented-certificate",
                    "suite %#06x completed with the %s certificate of %r (ServerKeyExchange signed with %#06x)" % (
                        s, kt.get(cl["peer_key"]), cl.get("peer_name"), c["ske_sig"])))
    if suite_version(s) != v:
        out.append(("suite-of-other-version", "suite %#06x on version %d" % (s, v)))
    g = cl["group"]
    if g and not resumed_obs(c) and (g not in curves_of(cc) or g not in curves_of(sc) or (v == 2 and g == MLKEM)):
        out.append(("group-outside-policy", "group %d, client curves %s, server curves %s" % (g, curves_of(cc), curves_of(sc))))
    if c["ske_sig"] and (c["ske_sig"] not in sigs_of(cc) or c["ske_sig"] not in sigs_of(sc)):
        out.append(("server-signature-scheme-outside-policy", "ServerKeyExchange signed with %#06x, client allows %s, server allows %s"
                    % (c["ske_sig"], sigs_of(cc), sigs_of(sc))))
    if c["cv_sig"] and (c["cv_sig"] not in sigs_of(cc) or c["cv_sig"] not in sigs_of(sc)):
        out.append(("client-signature-scheme-outside-policy",
                    "client CertificateVerify signed with %#06x, client allows %s, server allows %s"
                    % (c["cv_sig"], sigs_of(cc), sigs_of(sc))))
    for side in (cl, sv):
        if side["srtp"] and (side["srtp"] not in (cc["srtp"] or []) or side["srtp"] not in (sc["srtp"] or [])):
            out.append(("srtp-outside-policy", "SRTP profile %d, lists %s / %s" % (side["srtp"], cc["srtp"], sc["srtp"])))
        own = alpn_names(cc if side is cl else sc)
        # a ServerHello hook (application hook or rogue server) overrides the server's configured list: the client is
        # held to its OWN list, the server to what its final ServerHello says (monitor_hook)
        rogue = bool(steer_of(c).get("sh_alpn"))
        if side["alpn"] and ((side["alpn"] not in own and not (rogue and side is sv)) or (not rogue and (
                side["alpn"] not in alpn_names(cc) or side["alpn"] not in alpn_names(sc)))):
            out.append(("alpn-outside-policy", "%s reports ALPN %s, lists %s / %s" % (
                "client" if side is cl else "server", side["alpn"], alpn_names(cc), alpn_names(sc))))
    if v == 2 and (cc["ems"] == 1 or sc["ems"] == 1) and not (cl["ems"] and sv["ems"]):
        out.append(("ems-required-but-off", "EMS policy %d/%d, flags %s/%s" % (cc["ems"], sc["ems"], cl["ems"], sv["ems"])))
    # ... and judged on the wire of THIS handshake (full or resumed): a side that requires extended master secret must not
    # complete when the peer's hello of this handshake does not carry the extension (RFC 7627 5.2 / 5.3)
    if v == 2:
        EXT_EMS = 23
        ch_has, sh_has = EXT_EMS in (c["ch"].get("exts") or []), EXT_EMS in (c["sh"].get("exts") or [])
        if cc["ems"] == 1 and c["sh"].get("seen") and not sh_has:
            out.append(("completes-although-ems-required-and-not-in-this-handshakes-hellos",
                        "the client requires extended master secret and the ServerHello of this %s handshake does not carry "
                        "the extension (server policy %d), yet both sides report an established association (EMS flags %s/%s)" % (
                            "RESUMED" if resumed_obs(c) else "full", sc["ems"], cl["ems"], sv["ems"])))
        if sc["ems"] == 1 and c["ch"].get("seen") and not ch_has:
            out.append(("completes-although-ems-required-and-not-in-this-handshakes-hellos",
                        "the server requires extended master secret and the ClientHello of this %s handshake does not carry "
                        "the extension (client policy %d), yet both sides report an established association (EMS flags %s/%s)" % (
                            "RESUMED" if resumed_obs(c) else "full", cc["ems"], cl["ems"], sv["ems"])))
    return out


def empty_dimensions(c):
    """dimensions in which the two option sets have no common value (the property demands failure with an alert)"""
    cc, sc = c["c"], c["s"]
    out = []
    av_c, av_s = allowed_versions(cc), allowed_versions(sc)
    common_v = [v for v in av_c if v in av_s]
    if not common_v:
        out.append("version")
        return out
    es = [s for s in enabled_suites(sc) if fits_key(sc["key"], s)]
    if not [s for s in enabled_suites(cc) if s in es and suite_version(s) in common_v]:
        out.append("suite")
    cv = [g for g in curves_of(cc) if g in curves_of(sc)]
    # a group is needed when the client lists any suite with elliptic-curve material (it then sends
    # supported_groups and the server insists on a common group)
    ecc = any(s not in (0x00ae, 0xc0a4, 0xc0a8, 0xc0a9) for s in enabled_suites(cc))
    if ecc and (not cv or (max(common_v) == 2 and cv == [MLKEM])):
        out.append("curve")
    if (cc["srtp"] or sc["srtp"]) and not [p for p in (cc["srtp"] or []) if p in (sc["srtp"] or [])]:
        out.append("srtp")
    if cc["alpn"] and sc["alpn"] and not [p for p in cc["alpn"] if p in sc["alpn"]]:
        out.append("alpn")
    if max(common_v) == 2 and ((cc["ems"] == 1 and sc["ems"] == 2) or (cc["ems"] == 2 and sc["ems"] == 1)):
        out.append("ems")
    return out


def monitor_unsolicited(c):
    """no ServerHello extension that the ClientHello did not carry (renegotiation_info allowed with the SCSV)"""
    if not c["sh"]["seen"]:
        return []
    offered = set(c["ch"]["exts"] or []) | set(c["ch1"]["exts"] or [])
    bad = [e for e in (c["sh"]["exts"] or []) if e not in offered and not (e == 65281 and c["ch"]["scsv"])]
    return [("unsolicited-extension", "ServerHello carries extension(s) %s, ClientHello offered %s" % (bad, sorted(offered)))] if bad else []


def failure_shape(c):
    """how a not-established association ended: None when one side sent a fatal alert and the other side
    failed with exactly that alert; else a description"""
    cl, sv = c["client"], c["server"]
    if both_ok(c):
        return None
    for a, b, an, bn in ((cl, sv, "client", "server"), (sv, cl, "server", "client")):
        if a["class"] == "sent":
            if b["class"] == "recv" and b["alert"] == a["alert"]:
                return None
            wrapped = any(x["from"] == an and x.get("wrapped") for x in (c["alerts"] or []))
            return ("%s sent alert %s%s but the %s ended as %s (%s)" % (
                an, ALERTS.get(a["alert"], a["alert"]), " inside an unencrypted tls12_cid record" if wrapped else "",
                bn, b["class"], b["err"] or "still waiting"))
    return "client: %s (%s); server: %s (%s)" % (cl["class"], cl["err"], sv["class"], sv["err"])


def defect_pattern(c):
    """stable name of the known way an association neither completes nor fails with an alert on both sides"""
    cl, sv = c["client"], c["server"]
    cc, sc = c["c"], c["s"]
    dual = lambda d: allowed_versions(d) == [3, 2]  # noqa: E731
    if "no CipherSuites satisfy" in sv["err"] and cl["class"] == "pending":
        return "server-cipher-suites-empty-after-filter-no-alert"
    if cl["class"] == "pending" and sv["class"] == "pending" and dual(cc) and dual(sc) and not c["mask"]:
        return "dual-stack-client-and-server-deadlock"
    if "packet length and declared length do not match" in cl["err"] and dual(cc):
        return "dual-stack-client-cannot-read-serverhello-with-protected-flight"
    if cl["class"] == "pending" and sv["class"] == "pending" and dual(cc) and allowed_versions(sc) == [3] \
            and sc["skip_hv"] and not c["mask"] and c["sh"]["seen"] and not c["hrr_seen"]:
        # same cause since "discard datagrams that cannot be split into records": the datagram carrying the
        # ServerHello followed by DTLS 1.3 ciphertext records is now dropped by the DTLS 1.2 unpacker instead of
        # failing the client, so both sides wait
        return "dual-stack-client-cannot-read-serverhello-with-protected-flight"
    if cl["class"] == "err" and cl.get("err_alert", -1) > 0 and sv["class"] == "pending" and cc["cid"] >= 0 and sc["cid"] > 0 \
            and 3 in (c["sh"].get("versions") or []):
        # DTLS 1.3, the server negotiated a non-empty connection ID, the client raised a fatal alert on the server's
        # protected flight: abortFlight3 cleared the connection IDs before the alert was sealed
        return "dtls13-client-alert-sealed-without-negotiated-connection-id"
    if any(x["epoch"] >= 2 for x in (c["alerts"] or [])) and "pending" in (cl["class"], sv["class"]):
        return "dtls13-unprotected-alert-under-handshake-epoch-ignored-by-peer"
    return "other"


# ----------------------------------------------------------------- C01 monitor

def monitor_agreement(c):
    """C01 on an association both sides report as established. Returns list of (monitor, text)."""
    out = []
    if not both_ok(c):
        return out
    cl, sv = c["client"], c["server"]
    def ne(name, a, b):
        if a != b:
            out.append((name, "%s: client %r, server %r" % (name, a, b)))
    ne("version", cl["version"], sv["version"])
    ne("cipher-suite", cl["suite"], sv["suite"])
    if cl["version"] == 2 and not steer_of(c).get("sh_sessionid"):
        # (under a session-id hook the hook monitor reports it, with the follow-up connection)
        # (a server that saw a client certificate deliberately forgets the id - flight4Parse, CVE-2016-5419 - so
        # only two different NAMES for the session are a disagreement)
        if cl.get("sessid") and sv.get("sessid"):
            ne("session-id", cl["sessid"], sv["sessid"])
    if custom_suite(c) and (cl["exp_err"] or sv["exp_err"]):
        out.append(("exporter-unavailable-on-custom-cipher-suite",
                    "the handshake completed on the user-supplied cipher suite %#06x and application data flows, but "
                    "ExportKeyingMaterial fails on both sides: client %r, server %r" % (cl["suite"], cl["exp_err"], sv["exp_err"])))
    elif not cl["exp"] or cl["exp_err"] or sv["exp_err"] or any(not e for e in cl["exp"]):
        out.append(("exporter-unavailable", "exporter: client %r %r, server %r %r" % (cl["exp"], cl["exp_err"], sv["exp"], sv["exp_err"])))
    ne("exporter", cl["exp"], sv["exp"])
    if cl["exp"] and all(cl["exp"]) and len(set(cl["exp"])) != len(cl["exp"]):
        out.append(("exporter-label-independent", "exporter output does not depend on the label: %r" % cl["exp"]))
    ne("connection-id client-local/server-remote", cl["lcid"], sv["rcid"])
    ne("connection-id server-local/client-remote", sv["lcid"], cl["rcid"])
    ne("rrc", cl["rrc"], sv["rrc"])
    ne("alpn", cl["alpn"], sv["alpn"])
    ne("srtp-profile", cl["srtp"], sv["srtp"])
    if cl["srtp"]:
        # the server learns the MKI the client offered; the client learns the MKI the server echoed (empty or its own)
        ne("srtp-mki seen by server = offered by client", sv["rmki"], c["ch1"]["mki"])
        if cl["rmki"] not in ("", c["ch1"]["mki"]):
            out.append(("srtp-mki", "client reports peer MKI %r, offered %r" % (cl["rmki"], c["ch1"]["mki"])))
    # peer certificate chains: exactly what the peer presented
    resumed = resumed_obs(c)
    cert_suite = cl["suite"] in ECDSA_SUITES or cl["suite"] in RSA_SUITES or cl["suite"] in SUITES13 or cl["suite"] == CUSTOM_SUITE
    want_s = (sv["sent_chain"], sv["sent_n"]) if (cert_suite and not resumed) else ("", 0)
    ne("server chain as seen by the client", (cl["certhash"], cl["ncerts"]), want_s)
    requested = cert_suite and not resumed and c["s"]["client_auth"] > 0
    want_c = (cl["sent_chain"], cl["sent_n"]) if requested else ("", 0)
    ne("client chain as seen by the server", (sv["certhash"], sv["ncerts"]), want_c)
    if not c["data_ok"]:
        out.append(("application-data", "payloads: client read %r, server read %r" % (cl["reads"], sv["reads"])))
    return out


# ----------------------------------------------------------------- monitors of the steered leg

def monitor_ems_resumption(c):
    """a side that requires extended master secret never completes without it - also when the handshake is a resumption"""
    if not both_ok(c) or not resumed_obs(c):
        return []
    seed = c.get("seed") or {}
    if not (seed.get("used") and seed.get("ok")) or seed.get("ems"):
        return []
    if c["c"]["ems"] != 1 and c["s"]["ems"] != 1:
        return []
    if c["server"].get("ms_hash") and c["server"]["ms_hash"] == seed.get("ms_hash"):
        who = "server" if c["s"]["ems"] == 1 else "client"
        return [("ems-required-but-resumed-session-negotiated-without-ems",
                 "the %s requires extended master secret; the association completes as a resumption of a session negotiated "
                 "WITHOUT it (seeding association: client policy %d, server policy %d, EMS off) under the byte-identical master "
                 "secret (hash %s), while both sides flag EMS as on" % (who, seed["c"]["ems"], seed["s"]["ems"], seed["ms_hash"]))]
    return []


def monitor_sni_refusal(c):
    """a refusal although a suite both sides enable fits the certificate the client's server name selects"""
    cc, sc = c["c"], c["s"]
    if both_ok(c) or not (cc.get("sni") == 1 and sc.get("key2", 0) > 0 and sc["key"] > 0):
        return []
    if not (c["server"]["class"] == "sent" and c["server"]["alert"] == 71):
        return []
    fit = [x for x in enabled_suites(cc) if x in enabled_suites(sc) and suite_version(x) == 2
           and (x in ECDSA_SUITES or x in RSA_SUITES) and fits_key(sc["key2"], x)]
    if fit and 2 in allowed_versions(cc) and 2 in allowed_versions(sc) and not [
            x for x in enabled_suites(cc) if x in enabled_suites(sc) and fits_key(sc["key"], x) and suite_version(x) == 2]:
        return [("refused-although-suite-fits-sni-certificate",
                 "refused with insufficient_security although suite(s) %s are enabled on both sides and fit the key (type %d) of "
                 "the certificate the server name selects; the server filtered its suites with its default certificate (type %d)"
                 % ([hex(x) for x in fit], sc["key2"], sc["key"]))]
    return []


OUTCOME_FIELDS = (("client", "class"), ("server", "class"), ("client", "alert"), ("client", "version"), ("client", "suite"),
                  ("server", "suite"), ("client", "group"), ("server", "group"), ("client", "ems"), ("server", "ems"),
                  ("client", "alpn"), ("server", "alpn"), ("client", "srtp"), ("server", "srtp"), ("client", "peer_key"),
                  ("client", "peer_name"), ("client", "lcid"), ("client", "rcid"))


def monitor_first_hello(steered_case, untouched_case):
    """what no Finished covers must not decide anything: the association with a rewritten first ClientHello comes out
    exactly as the untouched one"""
    diff = [(a, b, untouched_case[a][b], steered_case[a][b]) for a, b in OUTCOME_FIELDS
            if steered_case[a].get(b) != untouched_case[a].get(b)]
    if not diff or not steer_of(steered_case).get("applied") or not both_ok(untouched_case):
        return []
    if not both_ok(steered_case) and not steered_case["hvr_seen"]:
        # the server refused the rewritten hello itself, before answering it: denial of service is always possible
        return []
    st = {k: v for k, v in steer_of(steered_case).items() if v not in (None, False, 0)}
    return [("first-hello-rewrite-changes-the-association",
             "first ClientHello rewritten on path %s: %s" % (
                 json_dumps(st), "; ".join("%s %s %r -> %r" % d for d in diff)))]


def json_dumps(x):
    import json
    return json.dumps(x, sort_keys=True)


def monitor_hook(c):
    """ServerHello message hook: both sides report what the FINAL ServerHello says (C01 agreement on ALPN, suite and
    the session's name - the next connection over the same stores must find the session again)"""
    st = steer_of(c)
    if not (st.get("sh_alpn") or st.get("sh_suite") or st.get("sh_sessionid")) or not both_ok(c):
        return []
    cl, sv = c["client"], c["server"]
    bad = []
    if cl["alpn"] != sv["alpn"]:
        bad.append("ALPN client %r / server %r" % (cl["alpn"], sv["alpn"]))
    if cl["suite"] != sv["suite"]:
        bad.append("cipher suite client %#06x / server %#06x" % (cl["suite"], sv["suite"]))
    if st.get("sh_sessionid"):
        if cl.get("sessid") != sv.get("sessid"):
            bad.append("session id client %s / server %s" % (cl.get("sessid") or "''", sv.get("sessid") or "''"))
        nx = c.get("next") or {}
        if nx.get("run") and not nx.get("resumed"):
            bad.append("the next connection over the same two session stores (no hook) %s instead of resuming "
                       "(ClientHello offers a %d-byte session id, ServerHello echoes %d bytes, ServerHelloDone seen: %s)" % (
                           "makes a full handshake" if nx.get("ok") else "does not establish",
                           nx.get("ch_sidlen", 0), nx.get("sh_sidlen", 0), nx.get("shd_seen")))
    if not bad:
        return []
    return [("server-commits-pre-hook-server-hello",
             "ServerHello message hook %s: both sides report success with different views: %s" % (
                 json_dumps({k: v for k, v in st.items() if k in ("sh_alpn", "sh_suite", "sh_sessionid") and v}), "; ".join(bad)))]


def custom_suite(c):
    return bool(c["c"].get("custom") or c["s"].get("custom"))


# ----------------------------------------------------------------- bin/check Cnn --replay <file>

def replay_case(chk, path, tags, untouched=False):
    """rerun the single association of a stored finding through TestVerifC11X; returns the observed case (or None)"""
    with open(path) as f:
        body = json.load(f)
    case = (body.get("replay") or {}).get("case") or {}
    if "c" not in case or "s" not in case:
        chk.broken("replay file carries no option-set pair (model / build findings are rerun with bin/check)", path)
        return None, body

    def full(d):
        d = dict(d)
        d.setdefault("cid", -1)
        return json.dumps(d)
    env = {"C11X_C": full(case["c"]), "C11X_S": full(case["s"]), "C11X_GEN": case.get("gen", "x"),
           "C11X_RESUME": "1" if case.get("resume") else "", "VERIF_SEED": chk.seed, "VERIF_TIER": chk.tier}
    if case.get("steer") and not untouched:
        env["C11X_STEER"] = json.dumps(case["steer"])
    if case.get("mask"):
        env["C11X_MASK"] = json.dumps(case["mask"])
    if case.get("seed"):
        env["C11X_SEED_C"], env["C11X_SEED_S"] = full(case["seed"]["c"]), full(case["seed"]["s"])
    out = vlib.out_path("c11x")
    env["VERIF_OUT"] = out
    rc, o = vlib.go_test(".", "^TestVerifC11X$", env, tags=tags, timeout=600)
    rows = vlib.read_jsonl(out)
    vlib.cleanup(out)
    if rc != 0 or not rows:
        chk.broken("replay run TestVerifC11X failed", o)
        return None, body
    return rows[0], body
