"""C12 fragmentation / reassembly: theorems Properties/C12.v + correspondence of
Frag/Split.v with (*Conn).fragmentHandshake and of Frag/Buffer.v with the real FragmentBuffer driven as
conn.go bufferHandshakeRecord drives it; implementation-side monitors: popped message != honest
message, popped twice / out of order, popped while a byte is missing, complete but not popped,
retransmission flag, fragment body > MTU, resource bounds, panic.
Live leg (TestVerifC12Live, real endpoints in the virtual-time lab): re-fragmented retransmission of a
ClientHello, forged epoch-0 fragment of the DTLS 1.3 Certificate, MTU above the peer's read buffer /
above the record length, the library's own fragment trains beyond the receiver's limit."""
import hashlib
import json

import vlib
from vlib import cN, clist, cbool

IMPORTS = "From DtlsV Require Import Lib.Bytes Frag.Split Frag.Buffer Frag.BufferRun."

SITE_POP = "internal/fragmentbuffer/fragment_buffer.go Pop"
SITE_PUSH = "internal/fragmentbuffer/fragment_buffer.go Push"
SITE_SPLIT = "conn.go fragmentHandshake"
MAX_SIZE, MAX_COUNT = 2000000, 1000

# known findings of audit round 2 (registered in known_findings.json by (site, signature)); "levels" is
# filled in with the levels (buffer / live) at which the scenario reproduced in this run
K1 = (SITE_PUSH, {"monitor": "all-bytes-arrived-not-popped", "cause": "retransmission-with-other-fragment-size"})
K2 = (SITE_POP, {"monitor": "unprotected-fragment-in-protected-message"})
K3 = (SITE_SPLIT, {"monitor": "handshake-never-completes", "cause": "datagram-larger-than-inboundBufferSize"})
K4 = (SITE_PUSH, {"monitor": "handshake-never-completes", "cause": "more-fragments-than-fragmentBufferMaxCount"})


# ----------------------------------------------------------------- Coq term printers

def cbytes(h):
    """hex -> Coq bytes term; long constant stretches become (rep b n)"""
    b = bytes.fromhex(h)
    if len(b) <= 32:
        return clist([cN(x) for x in b])
    parts, lit, i = [], [], 0
    while i < len(b):
        j = i
        while j < len(b) and b[j] == b[i]:
            j += 1
        if j - i >= 24:
            if lit:
                parts.append(clist([cN(x) for x in lit]))
                lit = []
            parts.append("rep %d %d" % (b[i], j - i))
        else:
            lit += list(b[i:j])
        i = j
    if lit:
        parts.append(clist([cN(x) for x in lit]))
    return "(" + " ++ ".join(parts) + ")"


def cfrag(f):
    return "(mkFrag %d %d %d %d %s)" % (f["ty"], f["len"], f["seq"], f["off"], cbytes(f.get("data", "")))


def crec(r):
    if r["kind"] == "hs":
        return "(RHs %d %s %d)" % (r["ep"], clist([cfrag(f) for f in r.get("frags", [])]), r["tail"])
    return "(%s %d)" % ("RBad" if r["kind"] == "bad" else "ROther", r["n"])


def cop(op):
    if op["k"] == "adv":
        return "(HAdvance %d, (false, false, false, [], false, %d, %d, %d))" % (op["m"], op["sz"], op["cn"], op["cu"])
    pops = clist(["(%s, %d)" % (cbytes(p["raw"]), p["ep"]) for p in op["pops"]])
    return "(HArrive %s, (%s, %s, %s, %s, %s, %d, %d, %d))" % (
        crec(op["rec"]), cbool(op["res"][0]), cbool(op["res"][1]), cbool(op["res"][2]), pops,
        cbool(op["panic"]), op["sz"], op["cn"], op["cu"])


def ccase(c):
    return clist([cop(o) for o in c["ops"]])


def csplit(c):
    return "(%d, %d, %d, %d, %s, %s)" % (c["mtu"], c["ty"], c["hlen"], c["seq"], cbytes(c["body"] if c["len"] else ""),
                                         clist([cbytes(f) for f in c["frags"]]))


# ----------------------------------------------------------------- implementation-side monitors

def covered(ivs, length):
    """do the (off, flen) intervals cover [0, length) ?"""
    if length == 0:
        return len(ivs) > 0
    pos = 0
    for off, fl in sorted(ivs):
        if off > pos:
            return False
        pos = max(pos, off + fl)
    return pos >= length


def hdr(ty, length, seq, off, fl):
    return bytes([ty & 255]) + length.to_bytes(3, "big") + seq.to_bytes(2, "big") + off.to_bytes(3, "big") + fl.to_bytes(3, "big")


def monitor_bounds(c):
    """resource bounds + panic, for every case (hostile ones included)"""
    kmax = max([len(o["rec"].get("frags", [])) for o in c["ops"] if o["k"] == "push"] + [0])
    for i, o in enumerate(c["ops"]):
        if o.get("pushpanic"):
            return "panic", "Push/AdvanceTo panicked at op %d" % i
        if o.get("panic"):
            return "panic", "Pop panicked at op %d" % i
        if not (0 <= o["sz"] < MAX_SIZE):
            return "size-bound", "totalBufferSize %d at op %d" % (o["sz"], i)
        if not (0 <= o["cn"] <= MAX_COUNT - 1 + max(kmax, 1)):
            return "count-bound", "totalFragmentCount %d at op %d" % (o["cn"], i)
    return None


def monitor_honest(c, completeness):
    """the property's own predicate on an implementation trace whose fragments are all genuine
    slices of c['msgs']; `completeness`: also require delivery as soon as all fragments of
    messages 0..j have arrived (one partition per message, within the limits)."""
    msgs = c["msgs"]
    universe = {}
    maxrec = 0
    for o in c["ops"]:
        if o["k"] == "push":
            maxrec = max(maxrec, o["rec"]["n"])
            for f in o["rec"].get("frags", []):
                universe.setdefault(f["seq"], set()).add((f["off"], f["flen"]))
    # completeness is only owed within the fixed buffering limits (premises of C12_reassembly_complete)
    if sum(len(v) for v in universe.values()) >= MAX_COUNT or sum(m["len"] for m in msgs) + maxrec >= MAX_SIZE:
        completeness = False
    arrived = {}     # fragments handed to Push while their message was not yet delivered
    wire = {}        # every fragment that reached the receiver (even if Push refused the record)
    popped = 0
    for i, o in enumerate(c["ops"]):
        if o["k"] != "push":
            continue
        rec, res = o["rec"], o["res"]
        if rec["kind"] == "hs":
            for f in rec["frags"]:
                wire.setdefault(f["seq"], set()).add((f["off"], f["flen"]))
            if res[2]:
                if completeness:
                    return "push-error", "Push refused an honest record at op %d: %s" % (i, o.get("err"))
            else:
                want = [True, any(f["seq"] < popped for f in rec["frags"]), False]
                if res != want:
                    return "push-result", "Push returned %s, expected %s at op %d" % (res, want, i)
                for f in rec["frags"]:
                    if f["seq"] >= popped:
                        arrived.setdefault(f["seq"], set()).add((f["off"], f["flen"]))
        else:
            want = [False, False, rec["kind"] == "bad"]
            if res != want:
                return "push-result", "junk record: Push returned %s, expected %s at op %d" % (res, want, i)
        for p in o["pops"]:
            s = p["seq"]
            if s < popped:
                return "popped-twice", "message %d popped again at op %d" % (s, i)
            if s != popped:
                return "out-of-order", "message %d popped while %d is next (op %d)" % (s, popped, i)
            eq = p["eq"]
            if "raw" in p:
                m = msgs[s]
                body = bytes.fromhex(m.get("body", ""))
                eq = eq and bytes.fromhex(p["raw"]) == hdr(m["ty"], len(body), m["seq"], 0, len(body)) + body
            if not eq:
                return "popped-not-honest", "message %d popped with wrong bytes at op %d" % (s, i)
            if not covered(arrived.get(s, set()), msgs[s]["len"]):
                return "popped-while-missing", "message %d popped before all its bytes arrived (op %d)" % (s, i)
            popped += 1
        if completeness:
            k = 0
            while k < len(msgs) and wire.get(k, set()) >= universe.get(k, {None}):
                k += 1
            if popped < k:
                return "complete-not-popped", "all fragments of messages 0..%d arrived by op %d, %d popped" % (
                    k - 1, i, popped)
    return None


def monitor_all_bytes(c):
    """completeness as RFC 6347 4.2.3 / RFC 9147 5.5 ask for it (overlapping ranges handled): every
    genuine fragment that reached the receiver counts, whatever partition it belongs to. Fires when,
    at the end of the history, every byte of messages 0..k-1 has been on the wire and fewer than k
    messages were popped."""
    wire, popped = {}, 0
    for o in c["ops"]:
        if o["k"] != "push":
            continue
        if o["rec"]["kind"] == "hs":
            for f in o["rec"]["frags"]:
                wire.setdefault(f["seq"], set()).add((f["off"], f["flen"]))
        popped += len(o["pops"])
    k = 0
    while k < len(c["msgs"]) and covered(wire.get(k, set()), c["msgs"][k]["len"]):
        k += 1
    if popped < k:
        return "all-bytes-arrived-not-popped", "every byte of messages 0..%d arrived (%s), %d popped" % (
            k - 1, ", ".join("[%d,%d)" % (a, a + b) for a, b in
                             [(f["off"], f["flen"]) for o in c["ops"] if o["k"] == "push" and o["rec"]["kind"] == "hs"
                              for f in o["rec"]["frags"]][:8]), popped)
    return None


def monitor_epoch(c):
    """a message surfaced under epoch E consists of bytes that arrived in epoch-E records: the popped
    bytes are the genuine message (c['msgs'] = what the peer sent) and the epoch-E fragments cover it"""
    byep = {}
    for i, o in enumerate(c["ops"]):
        if o["k"] != "push" or o["rec"]["kind"] != "hs":
            continue
        for f in o["rec"]["frags"]:
            byep.setdefault((o["rec"]["ep"], f["seq"]), set()).add((f["off"], f["flen"]))
        for p in o["pops"]:
            m = c["msgs"][p["seq"]]
            body = bytes.fromhex(m.get("body", ""))
            want = hdr(m["ty"], len(body), m["seq"], 0, len(body)) + body
            got = bytes.fromhex(p["raw"])
            if got != want:
                diff = [j - 12 for j in range(12, min(len(got), len(want))) if got[j] != want[j]]
                return "unprotected-fragment-in-protected-message", (
                    "message %d surfaced under epoch %d differs from what the peer sent in bytes [%d,%d]: they come "
                    "from a fragment that arrived in a record of another epoch (op %d)" % (
                        p["seq"], p["ep"], diff[0] if diff else -1, diff[-1] if diff else -1, i))
            if not covered(byep.get((p["ep"], p["seq"]), set()), m["len"]):
                return "unprotected-fragment-in-protected-message", (
                    "message %d surfaced under epoch %d although its epoch-%d fragments do not cover it" % (
                        p["seq"], p["ep"], p["ep"]))
    return None


def max_concurrent(c):
    """largest number of different messages with stored fragments (not yet delivered) at any time"""
    live, popped, best = set(), 0, 0
    for o in c["ops"]:
        if o["k"] != "push" or o["rec"]["kind"] != "hs" or o["res"][2]:
            continue
        for f in o["rec"]["frags"]:
            if f["seq"] >= popped:
                live.add(f["seq"])
        best = max(best, len(live))
        popped += len(o["pops"])
        live = {x for x in live if x >= popped}
    return best


def has_overlap(c):
    seen = {}
    for o in c["ops"]:
        if o["k"] == "push":
            for f in o["rec"].get("frags", []):
                seen.setdefault(f["seq"], set()).add((f["off"], f["flen"]))
    for ivs in seen.values():
        l = sorted(i for i in ivs if i[1] > 0)
        for a, b in zip(l, l[1:]):
            if b[0] < a[0] + a[1]:
                return True
    return False


def exact_sum_hole(c):
    """does the history reach a state where the first-writer-wins fragments of the next undelivered
    message sum to its length although a byte is missing?"""
    stored, popped = {}, 0
    for o in c["ops"]:
        if o["k"] != "push" or o["rec"]["kind"] != "hs" or o["res"][2]:
            continue
        for f in o["rec"]["frags"]:
            if f["seq"] >= popped and not (f["flen"] == 0 and (f["len"] != 0 or f["off"] != 0)):
                stored.setdefault(f["seq"], {}).setdefault(f["off"], f["flen"])
        cur = stored.get(popped, {})
        if popped < len(c["msgs"]) and cur:
            length = c["msgs"][popped]["len"]
            if sum(cur.values()) == length and not covered(set(cur.items()), length):
                return True
        popped += len(o["pops"])
    return False


def monitor_split(c):
    if c.get("panic"):
        return "panic", "fragmentHandshake panicked"
    if c.get("err"):
        return "split-error", c["err"]
    if c["maxbody"] > c["mtu"]:
        return "fragment-over-mtu", "fragment body %d > MTU %d" % (c["maxbody"], c["mtu"])
    if not (c["catok"] and c["offok"] and c["hdrok"]):
        return "split-wrong", "bodies/offsets/headers do not reproduce the message"
    if c["n"] != max(1, -(-c["len"] // c["mtu"])):
        return "split-count", "%d fragments for %d bytes at MTU %d" % (c["n"], c["len"], c["mtu"])
    return None


def retx_stats(c):
    """leg retx: (pushed records, arrivals of fragments already held while their message is pending,
    arrivals of fragments of already delivered messages, largest totalFragmentCount)"""
    held, popped, dups, late = set(), 0, 0, 0
    for o in c["ops"]:
        if o["k"] != "push" or o["rec"]["kind"] != "hs":
            continue
        for f in o["rec"]["frags"]:
            k = (f["seq"], f["off"])
            if f["seq"] < popped:
                late += 1
            elif k in held:
                dups += 1
            else:
                held.add(k)
        popped += len(o["pops"])
    return len(c["ops"]), dups, late, max([o["cn"] for o in c["ops"]] + [0])


def retx_replay(c, rerun):
    """replay of a retransmission-heavy history: the messages (bodies in hex), the transmission schedule
    (enough to rebuild every pushed record: one fragment of the sender's partition per record, epoch 0) and
    the first refused / last ops instead of thousands of op records"""
    ops = c["ops"]
    bad = next((i for i, o in enumerate(ops) if o["k"] == "push" and o["res"][2]), None)
    held, popped = {}, 0
    upto = bad if bad is not None else len(ops)
    for o in ops[:upto]:
        if not o["res"][2]:
            for f in o["rec"].get("frags", []):
                if f["seq"] >= popped:
                    held.setdefault(f["seq"], set()).add(f["off"])
        popped += len(o["pops"])
    rp = {"msgs": c["msgs"], "schedule": c.get("retx"), "pushed_records": len(ops),
          "how": "for every transmission t, for every message (order 'sequential') or fragment index (order "
                 "'alternating'), Push one epoch-0 handshake record with one fragment of the message cut at msgs[i].mtu, "
                 "skipping schedule.lost[t]; Pop until nil after every accepted Push",
          "popped_messages": sum(len(o["pops"]) for o in ops), "rerun": rerun}
    if bad is not None:
        rp["first_refused_op"] = {"index": bad, "op": {k: v for k, v in ops[bad].items() if k != "raw"},
                                  "fragments_held_then": sum(len(v) for k, v in held.items() if k >= popped),
                                  "bytes_held_then_at_most": sum(m["len"] for m in c["msgs"]),
                                  "counters_before": [ops[bad - 1]["sz"], ops[bad - 1]["cn"]] if bad else [0, 0]}
    rp["first_ops"] = ops[:3]
    return rp


def key_of(c):
    h = hashlib.sha256()
    for o in c["ops"]:
        if o["k"] == "adv":
            h.update(b"a%d" % o["m"])
        else:
            r = o["rec"]
            h.update(("p%s%d:" % (r["kind"], r["n"])).encode())
            for f in r.get("frags", []):
                h.update(("%d,%d,%d,%d,%d;" % (f["ty"], f["len"], f["seq"], f["off"], f["flen"])).encode())
    return h.hexdigest()[:16]


def strip_case(c, limit=40):
    """a compact copy for replay files"""
    d = dict(c)
    if len(d["ops"]) > limit:
        d["ops"] = d["ops"][:limit]
        d["truncated_ops"] = len(c["ops"])
    return d


# ----------------------------------------------------------------- driver

def run(chk):
    proved = chk.prove(["theories/Frag/BufferRun.vo"])
    out_b = vlib.out_path("c12b")
    out_s = vlib.out_path("c12s")
    env = {"VERIF_SEED": chk.seed, "VERIF_TIER": chk.tier}
    rc1, o1 = vlib.go_test("./internal/fragmentbuffer", "^TestVerifC12Buffer$", dict(env, VERIF_OUT=out_b),
                           timeout=1800, tags=["c12"])
    rc2, o2 = vlib.go_test(".", "^TestVerifC12Split$", dict(env, VERIF_OUT=out_s), timeout=1800, tags=["c12"])
    out_l = vlib.out_path("c12l")
    rc3, o3 = vlib.go_test(".", "^TestVerifC12Live$", dict(env, VERIF_OUT=out_l), timeout=1800, tags=["c12"])
    cases = vlib.read_jsonl(out_b)
    splits = vlib.read_jsonl(out_s)
    live = vlib.read_jsonl(out_l)
    vlib.cleanup(out_b)
    vlib.cleanup(out_s)
    vlib.cleanup(out_l)
    rerun = "VERIF_SEED=%d bin/check C12 --tier %s" % (chk.seed, chk.tier)
    found_input = False
    for rc, o, nm, site in ((rc1, o1, "TestVerifC12Buffer", SITE_POP), (rc2, o2, "TestVerifC12Split", SITE_SPLIT),
                            (rc3, o3, "TestVerifC12Live", "conn.go bufferHandshakeRecord")):
        if rc != 0:
            kind = vlib.classify_go_failure(o)
            if kind == "panic":
                chk.finding(site, {"monitor": "panic", "test": nm}, "uncaught panic in " + nm,
                            {"test": nm, "output": o[-3000:]})
                found_input = True
            else:
                chk.broken("correspondence harness %s no longer runs against /repo (%s)" % (nm, kind), o)
    if rc1 == 0 and not cases:
        chk.broken("TestVerifC12Buffer produced no cases", o1)
    if rc2 == 0 and not splits:
        chk.broken("TestVerifC12Split produced no cases", o2)
    if rc3 == 0 and not live:
        chk.broken("TestVerifC12Live produced no observations", o3)

    by_leg = {}
    for c in cases:
        by_leg.setdefault(c["leg"], []).append(c)
    reg = {c["note"]: c for c in by_leg.get("regress", [])}
    bnd = {c["note"]: c for c in by_leg.get("boundary", [])}

    # ---- implementation-side monitors ------------------------------------------------------
    # (1) regression corpus (runs first): the two inputs that failed before the fix in the tree
    w = reg.get("old-panic-input")
    if w is None or reg.get("zero-fragment") is None:
        if rc1 == 0:
            chk.broken("regression corpus cases missing from TestVerifC12Buffer output", o1)
    if w is not None:
        o = w["ops"][0]
        if o["panic"] or o.get("pushpanic"):
            found_input = True
            chk.finding(SITE_POP, {"monitor": "panic", "input": o["raw"]},
                        "Pop dereferences the nil fragmentByOffset[0]: nil-pointer panic after one Push of a handshake "
                        "fragment with Length=0, fragment_length=0, fragment_offset=1",
                        {"how": "fb := fragmentbuffer.New(); fb.Push(payload); fb.Pop()", "payload_hex": o["raw"],
                         "observed": o, "rerun": rerun})
        elif o["res"] != [True, False, False] or o["pops"] or o["cn"] != 0 or o["sz"] != 0:
            found_input = True
            chk.finding(SITE_PUSH, {"monitor": "empty-fragment-not-inert", "input": o["raw"]},
                        "an empty fragment at a non-zero offset was not ignored", {"observed": o, "rerun": rerun})
    w = reg.get("zero-fragment")
    if w is not None:
        m = monitor_bounds(w) or monitor_honest(w, completeness=True)
        if m:
            found_input = True
            chk.finding(SITE_PUSH, {"monitor": m[0], "input": "4-byte message, partition (0,2)(2,0)(2,2), arrival (0,2),(2,0),(2,2)"},
                        m[1], {"case": w, "rerun": rerun})
    # (1b) liveness boundaries replayed at fragment-buffer level: safety monitors must hold (anything else
    # is a fresh violation); what the implementation did feeds the known findings K-C12-1/2/4 below
    k_buf = {1: [], 2: [], 4: []}          # known-finding number -> [(note, monitor message, case)]
    for note in ("repartition", "refragmented-retransmission", "capacity"):
        w = bnd.get(note)
        if w is None:
            if rc1 == 0:
                chk.broken("boundary case %r missing from TestVerifC12Buffer output" % note, o1)
            continue
        m = monitor_bounds(w) or monitor_honest(w, completeness=False)
        if m:
            found_input = True
            chk.finding(SITE_POP, {"monitor": m[0], "boundary": note}, m[1], {"case": strip_case(w), "rerun": rerun})
            continue
        m = monitor_all_bytes(w)
        if m:
            overflow = any(o["k"] == "push" and o["res"][2] for o in w["ops"])
            if note == "capacity" and not overflow:
                found_input = True
                chk.finding(SITE_POP, {"monitor": m[0], "boundary": note}, m[1] + " (no Push was refused)",
                            {"case": strip_case(w), "rerun": rerun})
            else:
                k_buf[4 if note == "capacity" else 1].append((note, m[1], strip_case(w, 12)))
    w = bnd.get("epoch-splice")
    if w is None:
        if rc1 == 0:
            chk.broken("boundary case 'epoch-splice' missing from TestVerifC12Buffer output", o1)
    else:
        m = monitor_bounds(w)
        if m:
            found_input = True
            chk.finding(SITE_POP, {"monitor": m[0], "boundary": "epoch-splice"}, m[1], {"case": w, "rerun": rerun})
        else:
            m = monitor_epoch(w)
            if m:
                k_buf[2].append(("epoch-splice", m[1], w))
    w = bnd.get("repartition")
    if w is not None:
        chk.leg_info("boundary", repartition={
            "what": "fragments of the MTU-2 and MTU-3 partitions of one 4-byte message mixed: (0,2),(3,1),(2,2) -> "
                    "fragmentsLength 5 != 4 for ever (BufferSound.repartition_wedges_refuted); "
                    "'refragmented-retransmission': [0,100) then twice [0,150),[150,200) of a 200-byte message "
                    "(BufferSound.refragmented_retransmission_refuted). Safety holds (reassembly_safe covers any mixture "
                    "of genuine slices); liveness does not: known finding K-C12-1 (RFC 6347 4.2.3 asks receivers to "
                    "handle overlapping ranges).",
            "messages_popped_on_implementation": sum(len(o["pops"]) for o in w["ops"])})
    w = bnd.get("capacity")
    if w is not None:
        chk.leg_info("boundary", capacity_is_the_fixed_buffering_limit={
            "what": "a message cut into 1001 fragments exceeds fragmentBufferMaxCount: after 1000 stored fragments every "
                    "Push returns ErrFragmentBufferOverflow (BufferSound.capacity_wedges_refuted / full_rejects_forever); "
                    "the limit itself is what C08 requires and stays a premise of C12_reassembly_complete; that the "
                    "library's own sender produces such trains is known finding K-C12-4",
            "pushes": len(w["ops"]), "push_errors": sum(1 for o in w["ops"] if o["res"][2]),
            "max_count_seen": max(o["cn"] for o in w["ops"]),
            "messages_popped_on_implementation": sum(len(o["pops"]) for o in w["ops"])})

    # (1c) live leg: real endpoints. Controls must pass (otherwise the harness is broken); every run is
    # checked for the sender-side clauses (fragment body <= MTU, well-formed records); the test variants
    # feed the known findings
    lv = {(x["scenario"], x["variant"]): x for x in live}
    k_live = {1: [], 2: [], 3: [], 4: []}

    def hs_ok(x):
        return x["done"] and x["cerr"] == "ok" and x["serr"] == "ok"

    def need(sc, var):
        x = lv.get((sc, var))
        if x is None and rc3 == 0:
            chk.broken("live observation %s/%s missing from TestVerifC12Live output" % (sc, var), o3)
        return x

    for x in live:
        if x["scenario"] == "repartition":
            continue
        site_live = {"scenario": x["scenario"], "variant": x["variant"]}
        if x["wirebad"]:
            found_input = True
            chk.finding(SITE_SPLIT, {"monitor": "record-length-does-not-match-fragment", "scenario": x["scenario"]},
                        "the sender wrote a handshake record that no receiver can parse: " + x.get("wirebadwhat", ""),
                        {"live": x, "how": x["params"], "rerun": rerun})
        elif x["maxfragbody"] > x["mtu"]:
            found_input = True
            chk.finding(SITE_SPLIT, dict(site_live, monitor="fragment-over-mtu"),
                        "live sender: fragment body %d > MTU %d" % (x["maxfragbody"], x["mtu"]), {"live": x, "rerun": rerun})
    ctl_ok = True
    for sc, var in (("repartition", "control"), ("repartition", "control600"), ("epoch-splice", "control"),
                    ("jumbo", "control"), ("train", "control"), ("train34k", "control")):
        x = need(sc, var)
        if x is None:
            ctl_ok = False
            continue
        good = (x["answered"] and x["cover"]) if sc == "repartition" else hs_ok(x)
        if sc == "epoch-splice":
            good = good and x["certsame"] and x["certepochrx"] >= 2
        if not good:
            ctl_ok = False
            found_input = True
            chk.finding("conn.go bufferHandshakeRecord", {"monitor": "live-control-failed", "scenario": sc, "variant": var},
                        "%s/%s: a handshake that differs from the scenario only in the one parameter does not "
                        "complete (%s)" % (sc, var, x["params"]), {"live": x, "rerun": rerun})
    x = need("repartition", "test")
    if x is not None and ctl_ok:
        if not x["cover"]:
            chk.broken("live repartition scenario does not deliver every byte", json.dumps(x))
        elif not x["answered"]:
            k_live[1].append(x)
    x = need("epoch-splice", "test")
    if x is not None and ctl_ok:
        if x["forgedinside"] or (x["certepochrx"] >= 0 and not x["certsame"]):
            k_live[2].append(x)
        elif not hs_ok(x):
            found_input = True
            chk.finding(SITE_POP, {"monitor": "forged-epoch0-fragment-breaks-handshake"},
                        "one forged epoch-0 handshake fragment makes the DTLS 1.3 handshake fail although it did not "
                        "become part of the Certificate (client: %s; server: %s)" % (x["cerr"], x["serr"]),
                        {"live": x, "rerun": rerun})
    x = need("jumbo", "test")
    if x is not None and ctl_ok and not hs_ok(x):
        if x["largest"] > x["inboundbuffer"]:
            k_live[3].append(x)
        else:
            found_input = True
            chk.finding(SITE_SPLIT, {"monitor": "handshake-never-completes", "scenario": "jumbo"},
                        "handshake does not complete (%s) although no datagram exceeds the read buffer" % x["params"],
                        {"live": x, "rerun": rerun})
    for sc in ("train", "train34k"):
        x = need(sc, "test")
        if x is not None and ctl_ok and not hs_ok(x):
            if x["trainfrags"] > MAX_COUNT:
                k_live[4].append(x)
            else:
                found_input = True
                chk.finding(SITE_PUSH, {"monitor": "handshake-never-completes", "scenario": sc},
                            "handshake does not complete (%s) although no message has more than %d fragments" % (
                                x["params"], MAX_COUNT), {"live": x, "rerun": rerun})
    x = need("record-len", "test")
    if x is not None:
        chk.leg_info("live", mtu_above_record_length={
            "what": "WithMTU(100000) and a certificate longer than 65535 bytes: the write is refused "
                    "(ErrRecordTooLong, fix 9ff70b9) instead of wrapping the record length; nothing malformed on the wire",
            "server_error": x["serr"], "malformed_records": x["wirebad"]})

    # the known findings: one (site, signature) each; `levels` = where the scenario reproduced in this run
    def known(kdef, n, what):
        levels = (["buffer"] if k_buf.get(n) else []) + (["live"] if k_live[n] else [])
        if not levels:
            return False
        replay = {"rerun": rerun}
        if k_buf.get(n):
            replay["buffer"] = [{"case": note, "observed": msg, "history": case} for note, msg, case in k_buf[n]]
            replay["how_buffer"] = "fb := fragmentbuffer.New(); for each op: fb.Push(record) then fb.Pop() until nil"
        if k_live[n]:
            replay["live"] = k_live[n]
            replay["how_live"] = "go test -tags verif -run TestVerifC12Live (harness/overlay/root/zz_verif_c12_live_test.go)"
        return chk.finding(kdef[0], dict(kdef[1], levels=levels), what, replay)

    def first(l, key, default="-"):
        return l[0][key] if l else default

    found_input |= known(K1, 1,
        "a message retransmitted with a different fragment size is never reassembled although every byte arrived "
        "(fragments are keyed by offset, first writer wins; RFC 6347 4.2.3 requires handling overlapping ranges): "
        "buffer: [0,100) then twice [0,150),[150,200) of a 200-byte message -> nothing popped; live DTLS 1.2 server: "
        "%s, fragments %s -> the server never answers" % (
            first(k_live[1], "params"), first(k_live[1], "parts")))
    found_input |= known(K2, 2,
        "fragments of one message are not bound to one epoch: a forged fragment from an unprotected epoch-0 record "
        "becomes part of a message surfaced under a protected epoch. Live DTLS 1.3: one forged datagram (%s) delivered "
        "to the client before the server flight -> the Certificate cached under epoch %s differs from what the server "
        "sent; client: %s; server: %s" % (first(k_live[2], "forged"), first(k_live[2], "certepochrx"),
                                          first(k_live[2], "cerr"), first(k_live[2], "serr")))
    found_input |= known(K3, 3,
        "the MTU is not bounded by what the receiving side can read: %s -> a %s-byte datagram, the peer reads "
        "datagrams into %s bytes (inboundBufferSize) and never reconstructs the Certificate; handshake pending "
        "after %s virtual ms on a lossless in-order link" % (
            first(k_live[3], "params"), first(k_live[3], "largest"), first(k_live[3], "inboundbuffer"),
            first(k_live[3], "virtualms")))
    found_input |= known(K4, 4,
        "the library's own sender cuts a message into more fragments than the receiver ever holds "
        "(fragmentBufferMaxCount = %d): %s -> handshake message type %s of %s bytes sent as %s fragments, every "
        "retransmission refused from fragment %d on; handshake pending after %s virtual ms" % (
            MAX_COUNT, first(k_live[4], "params"), first(k_live[4], "trainmsgtype"), first(k_live[4], "trainmsglen"),
            first(k_live[4], "trainfrags"), MAX_COUNT + 1, first(k_live[4], "virtualms")))

    # (2) generated honest histories
    # leg retx is only meaningful if its last transmission really delivers every byte of every message: a
    # history that does not is a defect of the generator, never of the library
    for c in by_leg.get("retx", []):
        wire = {}
        for o in c["ops"]:
            for f in o["rec"].get("frags", []):
                wire.setdefault(f["seq"], set()).add((f["off"], f["flen"]))
        short = [m["seq"] for m in c["msgs"] if not covered(wire.get(m["seq"], set()), m["len"])
                 or len(wire.get(m["seq"], set())) != c["retx"]["frags"][m["seq"]]]
        if short:
            chk.broken("C12 leg retx: generated history %d never sends every fragment of message(s) %s" % (c["id"], short),
                       json.dumps(c.get("retx"))[:2000])
            break
    for leg in ("retx", "many", "multi", "exh", "small", "big"):
        for c in by_leg.get(leg, []):
            m = monitor_bounds(c) or monitor_honest(c, completeness=c["onepar"])
            if m is None and leg in ("many", "retx"):
                m = monitor_all_bytes(c)
            if m:
                found_input = True
                if leg == "retx":
                    n, dups, late, cn = retx_stats(c)
                    what = ("%s - retransmission-heavy honest history: messages of %s fragments, %d transmissions, "
                            "%d records pushed, %d of them duplicates of fragments already held; largest "
                            "totalFragmentCount %d although at most %d distinct fragments exist" % (
                                m[1], c["retx"]["frags"], c["retx"]["transmissions"], n, dups, cn, sum(c["retx"]["frags"])))
                    chk.finding(SITE_POP if m[0] != "push-error" else SITE_PUSH, {"monitor": m[0], "leg": leg}, what,
                                retx_replay(c, rerun))
                    break
                chk.finding(SITE_POP if m[0] != "push-error" else SITE_PUSH, {"monitor": m[0], "leg": leg}, m[1],
                            {"case": strip_case(c), "rerun": rerun})
                break
    # (3) hostile / limits: bounds and panics
    for leg in ("hostile", "limits"):
        for c in by_leg.get(leg, []):
            m = monitor_bounds(c)
            if m:
                found_input = True
                chk.finding(SITE_POP, {"monitor": m[0], "leg": leg}, m[1], {"case": strip_case(c), "rerun": rerun})
                break
    # (4) sender
    for c in splits:
        m = monitor_split(c)
        if m:
            found_input = True
            chk.finding(SITE_SPLIT, {"monitor": m[0]}, m[1], {"case": c, "rerun": rerun})
            break

    # ---- correspondence with the model, evaluated inside Coq ---------------------------------
    ok_model, mo = vlib.coq_make(["theories/Frag/BufferRun.vo"])
    if not ok_model:
        chk.broken("model Frag/BufferRun.v no longer compiles", mo)
    else:
        rx_cases = [c for c in cases if c["leg"] == "retx"]
        coq_cases = [c for c in cases if c["leg"] not in ("big", "retx")]
        # heavy cases first so that shards balance
        terms = [ccase(c) for c in coq_cases]
        bad, err = vlib.coq_mismatches("c12b", IMPORTS, "buf_case", "buf_case_ok", terms, shard=250, timeout=1500)
        if bad is not None and rx_cases:
            # leg retx: thousands of ops per history, one coqc process per history (all of them are sent)
            bad_rx, err = vlib.coq_mismatches("c12r", IMPORTS, "buf_case", "buf_case_ok", [ccase(c) for c in rx_cases],
                                              shard=1, timeout=1500)
            bad = None if bad_rx is None else bad + [len(coq_cases) + i for i in bad_rx]
        coq_cases = coq_cases + rx_cases
        if bad is None:
            chk.broken("correspondence evaluation (buffer) failed in coqc", err)
        else:
            for i in bad[:1]:
                c = coq_cases[i]
                m = monitor_bounds(c) or (monitor_honest(c, completeness=c["onepar"]) if c["honest"] else None)
                chk.finding(SITE_POP, {"monitor": "model-mismatch", "leg": c["leg"]},
                            "FragmentBuffer behaviour differs from Frag/Buffer.v" + (": " + m[1] if m else ""),
                            dict(retx_replay(c, rerun) if c["leg"] == "retx" else {"case": strip_case(c), "rerun": rerun},
                                 correspondence="Frag.BufferRun.buf_case_ok"),
                            no_input=(m is None and not found_input))
        small_splits = [c for c in splits if c.get("frags") is not None and not c.get("err") and not c.get("panic")]
        sterms = [csplit(c) for c in small_splits]
        bad, err = vlib.coq_mismatches("c12s", IMPORTS, "split_case", "split_case_ok", sterms)
        if bad is None:
            chk.broken("correspondence evaluation (split) failed in coqc", err)
        else:
            for i in bad[:1]:
                m = monitor_split(small_splits[i])
                chk.finding(SITE_SPLIT, {"monitor": "model-mismatch"},
                            "fragmentHandshake output differs from Frag/Split.v" + (": " + m[1] if m else ""),
                            {"case": small_splits[i], "correspondence": "Frag.BufferRun.split_case_ok", "rerun": rerun},
                            no_input=(m is None and not found_input))

        # ---- coverage accounting -------------------------------------------------------------
        for leg in ("exh", "small", "big"):
            cs = by_leg.get(leg, [])
            nontriv = [c for c in cs if sum(len(o["pops"]) for o in c["ops"]) >= 1 and
                       sum(len(o["rec"].get("frags", [])) for o in c["ops"] if o["k"] == "push") >= 2]
            chk.count(leg, len(cs), [key_of(c) for c in nontriv],
                      samples=[{"msgs": [(m["len"], m["mtu"]) for m in c["msgs"]], "pushes": len(c["ops"]),
                                "popped": sum(len(o["pops"]) for o in c["ops"])} for c in nontriv[-2:]])
        mn = by_leg.get("many", [])
        nontriv = [c for c in mn if len(c["msgs"]) >= 2 and sum(len(o["pops"]) for o in c["ops"]) == len(c["msgs"])]
        chk.count("many", len(mn), [key_of(c) for c in nontriv],
                  samples=[{"order": c.get("note"), "messages": len(c["msgs"]), "pushes": len(c["ops"]),
                            "max_under_reassembly": max_concurrent(c),
                            "popped": sum(len(o["pops"]) for o in c["ops"])} for c in nontriv[-2:]])

        def hist(vals):
            h = {}
            for v in vals:
                h[v] = h.get(v, 0) + 1
            return {str(k): h[k] for k in sorted(h)}
        chk.leg_info("many", messages_per_history=hist(len(c["msgs"]) for c in mn),
                     max_messages_under_reassembly_at_once=hist(max_concurrent(c) for c in mn),
                     arrival_orders=hist(c.get("note") for c in mn),
                     fragments_per_history_max=max([sum(len(o["rec"].get("frags", [])) for o in c["ops"]) for c in mn] + [0]),
                     note="2..16 fragmented messages per history (half with 9..16), one partition each, every byte arrives, "
                          "far inside both limits; later messages arrive wholly before earlier ones (reverse message order / "
                          "random permutation across all messages, with and without every fragment duplicated); "
                          "non-trivial = every message delivered; completeness monitors + Coq correspondence")
        for leg in ("small", "big"):
            chk.leg_info(leg, messages_per_history=hist(len(c["msgs"]) for c in by_leg.get(leg, [])))
        rx = by_leg.get("retx", [])
        rstats = [retx_stats(c) for c in rx]
        nontriv = [c for c, st in zip(rx, rstats)
                   if st[1] >= 100 and sum(len(o["pops"]) for o in c["ops"]) == len(c["msgs"])]
        chk.count("retx", len(rx), [key_of(c) for c in nontriv],
                  samples=[{"fragments_per_message": c["retx"]["frags"], "mtu": [m["mtu"] for m in c["msgs"]],
                            "transmissions": c["retx"]["transmissions"], "order": c["retx"]["order"],
                            "lost_per_transmission": [len(l) for l in c["retx"]["lost"]],
                            "pushed": st[0], "duplicates_of_held_fragments": st[1],
                            "retransmissions_of_delivered_messages": st[2], "max_totalFragmentCount": st[3],
                            "popped": sum(len(o["pops"]) for o in c["ops"])} for c, st in list(zip(rx, rstats))[:3]])

        def bucket(vals, step):
            h = {}
            for v in vals:
                b = v // step * step
                h[b] = h.get(b, 0) + 1
            return {"%d-%d" % (b, b + step - 1): h[b] for b in sorted(h)}
        chk.leg_info("retx", histories=len(rx), sent_to_coq=len(rx),
                     fragments_per_message=bucket([n for c in rx for n in c["retx"]["frags"]], 50),
                     messages_per_history=hist(len(c["msgs"]) for c in rx),
                     transmissions_per_history=hist(c["retx"]["transmissions"] for c in rx),
                     pushed_records_per_history=bucket([st[0] for st in rstats], 500),
                     duplicates_of_held_fragments_per_history=bucket([st[1] for st in rstats], 250),
                     duplicates_per_history_list=sorted(st[1] for st in rstats)[:80],
                     histories_with_1000_or_more_duplicates=sum(1 for st in rstats if st[1] >= MAX_COUNT),
                     max_totalFragmentCount_seen=max([st[3] for st in rstats] + [0]),
                     note="retransmission-heavy honest histories: a flight of 2..3 messages of 100..400 fragments (MTU 1..10, "
                          "< 1000 distinct fragments) transmitted 3..12 times, 1..3 fragments (mostly of the first message) lost "
                          "in every transmission but the last, plus 0.5% random loss; sequential or alternating interleaving of "
                          "the messages; 1000..5000 records per history, every already received fragment arrives again as a "
                          "duplicate. Monitors: no honest record refused (what is held stays below both limits), every message "
                          "delivered once in order as soon as complete (monitor_honest completeness + monitor_all_bytes); every "
                          "history also compared op by op (Push triple, pops, size/count/cursor) with Frag/Buffer.v in Coq, one "
                          "coqc process per history. non-trivial = at least 100 duplicates of held fragments and every message "
                          "delivered. Theorems: C12_accounting_exact, C12_duplicate_record_free, C12_refusal_only_at_limits, "
                          "C12_charge_before_duplicate_check_refuted")
        ms = by_leg.get("multi", [])
        nontriv = [c for c in ms if has_overlap(c)]
        chk.count("multi", len(ms), [key_of(c) for c in nontriv],
                  samples=[{"msgs": [m["len"] for m in c["msgs"]], "pushes": len(c["ops"]),
                            "popped": sum(len(o["pops"]) for o in c["ops"])} for c in nontriv[-2:]])
        chk.leg_info("multi", exact_sum_with_missing_bytes=sum(1 for c in ms if exact_sum_hole(c)),
                     cases_with_pops=sum(1 for c in ms if any(o["pops"] for o in c["ops"])),
                     note="non-trivial = two different fragments of one message overlap; exact_sum_with_missing_bytes = "
                          "histories in which the stored fragment lengths of the next message sum to its length "
                          "while some byte was never received (must not be surfaced)")
        hs = by_leg.get("hostile", [])
        nontriv = [c for c in hs if any(o["cn"] > 0 for o in c["ops"]) and
                   (any(o["k"] == "push" and o["res"][2] for o in c["ops"]) or any(o["pops"] for o in c["ops"])
                    or any(o.get("panic") for o in c["ops"]))]
        chk.count("hostile", len(hs), [key_of(c) for c in nontriv],
                  samples=[{"ops": len(c["ops"]), "panic": any(o.get("panic") for o in c["ops"]),
                            "popped": sum(len(o["pops"]) for o in c["ops"])} for c in nontriv[-2:]])
        chk.leg_info("hostile", pop_panics=sum(1 for c in hs if any(o.get("panic") for o in c["ops"])),
                     pops=sum(len(o["pops"]) for c in hs for o in c["ops"]))
        for leg in ("limits", "regress", "boundary"):
            cs = by_leg.get(leg, [])
            chk.count(leg, len(cs), [key_of(c) for c in cs],
                      samples=[{"note": c.get("note"), "ops": len(c["ops"]),
                                "max_count": max(o["cn"] for o in c["ops"]), "max_size": max(o["sz"] for o in c["ops"])}
                               for c in cs[:3]])
        nts = [c for c in splits if c["n"] >= 2]
        chk.count("split", len(splits), [(c["mtu"], c["len"], c["ty"], c["seq"]) for c in nts],
                  samples=[{"mtu": c["mtu"], "len": c["len"], "n": c["n"]} for c in nts[-2:]])
        chk.leg_info("split", in_coq=len(small_splits), go_only_checked_against_body=len(splits) - len(small_splits))
        chk.leg_info("big", note="messages up to 40000 bytes / MTU up to 2000: popped bytes compared with the honest "
                                 "message inside the harness (bytes.Equal), monitors on offsets/lengths here; not sent to Coq")
        chk.count("live", len(live), [(x["scenario"], x["variant"]) for x in live if x["variant"] != "control"],
                  samples=[{"scenario": x["scenario"], "variant": x["variant"], "params": x["params"], "done": x["done"],
                            "answered": x["answered"]} for x in live if x["variant"] == "test"][:3])
        chk.leg_info("live", note="real endpoints in the virtual-time lab; not sent to Coq (the reassembly state is "
                                  "compared with the model in the buffer legs); judged by control/test pairs",
                     observations=[{k: x[k] for k in ("scenario", "variant", "params", "done", "cerr", "serr", "answered",
                                                      "largest", "trainfrags", "virtualms")} for x in live])
        chk.leg_info("multi", all_bytes_arrived_not_popped=sum(1 for c in ms if monitor_all_bytes(c)),
                     note2="all_bytes_arrived_not_popped = random re-fragmenting histories that are further instances of "
                           "known finding K-C12-1 (every byte of a message on the wire, message not delivered)")
        chk.cov["traces_validated_against_impl"] += len(coq_cases) + len(small_splits)
    if not proved and not found_input:
        where, out = getattr(chk, "proof_error", ("?", ""))
        chk.broken("proof obligation Properties/C12.v no longer checks (%s)" % where, out)
    chk.finish(
        level="proof",
        rule="buffer legs: op lists (Push of hand-encoded record payloads / AdvanceTo) through the real FragmentBuffer "
             "driven as conn.go bufferHandshakeRecord does; every Push triple, every popped message (bytes + epoch), "
             "Pop panics and the private counters after each op compared with Frag/Buffer.v inside Coq "
             "(exh: all partitions x all arrival permutations x one duplicate, bodies <= 4 bytes / 2 messages <= 2 bytes; "
             "small: 1-5 messages <= 64 bytes, MTU 1..70, shuffles + duplicates + 1-3 fragments per record + junk "
             "records; hostile: inconsistent Length, overlapping offsets, zero-length fragments, 24-bit extremes, broken "
             "tails, AdvanceTo; multi: a re-fragmenting peer - 2-3 partitions of each of 1-3 messages with losses, "
             "interleaved, incl. overlaps whose lengths sum exactly to the message length with bytes missing - "
             "safety monitors only; many: 2..16 fragmented messages under reassembly at once (half of the histories 9..16), "
             "later messages wholly before earlier ones - reverse message order / random permutation across all messages, "
             "with and without every fragment duplicated, < 300 fragments and < 2 kB per history - completeness monitors "
             "and Coq correspondence (the model has no bound on the number of messages other than message_seq < 65536); "
             "retx: retransmission-heavy honest histories - 2..3 messages of 100..400 fragments (MTU 1..10) transmitted 3..12 "
             "times with a few fragments lost until the last transmission, 1000..5000 pushed records, hundreds to thousands "
             "of duplicates of fragments already held - no record may be refused, every message delivered once, in order; "
             "counters compared with the model after every op (accounting of the fixed limits under duplication); "
             "limits: both resource limits reached; regress: the two formerly failing inputs, run "
             "first; boundary: the liveness boundaries and the epoch splice replayed - safety monitors must hold, the "
             "RFC-completeness monitor (every byte on the wire => delivered) and the epoch-binding monitor feed the known "
             "findings K-C12-1/2/4). "
             "live: real endpoints (control/test pairs): ClientHello retransmitted with another fragment size against a "
             "DTLS 1.2 server, forged epoch-0 fragment of the DTLS 1.3 Certificate (cached message compared with what the "
             "server sent), WithMTU(9000) vs inboundBufferSize, WithMTU(100000) vs the 16-bit record length (every record "
             "on the wire must parse: 12 + fragment_length = record length), WithMTU(1) / WithMTU(20) trains of > 1000 fragments (1.1 kB / 33 kB certificate); every "
             "live run also checks fragment body <= MTU on the wire. "
             "big: messages <= 40000 bytes, MTU <= 2000, monitored on the implementation only. split: "
             "(*Conn).fragmentHandshake vs Frag/Split.v (every length 0..12 x MTU 1..13 exhaustively + random). "
             "Non-trivial = at least one message popped from at least two fragments (honest legs) / something stored "
             "and an error, pop or panic observed (hostile) / at least two fragments (split); distinct by the "
             "structural op list.",
        assumptions=["byte-level header codecs (handshake.Header, recordlayer.Header) are modelled structurally; the "
                     "harness encodes record payloads by hand and the popped header is compared byte for byte, the "
                     "codec round-trip itself belongs to C18",
                     "completeness theorem premises: one duplicate-free partition per message, all fragments of the "
                     "handshake direction < fragmentBufferMaxCount and all body bytes + one record < "
                     "fragmentBufferMaxSize, fewer than 65536 messages (message_seq is uint16 and the cursor wraps)",
                     "known findings (registered): K-C12-1 re-fragmented retransmission never reassembled, K-C12-2 fragments "
                     "not bound to one epoch, K-C12-3 MTU not bounded by the peer's read buffer, K-C12-4 own sender's "
                     "trains beyond fragmentBufferMaxCount; each has a _refuted witness in Properties/C12.v",
                     "AdvanceTo is modelled and compared, but the reassembly theorems are stated for histories "
                     "without an AdvanceTo that skips messages (conn.go only advances to the handshake receive "
                     "sequence)"])
