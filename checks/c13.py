"""C13 cookie exchange: theorems Properties/C13.v (for every sequence of attacker-chosen
ClientHellos, other datagrams and timer expiries: the large flight only after a ClientHello
echoing exactly the issued cookie and otherwise identical to the first; HelloVerifyRequest only in
direct response to a datagram, never by the timer) + an attacker-driven real server compared step
by step with the model + the property's monitors."""
import vlib
from vlib import clist

IMPORTS = "From DtlsV Require Import Hs.C13Cookie Hs.C13Run."
# what ValidateHelloVerifyRequestResponse pins: everything but the cookie, except extensions other
# than connection_id and use_srtp (RFC 6347 4.2.1 set; see DESIGN.md C13 interpretation note)
PINNED = {"same": 0, "ext": 0, "version": 1, "random": 2, "session": 3, "suites": 4, "suiteorder": 5,
          "compression": 6, "cidext": 7, "srtpext": 8}
COOKIE = {"right": 1, "stale": 2, "wrong": 3, "trunc": 4, "extra": 5}
OBS = {"": 0, "hvr": 1, "flight4": 2, "alert": 3}


def to_model(c):
    ins, obs = [], []
    issued = False
    for s in c["steps"]:
        if s["in"] == "timer":
            ins.append("ITimer")
        elif s["in"] == "other":
            ins.append("IOther")
        else:
            ck = s["cookie"]
            if ck == "none":
                ct = "None"
            elif not issued and ck in ("right", "trunc", "extra"):
                ct = "(Some 3%N)"          # nothing issued yet: whatever the attacker sends is a guess
            else:
                ct = "(Some %d%%N)" % COOKIE[ck]
            ins.append("ICH %d %s %d%%N" % (s["mseq"], ct, PINNED[s["body"]]))
        o = OBS.get(s["out"], 9)
        if s["out"] == "hvr" and not s["hvr_cookie_ok"]:
            o = 9
        obs.append(str(o))
        if s["out"] == "hvr":
            issued = True
    return "(%s, %s)" % (clist(ins), clist(obs))


def monitor(c):
    """property predicate on the implementation trace"""
    first_body = None
    pending = None      # the mildest deviation is reported only if nothing worse is found
    issued = False
    for i, s in enumerate(c["steps"]):
        if s["in"] == "ch" and s["mseq"] == 0 and first_body is None:
            first_body = PINNED[s["body"]]
        if s["out"] in ("flight4", "mixed"):
            ok = (s["in"] == "ch" or True)
            # a qualifying ClientHello must have been delivered at or before this step
            qual = any(t["in"] == "ch" and t["mseq"] == 1 and t["cookie"] == "right" and PINNED[t["body"]] == first_body
                       for t in c["steps"][:i + 1])
            if not qual or not issued:
                return i, "server sent its ServerHello flight (kinds %s) without having received a ClientHello echoing its cookie" % s["out_kinds"]
            return pending
        if s.get("keygen") and s["out"] not in ("flight4", "mixed"):
            # "... or make the server commit key-exchange work": no ephemeral key before the cookie came back
            return i, "key-exchange work before the cookie came back: the server holds an ephemeral key pair after step %d (%s) although it has not accepted a cookie-bearing ClientHello" % (i, s["in"])
        if s["in"] == "timer" and s["out"] == "hvr":
            return i, "HelloVerifyRequest sent by the retransmission timer"
        if s["out"] == "hvr":
            if not s["hvr_cookie_ok"]:
                return i, "HelloVerifyRequest with a different cookie within one connection"
            if s["in"] != "ch":
                pending = (i, "HelloVerifyRequest sent in response to a datagram that is not a ClientHello")
            issued = True
        if s["out"] == "alert":
            return pending
    return pending


def run(chk):
    proved = chk.prove()
    out = vlib.out_path("c13")
    rc, o = vlib.go_test(".", "^TestVerifC13$", {"VERIF_SEED": chk.seed, "VERIF_TIER": chk.tier, "VERIF_OUT": out},
                         tags=["c13"], timeout=2400)
    cases = vlib.read_jsonl(out)
    vlib.cleanup(out)
    found = False
    if rc != 0:
        kind = vlib.classify_go_failure(o)
        if kind == "panic":
            found = True
            chk.finding("flight12 flight0/flight2 handlers", {"monitor": "panic"}, "panic under crafted ClientHellos", {"output": o[-4000:]})
        else:
            chk.broken("correspondence harness TestVerifC13 no longer runs against /repo (%s)" % kind, o)
    # DTLS 1.3 (HelloRetryRequest with cookie): monitor-only leg
    out13 = vlib.out_path("c13v13")
    rc13, o13 = vlib.go_test(".", "^TestVerifC13V13$", {"VERIF_SEED": chk.seed, "VERIF_TIER": chk.tier, "VERIF_OUT": out13},
                             tags=["c13", "c13v13"], timeout=1200)
    cases13 = vlib.read_jsonl(out13)
    vlib.cleanup(out13)
    if rc13 != 0:
        kind = vlib.classify_go_failure(o13)
        if kind == "panic":
            found = True
            chk.finding("flight13 flight0/flight2 handlers", {"monitor": "panic"}, "panic under crafted DTLS 1.3 ClientHellos", {"output": o13[-4000:]})
        else:
            chk.broken("correspondence harness TestVerifC13V13 no longer runs against /repo (%s)" % kind, o13)
    seen = set()
    for c in cases + cases13:
        m = monitor(c)
        if m:
            i, text = m
            if text in seen:
                continue
            seen.add(text)
            found = True
            chk.finding("internal/flight/flight12 flight0handler.go / flight2handler.go / negotiation/retry.go",
                        {"monitor": text.split(" (")[0]},
                        "%s [variant %s, step %d]" % (text, c["variant"], i),
                        {"how": "attacker-driven server: steps = crafted ClientHellos (mseq, cookie class, body mutation), "
                                "other handshake datagrams and 70 s timer waits; out = what the server emitted per step",
                         "case": {"variant": c["variant"], "steps": c["steps"][:i + 1]}})
    ok_model, mo = vlib.coq_make(["theories/Hs/C13Run.vo"])
    if not ok_model:
        chk.broken("model Hs/C13Run.v no longer compiles", mo)
    elif cases:
        terms = [to_model(c) for c in cases]
        bad, err = vlib.coq_mismatches("c13", IMPORTS, "c13_case", "c13_ok", terms, shard=200, scope="nat_scope")
        if bad is None:
            chk.broken("correspondence evaluation failed in coqc", err)
        else:
            for i in bad[:1]:
                m = monitor(cases[i])
                chk.finding("internal/flight/flight12 flight0handler.go / flight2handler.go / negotiation/retry.go",
                            {"monitor": "model-mismatch", "variant": cases[i]["variant"]},
                            "server's answers differ from Hs/C13Cookie.v model [variant %s]" % cases[i]["variant"],
                            {"case": cases[i], "model_term": terms[i], "correspondence": "Hs.C13Run.c13_ok"},
                            no_input=(m is None and not found))
    nsteps = sum(len(c["steps"]) for c in cases)
    keys = [(c["variant"], tuple((s["in"], s["mseq"], s["cookie"], s["body"]) for s in c["steps"])) for c in cases
            if any(s["in"] == "ch" and s["mseq"] >= 1 for s in c["steps"])]
    chk.count("scripts", len(cases), keys,
              samples=[{"variant": c["variant"], "steps": [(s["in"], s["mseq"], s["cookie"], s["body"], s["out"]) for s in c["steps"]]}
                       for c in cases[50:52]])
    chk.cov["traces_validated_against_impl"] = len(cases)
    chk.count("dtls13_scripts", len(cases13), [tuple((s["in"], s["mseq"], s["cookie"], s["body"]) for s in c["steps"]) for c in cases13],
              samples=[[(s["in"], s["mseq"], s["cookie"], s["body"], s["out"]) for s in c["steps"]] for c in cases13[4:6]])
    chk.leg_info("dtls13_scripts", accepted=sum(1 for c in cases13 if any(s["out"] == "flight4" for s in c["steps"])),
                 rejected=sum(1 for c in cases13 if any(s["out"] == "alert" for s in c["steps"])),
                 note="monitor-only: second ClientHello of a real 1.3 client delivered unchanged / with cookie altered, truncated, "
                      "removed / with random, suites, session id altered; repeated first hellos; timer waits")
    outs = {}
    for c in cases:
        for s in c["steps"]:
            outs[s["out"]] = outs.get(s["out"], 0) + 1
    chk.leg_info("scripts", steps=nsteps, outputs=outs,
                 exhaustive="every (cookie class x body mutation) pair for the second ClientHello, both variants")
    if not proved and not found:
        where, pout = getattr(chk, "proof_error", ("?", ""))
        chk.broken("proof obligation Properties/C13.v no longer checks (%s)" % where, pout)
    # DTLS 1.3 handshake machinery: model Hs/Hs13.v, theorems Properties/C13hs13.v, trace replay
    import hs13lib
    hs13lib.run_c13(chk, regenerate=False)
    chk.finish(
        level="proof",
        rule="a real server (certificate and PSK variants, hello verification on) fed only crafted datagrams: first/second "
             "ClientHellos with cookie in {absent, right, wrong, stale from an earlier connection, truncated, extended} x body in "
             "{same, version, random, session id, suites removed/reordered, compression, ALPN/CID/SRTP extension added}, message "
             "sequences 0-3, repetitions, other handshake datagrams, 70 s timer waits. Non-trivial = script containing a second "
             "ClientHello; distinct by (variant, script).",
        assumptions=["'otherwise identical' is read as the set ValidateHelloVerifyRequestResponse pins (RFC 6347 4.2.1: everything "
                     "but the cookie, extensions other than connection_id/use_srtp excepted) - DESIGN.md C13 note",
                     "cookie unguessability (20 random bytes per connection) is not modelled: the theorem says the echoed cookie equals the issued one",
                     "DTLS 1.3 HelloRetryRequest exchange: covered by the monitors only (not in the Coq model)"])
