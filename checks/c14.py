"""C14 session resumption: theorems Properties/C14.v (model Hs/C14Resume.v) + histories of real
client/server connections over shared instrumented session stores (scripted store mutations, fault
masks, black holes of the ChangeCipherSpec flights, provoked fatal alerts), checked by the property's
own monitors and compared connection by connection with the model (Hs/C14Run.v hist_ok)."""
import vlib
from vlib import cN, clist, cbool

IMPORTS = "From DtlsV Require Import Hs.C14Resume Hs.C14ResumeSound Hs.C14Run."
SITE = "internal/flight/flight12 resumption (flight0/1/3/4/4b/5 handlers), conn.go notify/sessionKey"
FAULTS = {"": "NoFault", "wrongpsk": "NoFault", "ems": "FEms", "sems": "FSEms", "alpn": "FAlpn",
          "sverify": "FSVerify", "cverify": "FCVerify", "noccert": "FSPolicy",
          # the client refuses the ServerHello inside flight3Parse: a suite it did not offer draws the same alert (71)
          # at the same point of the code as the missing extended master secret; an application protocol it did not
          # offer draws illegal_parameter (47)
          "shsuite": "FEms", "shalpn": "FShAlpn"}


class Ids:
    """opaque identifiers: distinct byte strings -> distinct small integers ("" -> 0)"""

    def __init__(self):
        self.m = {"": 0}

    def __call__(self, h):
        if h not in self.m:
            self.m[h] = len(self.m)
        return self.m[h]

    def fresh(self, tag):
        return self("!" + tag)


def mode_of(c):
    for w in c["wire"]:
        if w.startswith("s:") and "SH" in w.split(":")[1].split(","):
            return 1 if "CCS" in w else 0
    return 2


def step_script(st):
    return (tuple(st["muts"]), st["suite"], st["ccid"], st["scid"], st["client_auth"], st["fault"], st["bh"],
            tuple(st["mask"]), st["no_cstore"], st["no_sstore"], st["name"], st["addr"], st.get("post", ""), st.get("migrate", False))


def nontrivial_step(st):
    return bool(st["muts"] or st["fault"] or st["bh"] or any(a != "pass" for a in st["mask"]) or st["suite"]
                or st["ccid"] >= 0 or st["scid"] >= 0 or st["client_auth"] or st["no_cstore"] or st["no_sstore"]
                or st["name"] or st["addr"] or st.get("post") or st.get("migrate"))


# ------------------------------------------------------------------ monitors (the property's statements)

def monitors(h):
    """returns (violations, observations); a violation is (monitor, conn index, text)"""
    bad, obs = [], {}

    def note(k):
        obs[k] = obs.get(k, 0) + 1

    seen_kb, seen_rc, seen_rs = set(), set(), set()
    conns = h["conns"]
    for i, c in enumerate(conns):
        st = c["step"]
        pre_c = {e["key"]: e for e in c["pre_c"]}
        pre_s = {e["key"]: e for e in c["pre_s"]}
        post_c = {e["key"]: e for e in c["post_c"]}
        post_s = {e["key"]: e for e in c["post_s"]}
        if len(set(c["ch_sid"])) > 1 or len(set(c["ch_rand"])) > 1 or len(set(c["sh_rand"])) > 1:
            bad.append(("hello-changes-within-connection", i, "session id or random differs between retransmitted hellos"))
        for side in ("c", "s"):
            if c[side + "_out"].startswith("err:"):
                bad.append(("unexpected-error-class", i, "%s: %s" % (side, c[side + "_out"])))
        off = c["ch_sid"][-1] if c["ch_sid"] else ""
        centry = None if st["no_cstore"] else pre_c.get(c["key"])
        if centry is not None and centry["nil"]:
            centry = None
        sentry = pre_s.get(off) if (off and not st["no_sstore"]) else None
        if sentry is not None and sentry["nil"]:
            sentry = None
        mode = mode_of(c)
        cok, sok = c["c_out"] == "ok", c["s_out"] == "ok"
        if cok and sok and not c["data_ok"]:
            bad.append(("established-without-data", i, "both sides established but the payloads did not arrive"))
        # M1 resume_keys_agree
        if mode == 1 and (cok or sok):
            if centry is None or sentry is None or centry["id"] != off:
                bad.append(("abbreviated-without-session", i, "abbreviated handshake established without the offered "
                            "session in both stores"))
            else:
                if centry["sec"] != sentry["sec"]:
                    bad.append(("established-from-mismatched-secrets", i, "abbreviated handshake established although "
                                "the stored secrets differ"))
                if cok and c["c_ms"] != sentry["sec"]:
                    bad.append(("client-keyed-from-other-secret", i, "client master secret is not the server's stored one"))
                if sok and c["s_ms"] != centry["sec"]:
                    bad.append(("server-keyed-from-other-secret", i, "server master secret is not the client's stored one"))
                if cok and sok:
                    kc = c["keylog_c"][-1].split() if c["keylog_c"] else None
                    ks = c["keylog_s"][-1].split() if c["keylog_s"] else None
                    if not kc or not ks or kc[2] != ks[2] or kc[2] != c["c_ms"]:
                        bad.append(("keylog-secrets-differ", i, "key-log master secrets differ between the sides"))
                    elif ks[1] != kc[1]:
                        note("keylog: server line of a resumed handshake is labelled with the SERVER random")
        # M2 mismatch_never_established
        if centry is not None and sentry is not None and centry["id"] == off and centry["sec"] != sentry["sec"]:
            if cok or sok:
                bad.append(("established-from-mismatched-secrets", i, "a side established although the stored secrets "
                            "for the offered session differ"))
            if c["c_out"] == "timeout" and c["s_out"] == "timeout" and not c["alerts"] \
                    and c["post_c"] == c["pre_c"] and c["post_s"] == c["pre_s"]:
                note("mismatch: both sides stall until the caller's deadline, no alert, nothing evicted")
        # M3 unknown_session_falls_back
        if off and sentry is None:
            if mode == 1:
                bad.append(("resumed-unknown-session", i, "server resumed a session it does not hold"))
            stale = {e["sec"] for e in c["pre_c"]} | {e["sec"] for e in c["pre_s"]}
            if cok and c["c_ms"] in stale:
                bad.append(("fallback-reuses-stored-secret", i, "client master secret of a full handshake equals a stored one"))
            if sok and c["s_ms"] in stale:
                bad.append(("fallback-reuses-stored-secret", i, "server master secret of a full handshake equals a stored one"))
        # M4 fresh randoms, fresh key blocks
        rc = c["ch_rand"][-1] if c["ch_rand"] else ""
        rs = c["sh_rand"][-1] if c["sh_rand"] else ""
        if rc and rc in seen_rc:
            bad.append(("client-random-reused", i, "ClientHello.random repeats an earlier connection's"))
        if rs and rs in seen_rs:
            bad.append(("server-random-reused", i, "ServerHello.random repeats an earlier connection's"))
        seen_rc.add(rc)
        seen_rs.add(rs)
        kbs = set()
        if cok:
            kbs.add((c["c_ms"], c["c_rand_l"], c["c_rand_r"]))
            if (c["c_rand_l"], c["c_rand_r"]) != (rc, rs):
                bad.append(("keys-from-other-randoms", i, "client keyed with randoms that are not this connection's hellos"))
        if sok:
            kbs.add((c["s_ms"], c["s_rand_r"], c["s_rand_l"]))
            if (c["s_rand_r"], c["s_rand_l"]) != (rc, rs):
                bad.append(("keys-from-other-randoms", i, "server keyed with randoms that are not this connection's hellos"))
        if cok and sok and len(kbs) != 1:
            bad.append(("key-block-arguments-differ", i, "the two established sides hold different (secret, randoms)"))
        for kb in kbs:
            if kb in seen_kb:
                bad.append(("key-block-reused", i, "key-block arguments equal those of an earlier connection"))
        seen_kb |= kbs
        # M5 cids_renegotiated
        want = (c["gen_ccid"][0], c["gen_scid"][0]) if (st["ccid"] >= 0 and st["scid"] >= 0 and c["gen_ccid"]
                                                          and c["gen_scid"]) else (None, None)
        if cok and (c["c_lcid"], c["c_rcid"]) != want:
            bad.append(("cid-not-of-this-connection", i, "client connection ids are not those generated in this connection"))
        if sok and (c["s_rcid"], c["s_lcid"]) != want:
            bad.append(("cid-not-of-this-connection", i, "server connection ids are not those generated in this connection"))
        # M6 fatal_alert_evicts: endpoint X put a fatal alert ON THE WIRE (plaintext during the handshake, or a
        # protected record of the established connection opened in-package with the peer's keys) on a connection
        # that was ON session S => X's store no longer holds S => the next ClientHello of X does not offer it / the
        # server does not resume it.  "On session S" is decided twice, independently:
        #   (state) X's state.SessionID (read in-package at the end) is S - the variable conn.go notify consults;
        #   (wire)  from the hellos alone: the client is on the session it OFFERED as long as no ServerHello declined
        #           it (none seen yet, or the ServerHello echoes the id), after a ServerHello on the session that
        #           hello names; the server is on the session its own ServerHello names.
        # The wire reading does not depend on what the implementation keeps in (or wipes from) its state when it
        # refuses a hello.
        nxt = conns[i + 1] if i + 1 < len(conns) else None
        for a in c["alerts"]:
            if a["level"] == -1:
                bad.append(("undecodable-protected-alert", i, "a protected alert of side %s could not be opened with the "
                            "peer's keys" % a["side"]))
        shs = c["sh_sid"][-1] if c["sh_sid"] else None
        for side in ("c", "s"):
            fatal = [a for a in c["alerts"] if a["side"] == side and a["level"] == 2]
            if not fatal:
                continue
            a = fatal[0]
            where = "after establishment (record path)" if a.get("post") else "during the handshake"
            on = []  # (session id, how it was determined)
            if c[side + "_isid"]:
                on.append((c[side + "_isid"], "its state.SessionID"))
            if side == "c" and not st["no_cstore"]:
                wsid = off if shs is None else shs
                how = ("offered in its ClientHello, no ServerHello seen" if shs is None else
                       "offered in its ClientHello and echoed by the ServerHello" if shs == off else
                       "named by the ServerHello")
            elif side == "s" and not st["no_sstore"]:
                wsid = shs or ""
                how = "echoed in its ServerHello" if wsid == off else "named in its ServerHello"
            else:
                wsid, how = "", ""
            if wsid and wsid not in [x[0] for x in on]:
                on.append((wsid, how))
            if not on:
                if side == "c" and off and post_c.get(c["key"], {}).get("id") == off:
                    note("client sent a fatal alert after the server declined its offer with an EMPTY session id: "
                         "the offered entry stays")
                continue
            for sess_on, how in on:
                tag = "%d %s on session %s.. (%s)" % (a["desc"], where, sess_on[:8], how)
                if side == "c":
                    e = post_c.get(c["key"])
                    if e is not None and not e["nil"] and e["id"] == sess_on:
                        bad.append(("alerted-session-still-stored", i, "client sent fatal alert %s that its store still "
                                    "holds" % tag))
                    if nxt and not nxt["step"]["muts"] and nxt["key"] == c["key"] and not nxt["step"]["no_cstore"] \
                            and sess_on in nxt["ch_sid"]:
                        bad.append(("alerted-session-offered-again", i, "client sent fatal alert %s and offers it in the "
                                    "next ClientHello" % tag))
                        if mode_of(nxt) == 1:
                            bad.append(("alerted-session-resumed", i, "client sent fatal alert %s and the next connection "
                                        "resumes it" % tag))
                else:
                    if sess_on in post_s and not post_s[sess_on]["nil"]:
                        bad.append(("alerted-session-still-stored", i, "server sent fatal alert %s that its store still "
                                    "holds" % tag))
                    if nxt and not nxt["step"]["muts"] and not nxt["step"]["no_sstore"] and sess_on in nxt["ch_sid"] \
                            and mode_of(nxt) == 1:
                        bad.append(("alerted-session-resumed", i, "server sent fatal alert %s and resumes it in the next "
                                    "connection" % tag))
            if a.get("post"):
                note("record-path fatal alert %d on an established connection observed on the wire (%s, %s)"
                     % (a["desc"], side, st.get("post", "")[2:]))
        if st["fault"] in ("shalpn", "shsuite"):
            if c.get("rogue", 0) > 0 and any(x["side"] == "c" and x["level"] == 2 for x in c["alerts"]):
                note("client refused a ServerHello with a selection it did not offer (%s, %s)"
                     % (st["fault"], ["full", "abbreviated", "none"][mode]))
            elif c["sh_sid"]:
                bad.append(("rogue-hello-not-refused", i, "the ServerHello carried a %s the client did not offer and the "
                            "client sent no fatal alert (rogue hellos: %d)" % (
                                "cipher suite" if st["fault"] == "shsuite" else "application protocol", c.get("rogue", 0))))
        if st.get("migrate") and cok and sok:
            if c.get("c_raddr") == "serverNAT":
                note("peer address migrated before the end of the connection (client rAddr moved; store key must stay "
                     "that of the dial address)")
            else:
                bad.append(("migration-did-not-happen", i, "scripted migration did not move the client's remote address "
                            "(harness no longer exercises the migrated-key case)"))
        if st.get("post") and cok and sok and not any(a.get("post") and a["level"] == 2 and a["side"] == st["post"][0]
                                                      for a in c["alerts"]):
            note("forged record on an established connection did not provoke a fatal alert (%s%s)"
                 % (st["post"][2:], ", connection ids" if st["ccid"] >= 0 and st["scid"] >= 0 else ""))
        # M7 client_cert_not_stored
        if mode == 0 and any(w.startswith("c:") and "CERT" in w for w in c["wire"]):
            sid = c["sh_sid"][-1] if c["sh_sid"] else ""
            if sid and sid in post_s:
                bad.append(("client-cert-session-stored", i, "server stored a session established with a client certificate"))
        # M8 (repaired ordering of flight4Parse): the server's store gains an entry only from a full handshake that
        # the server accepted, under the id of its ServerHello and with the master secret it ended with
        for k2, e in post_s.items():
            if k2 in pre_s and pre_s[k2] == e:
                continue
            if not (sok and mode == 0 and c["sh_sid"] and k2 == c["sh_sid"][-1] and e["sec"] == c["s_ms"]):
                bad.append(("server-stored-unaccepted-session", i, "the server's store gained or changed an entry on a "
                            "connection the server did not accept as a full handshake (s_out=%s)" % c["s_out"]))
        # observations (not statements of the property)
        if any(a.get("wrapped") and not a.get("enc") for a in c["alerts"]):
            note("fatal alert sent as an UNPROTECTED tls12_cid record (connection ids already committed)")
        for o in c["ops_c"]:
            if o["op"] == "del" and o["key"] != c["key"]:
                note("flight3Parse DelSession(session id) on the client store (keyed by address_name)")
        if mode == 1 and cok and sok and st["fault"] in ("sverify", "cverify"):
            note("VerifyConnection callback not called on a resumed handshake")
        if mode == 1 and cok and sok and st["fault"] == "wrongpsk":
            note("PSK callback not consulted on a resumed handshake")
        if mode == 1 and cok and sok and st["client_auth"]:
            note("server requiring a client certificate resumes a session created without one")
        if mode == 1 and cok and sok and c["c_suite"] and i > 0 and conns[i - 1]["c_suite"] \
                and c["c_suite"] != conns[i - 1]["c_suite"] and not st["muts"]:
            note("session resumed under a different cipher suite than the one that created it")
        if c["c_out"].startswith("recv:") and off and post_c.get(c["key"], {}).get("id") == off and mode != 1:
            note("declined offer stays in the client store after the full handshake failed")
    return bad, obs


# ------------------------------------------------------------------ model terms

def c_store(entries, bid, sec):
    return clist(["(%d, mkSess %s %d %d)" % (bid(e["key"]), cbool(e["nil"]), bid(e["id"]), sec(e["sec"])) for e in entries])


def c_ops(ops, bid, sec):
    out = []
    for o in ops:
        if o["op"] == "set":
            out.append("MSet %d (mkSess %s %d %d)" % (bid(o["key"]), cbool(o["nil"]), bid(o["id"]), sec(o["sec"])))
        elif o["op"] == "del":
            out.append("MDel %d" % bid(o["key"]))
    return clist(out)


def c_outcome(s):
    if s == "ok":
        return "Established"
    if s == "timeout":
        return "Stalled"
    if s.startswith("sent:"):
        return "(SentAlert %s)" % s[5:]
    if s.startswith("recv:"):
        return "(RecvAlert %s)" % s[5:]
    return "(SentAlert 99999)"


def c_opt(v, ids):
    return "None" if v is None else "(Some %d)" % ids(v)


def hist_term(h):
    bid, sec, cid, rnd = Ids(), Ids(), Ids(), Ids()
    steps = []
    for i, c in enumerate(h["conns"]):
        st = c["step"]
        mode = mode_of(c)
        newsid = bid(c["sh_sid"][-1]) if (mode == 0 and c["sh_sid"] and c["sh_sid"][-1]) else bid.fresh("newsid%d" % i)
        msc = sec(c["c_ms"]) if c["c_ms"] else sec.fresh("msc%d" % i)
        mss = sec(c["s_ms"]) if c["s_ms"] else sec.fresh("mss%d" % i)
        ccid = "None" if st["ccid"] < 0 else "(Some %d)" % (cid(c["gen_ccid"][0]) if c["gen_ccid"] else cid.fresh("c%d" % i))
        scid = "None" if st["scid"] < 0 else "(Some %d)" % (cid(c["gen_scid"][0]) if c["gen_scid"] else cid.fresh("s%d" % i))
        rc = rnd(c["ch_rand"][-1]) if c["ch_rand"] else rnd.fresh("rc%d" % i)
        rs = rnd(c["sh_rand"][-1]) if c["sh_rand"] else rnd.fresh("rs%d" % i)
        params = "(mkParams %d %s %s %d %d %d %d %d %s %s %s %s %s %s)" % (
            bid(c["key"]), cbool(not st["no_cstore"]), cbool(not st["no_sstore"]), rc, rs, newsid, msc, mss,
            cbool(st["client_auth"] or st["fault"] == "noccert"), ccid, scid, FAULTS[st["fault"]], cbool(st["bh"] != "s_ccs"), cbool(st["bh"] != "c_ccs"))
        cside = "(mkOSide %s %d %d %d %d %s %s)" % (
            c_outcome(c["c_out"]), sec(c["c_ms"]), rnd(c["c_rand_l"]), rnd(c["c_rand_r"]), bid(c["c_isid"]),
            c_opt(c["c_lcid"], cid), c_opt(c["c_rcid"], cid))
        sside = "(mkOSide %s %d %d %d %d %s %s)" % (
            c_outcome(c["s_out"]), sec(c["s_ms"]), rnd(c["s_rand_r"]), rnd(c["s_rand_l"]), bid(c["s_isid"]),
            c_opt(c["s_lcid"], cid), c_opt(c["s_rcid"], cid))
        off = bid(c["ch_sid"][-1]) if c["ch_sid"] else 0
        inj = 0
        for a in c["alerts"]:
            if a.get("post") and a["level"] == 2 and c["c_out"] == "ok" and c["s_out"] == "ok":
                inj = 1 if a["side"] == "c" else 2
                break
        steps.append("mkOStep %s %s %s %s %d %d %s %s %s %s %s %s %d" % (
            cbool(bool(st["muts"])), c_store(c["pre_c"], bid, sec), c_store(c["pre_s"], bid, sec), params, mode, off,
            cside, sside, c_ops(c["ops_c"], bid, sec), c_ops(c["ops_s"], bid, sec),
            c_store(c["post_c"], bid, sec), c_store(c["post_s"], bid, sec), inj))
    return clist(steps)


def slim(h):
    """history without the bulky fields, for replays"""
    out = {"label": h["label"], "variant": h["variant"], "conns": []}
    for c in h["conns"]:
        out["conns"].append({k: c[k] for k in ("step", "key", "pre_c", "pre_s", "post_c", "post_s", "ops_c", "ops_s", "c_out",
                                               "s_out", "c_err", "s_err", "c_isid", "s_isid", "c_ms", "s_ms", "ch_sid", "sh_sid",
                                               "wire", "alerts", "data_ok", "rogue", "c_lcid", "c_rcid", "s_lcid", "s_rcid")})
        out["conns"][-1]["wire"] = out["conns"][-1]["wire"][:16]
    return out


HOW = ("harness/overlay/root/zz_verif_c14_test.go: one client and one server share two instrumented in-memory session "
       "stores over the connections of `conns` (in order); before a connection the script applies `step.muts` to the "
       "stores, configures `step.fault` (ems/sems: ExtendedMasterSecret Require vs Disable; alpn: disjoint protocols; "
       "sverify/cverify: VerifyConnection returns an error; wrongpsk: client PSK differs; noccert: server requires "
       "a client certificate, the client has none; shalpn: both offer protocol verif-a, the server's "
       "ServerHelloMessageHook selects verif-x; shsuite: the cipher_suite bytes of every ServerHello are replaced on "
       "the path by the variant's other suite, which the client did not offer; `step.migrate`: after establishment the server's datagrams arrive from a second address and the "
       "client's path challenge is answered, so the client's remote address moves; `step.post` c_/s_ app0|ct99|enc99: "
       "after establishment ONE forged record - plaintext epoch-0 application_data or content type 99 (both discarded silently by the "
       "current tree), or content type 99 sealed with the session keys (tls12_cid-wrapped when ids are in use; draws a "
       "protected fatal decode_error) - is delivered to the client/server, whose protected alert, "
       "if any, is opened with the peer's keys), drops every datagram of "
       "`step.bh` side that carries a ChangeCipherSpec, and applies `step.mask` per emitted datagram index")


def run(chk, script=None):
    proved = chk.prove(extra_targets=["theories/Hs/C14Run.vo"])
    out = vlib.out_path("c14")
    env = {"VERIF_SEED": chk.seed, "VERIF_TIER": chk.tier, "VERIF_OUT": out}
    if script:
        env["VERIF_C14_SCRIPT"] = script
    rc, o = vlib.go_test(".", "^TestVerifC14$", env, tags=["c14"], timeout=3000)
    hists = vlib.read_jsonl(out)
    vlib.cleanup(out)
    found = False
    if rc != 0:
        kind = vlib.classify_go_failure(o)
        if kind == "panic":
            found = True
            chk.finding(SITE, {"monitor": "panic"}, "panic during resumption histories", {"output": o[-4000:]})
        else:
            chk.broken("correspondence harness TestVerifC14 no longer runs against /repo (%s)" % kind, o)
    # the property's own monitors on the implementation traces
    reported = set()
    observations = {}
    mon_bad = {}
    for hi, h in enumerate(hists):
        bad, obs = monitors(h)
        for k, v in obs.items():
            observations[k] = observations.get(k, 0) + v
        if bad:
            mon_bad[hi] = bad
        for (m, i, text) in bad:
            found = True
            sig = {"monitor": m, "variant": h["variant"],
                   "script": [list(step_script(c["step"])) for c in h["conns"][:i + 1]] if h["label"].startswith("random")
                   else h["label"]}
            key = (m, h["variant"])
            if key in reported:
                continue
            reported.add(key)
            chk.finding(SITE, sig, "%s [history %s/%s, connection %d]" % (text, h["variant"], h["label"], i),
                        {"how": HOW, "connection": i, "history": slim(h),
                         "rerun": "VERIF_SEED=%d bin/check C14 --tier %s" % (chk.seed, chk.tier)})
    # correspondence with the model
    if proved:
        terms = [hist_term(h) for h in hists]
        bad, err = vlib.coq_mismatches("c14", IMPORTS, "hist_case", "hist_ok", terms, shard=60)
        if bad is None:
            chk.broken("correspondence evaluation failed in coqc (Hs/C14Run.v)", err)
        else:
            for i in bad[:1]:
                h = hists[i]
                txt = ("From Coq Require Import List NArith.\nImport ListNotations.\n%s\nOpen Scope N_scope.\n"
                       "Definition c : hist_case := %s.\nEval vm_compute in (first_bad c).\n" % (IMPORTS, terms[i]))
                _, diag = vlib.coq_run(txt, "c14diag_%d" % i)
                ms = mon_bad.get(i)
                chk.finding(SITE, {"monitor": "model-mismatch", "variant": h["variant"], "label": h["label"].split(":")[0]},
                            "history not accepted by the Hs/C14Resume model [%s/%s]%s" % (
                                h["variant"], h["label"], (": " + ms[0][2]) if ms else ""),
                            {"how": HOW, "history": slim(h), "correspondence": "Hs.C14Run.hist_ok",
                             "model_first_bad": diag[-1500:]},
                            no_input=(not ms and not found))
    nconn = sum(len(h["conns"]) for h in hists)
    nontriv = [h for h in hists if any(nontrivial_step(c["step"]) for c in h["conns"])]
    chk.count("histories", nconn, [(h["variant"], tuple(step_script(c["step"]) for c in h["conns"])) for h in nontriv],
              samples=[{"variant": h["variant"], "label": h["label"],
                        "outcomes": [(c["c_out"], c["s_out"], mode_of(c)) for c in h["conns"]]} for h in nontriv[-3:]])
    chk.cov["traces_validated_against_impl"] = len(hists)
    classes = {}
    for h in hists:
        for c in h["conns"]:
            k = "%s mode=%s c=%s s=%s" % (h["variant"], ["full", "abbreviated", "none"][mode_of(c)],
                                          c["c_out"].split(":")[0], c["s_out"].split(":")[0])
            classes[k] = classes.get(k, 0) + 1
    chk.leg_info("histories", histories=len(hists), connections=nconn, outcome_classes=classes,
                 observations_not_part_of_the_property=observations,
                 scripted="every store mutation before the 2nd and before the 3rd connection; every provoked alert (incl. the client "
                          "refusing the ServerHello inside flight3Parse: ems, shalpn, shsuite - also twice in a row) on an "
                          "abbreviated / full / fallback / server-without-store connection; black holes of either "
                          "ChangeCipherSpec flight; all masks over {pass,drop,dup,hold:1}^3 on the three datagrams of the "
                          "abbreviated handshake; CID lengths per connection; other suite / address / server name; "
                          "client authentication")
    # probe outside the model's assumptions: one forged plaintext record (recorded, not judged)
    if not script:
        outp = vlib.out_path("c14inj")
        rci, oi = vlib.go_test(".", "^TestVerifC14Inject$", dict(env, VERIF_OUT=outp), tags=["c14"], timeout=600)
        inj = vlib.read_jsonl(outp)
        vlib.cleanup(outp)
        if rci != 0:
            chk.broken("probe TestVerifC14Inject no longer runs against /repo (%s)" % vlib.classify_go_failure(oi), oi)
        chk.count("forged-record-probe", len(inj), [j["to"] for j in inj if j["alerts"] or j["c_out"] != "ok" or j["s_out"] != "ok"])
        chk.leg_info("forged-record-probe", what="ONE forged 14-byte epoch-0 record with content type 99 delivered during a "
                     "resumed handshake (not covered by the model: it assumes unmodified datagrams). Expected since "
                     "the repair 'discard unprotected records whose content does not decode': silently discarded, both "
                     "sides establish, nothing is deleted (non-trivial = anything else)",
                     observed=[{"to": j["to"], "c_out": j["c_out"], "s_out": j["s_out"], "wire": j["wire"],
                                "receiver_deleted_its_session": any(o["op"] == "del" and o["hit"] for o in
                                                                    (j["ops_c"] if j["to"] == "client" else j["ops_s"]))}
                               for j in inj])
    if not proved and not found:
        where, pout = getattr(chk, "proof_error", ("?", ""))
        chk.broken("proof obligation Properties/C14.v no longer checks (%s)" % where, pout)
    chk.finish(
        level="proof",
        rule="histories of 1-6 real client+server connections (PSK and certificate variants) in synctest bubbles over two "
             "shared instrumented session stores; per connection: scripted store mutations, provoked alerts, black holes, "
             "fault masks, CID generators, client authentication. Monitors = the property's statements on the "
             "implementation trace; every history is replayed through the Coq model (mode, offered id, outcome per side, "
             "master secret / key-block arguments / session id / connection ids of established sides, Set/Del calls on "
             "both stores, store contents afterwards, threading of the stores from connection to connection). "
             "evaluations = connections; non-trivial = history with at least one scripted deviation; distinct by "
             "(variant, script).",
        assumptions=["record protection and verify_data idealised: a record opens only under the key block it was sealed "
                     "with, KB and VD injective (explicit premises K_eqb_spec, V_eqb_spec, KB_inj, VD_inj of the theorems; "
                     "the correspondence runs the real AEAD/PRF)",
                     "unmodified datagrams (tampering with hellos or Finished is C11/C04) - except step.fault shsuite, which replaces the "
                     "cipher_suite bytes of the ServerHello on the path (a suite the client did not offer; the server's own code "
                     "refuses to send one); alerts are not lost",
                     "the master secret of a full handshake is a parameter of the connection (key exchange is C10/C04)",
                     "a side that stalls is observed as 'returns only when the caller's 40 s deadline expires'"],
        explanation="See evidence legs.histories.observations_not_part_of_the_property for behaviour that the property "
                    "permits but a reader may not expect (mismatch = silent stall and permanent lock-out; DelSession "
                    "under the wrong key; callbacks skipped on resumption).")


def replay(chk, path):
    """Re-run ONE recorded history: the replay file (or any JSON with `variant` and `steps`, or with
    `replay.history`) gives the per-connection scripts; the harness runs exactly that history against
    the current tree and the monitors and the model comparison judge it again."""
    import json
    import os
    with open(path) as f:
        body = json.load(f)
    h = body.get("replay", {}).get("history") or body.get("history") or body
    script = {"variant": h["variant"], "steps": h.get("steps") or [c["step"] for c in h["conns"]]}
    sp = os.path.join(vlib.WORK, "c14script.%d.json" % os.getpid())
    with open(sp, "w") as f:
        json.dump(script, f)
    try:
        run(chk, script=sp)
    finally:
        vlib.cleanup(sp)
