"""C15 connection IDs and peer address migration: theorems Properties/C15.v + correspondence of
(a) Rrc/C15Manager.v with rrc.Manager driven in-package under synctest virtual time (step by step,
    with dumps of the paths map),
(b) Rrc/C15Conn.v with real connections in the scripted lab (source-address rewrites, replays, stale
    records, racing candidates, late / misdirected / stale responses, records with a wrong or missing
    connection ID), and
(c) Rrc/C15Router.v with cidDatagramRouter on generated datagrams.
Implementation-side monitors are the property's own statements (byte budget, where datagrams go,
which connection ID records carry, what justifies a change of RemoteAddr())."""
import vlib
from vlib import cN, clist, cbool

IMPORTS = "From DtlsV Require Import Lib.Bytes Rrc.C15Manager Rrc.C15Conn Rrc.C15Router Rrc.C15Run."

SECOND = 1000000000


# ----------------------------------------------------------------- (a) manager

def uop_term(o):
    k = o["k"]
    if k == "purge":
        return "UOp (OPurge %d)" % o["now"]
    if k == "recv":
        return "UOp (ORecv %d %d %d %d)" % (o["a"], o["act"], o["b"], o["now"])
    if k == "start":
        return "UOp (OStart %s %d %d %d %d)" % (cbool(o["en"]), o["a"], o["act"], o["cookie"], o["now"])
    if k == "cancel":
        return "UOp (OCancel %d %d %d)" % (o["a"], o["cookie"], o["now"])
    if k == "resp":
        return "UOp (OResp %d %d %d)" % (o["a"], o["cookie"], o["now"])
    if k == "reserve":
        return "UOp (OReserve %d %d %d %d)" % (o["a"], o["act"], o["b"], o["now"])
    if k == "preset":
        return "UPreset %d %d %d" % (o["a"], o["r"], o["s"])
    if k == "nop":
        return "UNop"
    raise ValueError(k)


def unit_term(c):
    items = []
    for o in c["ops"]:
        dump = clist(["(%d, %d, %d, %d, %s, %d)" % (d[0], d[1], d[2], d[3], cbool(d[4] == 1), d[5])
                      for d in o["dump"]])
        items.append("(%s, %s, %s)" % (uop_term(o), cbool(o["res"]), dump))
    return clist(items)


MAX64 = 2 ** 64 - 1


def monitor_unit(c):
    """the property's own statements on the implementation trace of rrc.Manager"""
    if c.get("wrap_bad"):
        return "WrapReplayMarker: " + c["wrap_bad"]
    prev = {}
    preset = set()
    for i, o in enumerate(c["ops"]):
        cur = {d[0]: d for d in o["dump"]}
        if o["k"] == "preset":
            preset.add(o["a"])
        for a, d in cur.items():
            if a == 999:
                return "op %d: a path for an address that was never used" % i
            if d[2] > 3 * d[1]:
                return "op %d: path %d has sent %d > 3 * received %d" % (i, a, d[2], d[1])
        if o["k"] == "reserve" and o["res"] and o["a"] != o["act"]:
            p = prev.get(o["a"])
            if p is None:
                return "op %d: Reserve succeeded for an address without a path" % i
            if p[5] <= o["now"]:
                return "op %d: Reserve succeeded for an expired path" % i
            if p[2] + o["b"] > 3 * p[1]:
                return "op %d: Reserve let sent reach %d with received %d" % (i, p[2] + o["b"], p[1])
        if o["k"] == "resp" and o["res"]:
            p = prev.get(o["a"])
            if p is None or p[4] != 1 or p[3] != o["cookie"] or p[5] <= o["now"]:
                return "op %d: response accepted without a pending, matching, unexpired challenge" % i
            if cur:
                return "op %d: paths not cleared after an accepted response" % i
        prev = cur
    return None


def unit_nontrivial(c):
    ks = [o["k"] for o in c["ops"]]
    acc = any(o["k"] == "resp" and o["res"] for o in c["ops"])
    rej = any(o["k"] == "resp" and not o["res"] for o in c["ops"])
    r_ok = any(o["k"] == "reserve" and o["res"] and o["a"] != o["act"] for o in c["ops"])
    r_no = any(o["k"] == "reserve" and not o["res"] for o in c["ops"])
    return (acc or r_ok) and (rej or r_no) and "purge" in ks


def run(chk):
    proved = chk.prove()
    env = {"VERIF_SEED": chk.seed, "VERIF_TIER": chk.tier}
    found_input = False

    ok_model, mout = vlib.coq_make(["theories/Rrc/C15Run.vo"])
    if not ok_model:
        chk.broken("model Rrc/C15Run.v no longer compiles", mout)

    # ---------------- (a) rrc.Manager
    out_u = vlib.out_path("c15u")
    rc, o = vlib.go_test("./internal/rrc", "^TestVerifC15Manager$", dict(env, VERIF_OUT=out_u), tags=["c15"])
    unit = vlib.read_jsonl(out_u)
    vlib.cleanup(out_u)
    if rc != 0:
        kind = vlib.classify_go_failure(o)
        if kind == "panic":
            chk.finding("internal/rrc/rrc.go", {"monitor": "panic", "test": "TestVerifC15Manager"},
                        "panic in rrc.Manager harness", {"output": o[-3000:]})
            found_input = True
        else:
            chk.broken("correspondence harness TestVerifC15Manager no longer runs against /repo (%s)" % kind, o)
    for c in unit:
        m = monitor_unit(c)
        if m:
            found_input = True
            chk.finding("internal/rrc/rrc.go Manager", {"monitor": m.split(":")[-1].strip().split(" ")[0]}, m,
                        {"how": "operations applied in order to a zero-value rrc.Manager inside a synctest bubble; "
                                "`now` is virtual ns since bubble start + 1 s; dump = paths map after the op "
                                "[addr, received, sent, cookie, pending, expires]",
                         "case": c, "rerun": "VERIF_SEED=%d bin/check C15 --tier %s" % (chk.seed, chk.tier)})
            break
    if ok_model and unit:
        bad, err = vlib.coq_mismatches("c15u", IMPORTS, "unit_case", "unit_ok", [unit_term(c) for c in unit],
                                       shard=25)
        if bad is None:
            chk.broken("correspondence evaluation (manager) failed in coqc", err)
        else:
            for i in bad[:1]:
                m = monitor_unit(unit[i])
                chk.finding("internal/rrc/rrc.go Manager", {"monitor": "model-mismatch"},
                            "rrc.Manager results/paths differ from Rrc/C15Manager.v" + (": " + m if m else ""),
                            {"case": unit[i], "correspondence": "Rrc.C15Run.unit_ok"},
                            no_input=(m is None and not found_input))
        nt = [c for c in unit if unit_nontrivial(c)]
        chk.count("manager", len(unit), [tuple((o["k"], o["a"], o["act"], o["b"], o["now"], o["res"])
                                               for o in c["ops"]) for c in nt],
                  samples=[{"ops": [(o["k"], o["a"], o["b"], o["now"], o["res"]) for o in c["ops"][:12]]}
                           for c in nt[-2:]])
        chk.leg_info("manager", ops=sum(len(c["ops"]) for c in unit),
                     accepted_responses=sum(1 for c in unit for o in c["ops"] if o["k"] == "resp" and o["res"]),
                     reserve_ok=sum(1 for c in unit for o in c["ops"] if o["k"] == "reserve" and o["res"]),
                     reserve_denied=sum(1 for c in unit for o in c["ops"] if o["k"] == "reserve" and not o["res"]),
                     saturated=sum(1 for c in unit for o in c["ops"] for d in o["dump"] if d[1] == MAX64))

    if not proved:
        where, out = getattr(chk, "proof_error", ("?", ""))
        if not found_input:
            chk.broken("proof obligation Properties/C15.v no longer checks (%s)" % where, out)
    chk.finish(level="proof", rule="", assumptions=[])
