"""C15 connection IDs and peer address migration: theorems Properties/C15.v + correspondence of
(a'), inside (b): Rrc/C15Newest.v (per-epoch replay windows + Conn.newestRecord + remote epoch) decides
    which record is "the newest"; stale records (late first record of an epoch, record of a superseded
    epoch) arriving from a new address must not start a challenge,
(a) Rrc/C15Manager.v with rrc.Manager driven in-package under synctest virtual time (step by step,
    with dumps of the paths map),
(b) Rrc/C15Conn.v with real connections in the scripted lab (source-address rewrites, replays, stale
    records, racing candidates, late / misdirected / stale responses, records with a wrong or missing
    connection ID), and
(b2) the same models with bursts of 1..4 authentic, never-delivered records of OLDER epochs (kept back
    across key updates / the epoch 2->3 transition) arriving back to back from a non-active address,
    interleaved with current-epoch records from the active one (the verdict must follow the running
    MAXIMUM over (epoch, seq), not the epoch accepted last: Rrc/C15Newest.v summary rules), and
(c) Rrc/C15Router.v with cidDatagramRouter on generated datagrams.
Implementation-side monitors are the property's own statements (byte budget, where datagrams go,
which connection ID records carry, what justifies a change of RemoteAddr())."""
import json
import re

import vlib
from vlib import cN, clist, cbool

IMPORTS = "From DtlsV Require Import Lib.Bytes Rrc.C15Manager Rrc.C15Conn Rrc.C15Newest Rrc.C15Router Rrc.C15Run."

SECOND = 1000000000


# ----------------------------------------------------------------- (a) manager

def uop_term(o):
    k = o["k"]
    if k == "purge":
        return "UOp (OPurge %d)" % o["now"]
    if k == "recv":
        return "UOp (ORecv %d %d %d %d)" % (o["a"], o["act"], o["b"], o["now"])
    if k == "start":
        return "UOp (OStart %s %d %d %d %d)" % (cbool(o["en"]), o["a"], o["act"], o["cookie"], o["now"])
    if k == "cancel":
        return "UOp (OCancel %d %d %d)" % (o["a"], o["cookie"], o["now"])
    if k == "resp":
        return "UOp (OResp %d %d %d)" % (o["a"], o["cookie"], o["now"])
    if k == "reserve":
        return "UOp (OReserve %d %d %d %d)" % (o["a"], o["act"], o["b"], o["now"])
    if k == "preset":
        return "UPreset %d %d %d" % (o["a"], o["r"], o["s"])
    if k == "nop":
        return "UNop"
    raise ValueError(k)


def unit_term(c):
    items = []
    for o in c["ops"]:
        dump = "None" if o["dump"] is None else "Some " + clist(
            ["(%d, %d, %d, %d, %s, %d)" % (d[0], d[1], d[2], d[3], cbool(d[4] == 1), d[5]) for d in o["dump"]])
        items.append("(%s, %s, %s)" % (uop_term(o), cbool(o["res"]), dump))
    return clist(items)


MAX64 = 2 ** 64 - 1


def monitor_unit(c):
    """the property's own statements on the implementation trace of rrc.Manager"""
    if c.get("wrap_bad"):
        return "WrapReplayMarker: " + c["wrap_bad"]
    prev = {}
    preset = set()
    started = {}   # address -> (cookie, time of the successful Start)
    for i, o in enumerate(c["ops"]):
        cur = {d[0]: d for d in o["dump"]}
        if o["k"] == "preset":
            preset.add(o["a"])
        for a, d in cur.items():
            if a == 999:
                return "op %d: a path for an address that was never used" % i
            if d[2] > 3 * d[1]:
                return "op %d: path %d has sent %d > 3 * received %d" % (i, a, d[2], d[1])
        if o["k"] == "reserve" and o["res"] and o["a"] != o["act"]:
            p = prev.get(o["a"])
            if p is None:
                return "op %d: Reserve succeeded for an address without a path" % i
            if p[5] <= o["now"]:
                return "op %d: Reserve succeeded for an expired path" % i
            if p[2] + o["b"] > 3 * p[1]:
                return "op %d: Reserve let sent reach %d with received %d" % (i, p[2] + o["b"], p[1])
        if o["k"] == "resp" and o["res"]:
            p = prev.get(o["a"])
            if p is None or p[4] != 1 or p[3] != o["cookie"] or p[5] <= o["now"]:
                return "op %d: response accepted without a pending, matching, unexpired challenge" % i
            if cur:
                return "op %d: paths not cleared after an accepted response" % i
            st = started.get(o["a"])
            if st is None or st[0] != o["cookie"] or o["now"] >= st[1] + SECOND:
                return "op %d: response accepted %s after its challenge was issued" % (
                    i, "%d ns" % (o["now"] - st[1]) if st and st[0] == o["cookie"] else "without/long")
            started = {}
        if o["k"] == "start" and o["res"]:
            started[o["a"]] = (o["cookie"], o["now"])
        prev = cur
    return None


def unit_nontrivial(c):
    ks = [o["k"] for o in c["ops"]]
    acc = any(o["k"] == "resp" and o["res"] for o in c["ops"])
    rej = any(o["k"] == "resp" and not o["res"] for o in c["ops"])
    r_ok = any(o["k"] == "reserve" and o["res"] and o["a"] != o["act"] for o in c["ops"])
    r_no = any(o["k"] == "reserve" and not o["res"] for o in c["ops"])
    return (acc or r_ok) and (rej or r_no) and "purge" in ks


# ----------------------------------------------------------------- (b) end to end

ADDR = {"client": 1, "server": 2, "cand1": 3, "cand2": 4, "srv2": 5}


def acode(a):
    return ADDR[a]


def hexlist(h):
    return clist(["%d" % b for b in bytes.fromhex(h)])


def kind_term(s):
    k = s.get("rkind", "")
    if k == "app":
        return "KApp"
    if k == "chal":
        return "(KChallenge %d)" % s["rcookie"]
    if k == "resp":
        return "(KResponse %d)" % s["rcookie"]
    if k == "drop":
        return "KDrop"
    if k == "ack":
        return "KAck"
    if k == "hs":
        return "KHandshake"
    return "KUnknown"


def e2e_term(c):
    steps = []
    for s in c["steps"]:
        if s["op"] == "send":
            continue
        rrc = [e for e in s["emits"] if e["type"] in ("chal", "resp")]
        obs = "(%d, %s, %s)" % (acode(s["raddr"]), clist(
            ["(%d, %d, %d, %d)" % (0 if e["type"] == "chal" else 1, acode(e["to"]), e["size"], e["cookie"])
             for e in rrc]), cbool(s["delivered"]))
        if s["op"] == "tick":
            st = "STick %d" % s["now"]
        else:
            chosen = [e["cookie"] for e in rrc if e["type"] == "chal"]
            rc = "None" if s["rcid"] is None else "(Some %s)" % hexlist(s["rcid"])
            st = "SDeliver %d %d %d %s %d %s %d %d %d" % (
                acode(s["from"]), s["epoch"], s["seq"], rc, s["bytes"], kind_term(s),
                chosen[0] if chosen else 0, s["now"], s["repoch"])
        steps.append("(%s, %s)" % (st, obs))
    return "(%s, %s, %d, %s, %d, %d, %s)" % (
        cbool(c["neg"]), hexlist(c["local_cid"]), c["wsize"],
        clist(["(%d, %d)" % (x[0], x[1]) for x in c["pre"]]), c["repoch0"], acode(c["peer"]), clist(steps))


def stale_class(m):
    """which stale-record scenario a 'not the newest record' message is about"""
    if not m or "not an authentic newest" not in m:
        return None
    g = re.search(r"\(epoch (-?\d+), seq (-?\d+)\) from \S+ newest received before: \(epoch (-?\d+), seq (-?\d+)\)", m)
    if not g:
        return "stale"
    e, q, me, mq = (int(x) for x in g.groups())
    if e < me:
        return "record of a superseded epoch"
    if q == 0:
        return "late first record of the epoch"
    return "stale sequence number"


def monitor_e2e(c):
    """the property's own statements, evaluated on the implementation trace"""
    if c.get("err"):
        return "harness: " + c["err"]
    ra = c["peer"]
    recv, sent = {}, {}
    # records are ordered by epoch, then sequence number (RFC 9146 section 6); everything the endpoint
    # was handed during the handshake counts as received
    seen_rec = set()
    max_ok = max([(x[0], x[1]) for x in c["pre"]]) if c["pre"] else (-1, -1)
    chals = []   # (cookie, to, now, trigger_ok)
    for i, s in enumerate(c["steps"]):
        before = ra
        if s["op"] == "deliver" and s["from"] != before:
            recv[s["from"]] = recv.get(s["from"], 0) + s["bytes"]
        # carries the endpoint's own ID (none when that ID is empty) and is not a replay
        own = (s["rcid"] == c["local_cid"]) if s["rcid"] is not None else c["local_cid"] == ""
        rid = (s.get("epoch", 0), s["seq"])
        genuine = s["op"] == "deliver" and own and rid not in seen_rec
        newest = genuine and rid > max_ok
        sent_before = sent.get(s.get("from"), 0)
        repoch_before = c["steps"][i - 1]["repoch"] if i else c["repoch0"]
        for e in s["emits"]:
            # connection ID on every protected record the endpoint sends
            for rr in e["recs"]:
                if not rr["prot"]:
                    if rr["hdr_ct"] == 25:
                        return "step %d: emitted an unprotected record with a connection ID" % i
                    continue
                if c["peer_cid"]:
                    if rr["hdr_ct"] != 25 or rr["cid"] != c["peer_cid"]:
                        return "step %d: emitted record does not carry the peer's connection ID" % i
                elif rr["hdr_ct"] == 25:
                    return "step %d: emitted a tls12_cid record although the peer asked for none" % i
            if e["type"] in ("chal", "resp"):
                if not c["neg"]:
                    return "step %d: RRC record emitted without negotiation" % i
                if s["op"] != "deliver" or e["to"] != s["from"]:
                    return "step %d: RRC record to %s not caused by a record from there" % (i, e["to"])
                if e["type"] == "chal":
                    if not (newest and s["rcid"] is not None):
                        return ("step %d: challenge started by a record that is not an authentic newest CID record "
                                "(record (epoch %d, seq %d) from %s newest received before: (epoch %d, seq %d))"
                                % (i, rid[0], rid[1], s["from"], max_ok[0], max_ok[1]))
                    chals.append((e["cookie"], e["to"], s["now"]))
            elif e["to"] != before:
                return "step %d: %s datagram sent to %s while RemoteAddr() is %s" % (i, e["type"], e["to"], before)
            if e["to"] != before:
                sent[e["to"]] = sent.get(e["to"], 0) + e["size"]
                if sent[e["to"]] > 3 * recv.get(e["to"], 0):
                    return "step %d: %d bytes sent to unvalidated %s after receiving %d from it" % (
                        i, sent[e["to"]], e["to"], recv.get(e["to"], 0))
        # liveness: the newest record received, carrying the endpoint's own ID, from an address that is not the
        # active one must be answered by a path challenge to that address - unless a challenge to it is still
        # pending (< 1 s old) or the three-times budget of that address cannot pay for it (conservative test)
        if (c["neg"] and newest and s["rcid"] is not None and s["from"] != before
                and s.get("rkind") in ("app", "hs", "ack", "chal") and rid[0] <= repoch_before):
            pending = any(to == s["from"] and s["now"] < t + SECOND for _, to, t in chals)  # incl. this step's
            need = c["wsize"] * (2 if s.get("rkind") == "chal" else 1)
            affordable = c["wsize"] > 0 and sent_before + need <= 3 * s["bytes"]
            if not pending and affordable:
                return ("step %d: no path challenge for the newest received record (epoch %d, seq %d) that arrived "
                        "from the new address %s (newest received before: (epoch %d, seq %d); the endpoint's remote "
                        "epoch is %d)" % (i, rid[0], rid[1], s["from"], max_ok[0], max_ok[1], repoch_before))
        if s["delivered"]:
            if not (genuine and s.get("rkind") == "app" and s["read_ok"]):
                return "step %d: Read returned a payload for a record that must not be accepted" % i
        if genuine:
            seen_rec.add(rid)
            max_ok = max(max_ok, rid)
        if s["raddr"] != before:
            if not c["neg"]:
                return "step %d: RemoteAddr() changed without RRC negotiation" % i
            ok = (s["op"] == "deliver" and genuine and s.get("rkind") == "resp" and s["from"] == s["raddr"]
                  and any(ck == s["rcookie"] and to == s["from"] and s["now"] < t + SECOND for ck, to, t in chals))
            if not ok:
                return "step %d: RemoteAddr() changed to %s without a timely matching path response" % (i, s["raddr"])
            chals = []
        ra = s["raddr"]
    return None


def e2e_nontrivial(c):
    emitted = any(e["type"] in ("chal", "resp") for s in c["steps"] for e in s["emits"])
    refused = any(s["op"] == "deliver" and s["from"] != c["peer"] and not s["emits"] for s in c["steps"])
    return emitted and refused


# ----------------------------------------------------------------- (d) listener, several connections

def monitor_listener(c):
    """the property's own statements on a real listener with several live connections"""
    if c.get("err"):
        return "harness: " + c["err"]
    for i, o in enumerate(c["ops"]):
        x = o["x"]
        where = {"own": "its own socket", "fromother": "the address the listener tracks for connection %d" % o["y"],
                 "fresh": "a brand-new address", "rebind": "a brand-new address"}.get(o["op"])
        if o["op"] == "unknown":
            if o["readers"]:
                return "op %d: a record with an unregistered connection ID was read by connection %s" % (i, o["readers"])
        else:
            if any(r != x for r in o["readers"]):
                return "op %d: record carrying the ID of connection %d read by connection %s" % (i, x, o["readers"])
            if o["readers"] != [x]:
                return ("op %d: record carrying the connection ID of connection %d, sent from %s, was not "
                        "delivered to connection %d" % (i, x, where, x))
        for k, ra in enumerate(o["raddrs"]):
            if k == x:
                if ra not in o["valid"]:
                    return "op %d: RemoteAddr() of connection %d is %s, which never answered a challenge" % (i, k, ra)
            elif ra != c["addrs"][k] and o["op"] != "own":
                pass  # other connections may still be migrating back after their own rebinding
        if o["op"] == "rebind" and not o["rebound"]:
            return "op %d: path validated from the new address but RemoteAddr() did not follow (%s)" % (
                i, o.get("note") or "no note")
    if c["dups"]:
        return "%d payloads were read more than once" % c["dups"]
    return None


def listener_terms(c):
    def sbytes(x):
        return clist(["%d" % b for b in x.encode()])
    # an ID is in the listener's table only if cidConnIdentifier learnt it from what the connection wrote
    # (Rrc/C15Router.v learned / table_after; compared separately by learn_ok)
    table = ["(%s, %d)" % (hexlist(cid), k) for k, cid in enumerate(c["cids"]) if c["learned"][k] == cid]
    # tracked source addresses (a connection keeps its entry until it writes elsewhere; irrelevant
    # for records whose ID is registered - that is the theorem - and harmless for the others)
    table += ["(%s, %d)" % (sbytes(a), k) for k, a in enumerate(c["addrs"])]
    out = []
    for o in c["ops"]:
        owner = 99 if o["op"] == "unknown" else o["x"]
        obs = "None" if o["reader"] < 0 else "(Some %d)" % o["reader"]
        out.append("(%s, %s, %s, %d, %s)" % (clist(table), sbytes(o["src"]), hexlist(o["cid"]), owner, obs))
    return out


K_C15_1_SITE = "connection_id.go cidConnIdentifier / internal/net/udp/packet_conn.go listener.getConn"
K_C15_1_SIG = {"monitor": "cid-record-from-other-address-not-delivered", "serverhello": "fragmented"}


def listener_known_gap(c, m):
    """K-C15-1: the monitor's complaint is about a connection whose ServerHello left in fragments, so that
    the listener never learnt its ID"""
    if not m or "was not delivered to connection" not in m:
        return False
    g = re.match(r"op (\d+):", m)
    x = c["ops"][int(g.group(1))]["x"]
    return c["sh_frag"][x] and c["learned"][x] is None


def learn_terms(c):
    out = []
    for k, ws in enumerate(c["writes"]):
        recs = ["(mkFR %s %d %d %d %s)" % (cbool(w["sh"]), w["off"], w["flen"], w["tlen"],
                                            "None" if w["cid"] is None else "(Some %s)" % hexlist(w["cid"]))
                for w in ws]
        obs = "None" if c["learned"][k] is None else "(Some %s)" % hexlist(c["learned"][k])
        out.append("(%s, %s)" % (clist(recs), obs))
    return out


def fill_dumps(c):
    last = []
    for o in c["ops"]:
        if o["dump"] is None:
            o["dump_same"] = True
            o["dump"] = last
        last = o["dump"]


def run(chk):
    proved = chk.prove()
    env = {"VERIF_SEED": chk.seed, "VERIF_TIER": chk.tier}
    found_input = False

    ok_model, mout = vlib.coq_make(["theories/Rrc/C15Run.vo"])
    if not ok_model:
        chk.broken("model Rrc/C15Run.v no longer compiles", mout)

    # ---------------- (a) rrc.Manager
    out_u = vlib.out_path("c15u")
    rc, o = vlib.go_test("./internal/rrc", "^TestVerifC15Manager$", dict(env, VERIF_OUT=out_u), tags=["c15"])
    unit = vlib.read_jsonl(out_u)
    vlib.cleanup(out_u)
    if rc != 0:
        kind = vlib.classify_go_failure(o)
        if kind == "panic":
            chk.finding("internal/rrc/rrc.go", {"monitor": "panic", "test": "TestVerifC15Manager"},
                        "panic in rrc.Manager harness", {"output": o[-3000:]})
            found_input = True
        else:
            chk.broken("correspondence harness TestVerifC15Manager no longer runs against /repo (%s)" % kind, o)
    unit_terms = [unit_term(c) for c in unit]
    for c in unit:
        fill_dumps(c)
    for c in unit:
        m = monitor_unit(c)
        if m:
            found_input = True
            chk.finding("internal/rrc/rrc.go Manager", {"monitor": m.split(":")[-1].strip().split(" ")[0]}, m,
                        {"how": "operations applied in order to a zero-value rrc.Manager inside a synctest bubble; "
                                "`now` is virtual ns since bubble start + 1 s; dump = paths map after the op "
                                "[addr, received, sent, cookie, pending, expires]",
                         "case": c, "rerun": "VERIF_SEED=%d bin/check C15 --tier %s" % (chk.seed, chk.tier)})
            break
    if ok_model and unit:
        bad, err = vlib.coq_mismatches("c15u", IMPORTS, "unit_case", "unit_ok", unit_terms, shard=25)
        if bad is None:
            chk.broken("correspondence evaluation (manager) failed in coqc", err)
        else:
            for i in bad[:1]:
                m = monitor_unit(unit[i])
                chk.finding("internal/rrc/rrc.go Manager", {"monitor": "model-mismatch"},
                            "rrc.Manager results/paths differ from Rrc/C15Manager.v" + (": " + m if m else ""),
                            {"case": unit[i], "correspondence": "Rrc.C15Run.unit_ok"},
                            no_input=(m is None and not found_input))
        nt = [c for c in unit if unit_nontrivial(c)]
        chk.count("manager", len(unit), [tuple((o["k"], o["a"], o["act"], o["b"], o["now"], o["res"])
                                               for o in c["ops"]) for c in nt],
                  samples=[{"ops": [(o["k"], o["a"], o["b"], o["now"], o["res"]) for o in c["ops"][:12]]}
                           for c in nt[-2:]])
        chk.leg_info("manager", ops=sum(len(c["ops"]) for c in unit),
                     accepted_responses=sum(1 for c in unit for o in c["ops"] if o["k"] == "resp" and o["res"]),
                     reserve_ok=sum(1 for c in unit for o in c["ops"] if o["k"] == "reserve" and o["res"]),
                     reserve_denied=sum(1 for c in unit for o in c["ops"] if o["k"] == "reserve" and not o["res"]),
                     saturated=sum(1 for c in unit for o in c["ops"] for d in o["dump"] if d[1] == MAX64))

    # ---------------- (b) end to end
    out_e = vlib.out_path("c15e")
    rc, o = vlib.go_test(".", "^TestVerifC15E2E$", dict(env, VERIF_OUT=out_e), timeout=1800, tags=["c15"])
    e2e = vlib.read_jsonl(out_e)
    vlib.cleanup(out_e)
    if rc != 0:
        kind = vlib.classify_go_failure(o)
        if kind == "panic":
            chk.finding("conn.go receive path / connection_id.go", {"monitor": "panic", "test": "TestVerifC15E2E"},
                        "panic in end-to-end harness", {"output": o[-3000:]})
            found_input = True
        else:
            chk.broken("correspondence harness TestVerifC15E2E no longer runs against /repo (%s)" % kind, o)
    how_e2e = ("establish (PSK suite `variant`) with ConnectionIDGenerator lengths len_eut/len_peer (-1 = none); the "
               "peer's writes are captured (in `-stale0` variants the first datagram of the peer that carries a "
               "record of the application epoch is withheld during the handshake and kept; in `-oldepoch` variants "
               "the peer updates its keys and one record of the old epoch is kept; in `-acklost` variants the EUT's ACK "
               "of the peer's KeyUpdate is withheld, so the peer stays in the old epoch); each `deliver` step hands pool "
               "record `rec` (epoch `epoch`, sequence `seq`, kind "
               "`rkind`, connection ID `rcid`, `tamper` = sender-side ID altered) to the endpoint under test "
               "from source address `from` at virtual time `now`; `emits` = what it sent (decoded with the "
               "peer's keys), `raddr` = RemoteAddr() afterwards, `repoch` = its remote epoch afterwards; `pre` = "
               "protected records (epoch, seq) it was handed during the handshake")
    reported = set()
    for c in e2e:
        m = monitor_e2e(c)
        if m:
            found_input = True
            sig = {"monitor": m.split(": ", 1)[-1].split(" ")[0:4], "neg": c["neg"]}
            if stale_class(m):
                sig["stale"] = stale_class(m)
            key = json.dumps(sig, sort_keys=True)
            if key in reported:
                continue
            reported.add(key)
            chk.finding("conn.go handleIncomingPacket / connection_id.go / internal/rrc", sig, m,
                        {"how": how_e2e, "case": c,
                         "rerun": "VERIF_SEED=%d bin/check C15 --tier %s" % (chk.seed, chk.tier)})
            if len(reported) >= 3:
                break
    if ok_model and e2e:
        usable = [c for c in e2e if not c.get("err")]
        bad, err = vlib.coq_mismatches("c15e", IMPORTS, "e2e_case", "e2e_ok", [e2e_term(c) for c in usable],
                                       shard=40)
        if bad is None:
            chk.broken("correspondence evaluation (e2e) failed in coqc", err)
        else:
            for i in bad[:1]:
                m = monitor_e2e(usable[i])
                chk.finding("conn.go handleIncomingPacket / connection_id.go / internal/rrc",
                            {"monitor": "model-mismatch", "neg": usable[i]["neg"]},
                            "observations differ from Rrc/C15Conn.v + Rrc/C15Newest.v" + (": " + m if m else ""),
                            {"how": how_e2e, "case": usable[i], "correspondence": "Rrc.C15Run.e2e_ok"},
                            no_input=(m is None and not found_input))
        nt = [c for c in usable if e2e_nontrivial(c)]
        chk.count("e2e", len(e2e), [(c["eut"], c["len_eut"], c["len_peer"], c["variant"],
                                     tuple((s["op"], s.get("from"), s.get("rkind"), s.get("tamper"), s.get("epoch"), s["seq"], s["now"])
                                           for s in c["steps"])) for c in nt],
                  samples=[{"eut": c["eut"], "lens": [c["len_eut"], c["len_peer"]], "script": c["script"],
                            "raddr": [s["raddr"] for s in c["steps"]][-8:]} for c in nt[-2:]])
        chk.cov["traces_validated_against_impl"] += len(e2e)
        changes = 0
        for c in e2e:
            ra = c["peer"]
            for s in c["steps"]:
                if s["raddr"] != ra:
                    changes += 1
                ra = s["raddr"]
        chk.leg_info("e2e", steps=sum(len(c["steps"]) for c in e2e), address_changes=changes,
                     challenges=sum(1 for c in e2e for s in c["steps"] for e in s["emits"] if e["type"] == "chal"),
                     responses_sent=sum(1 for c in e2e for s in c["steps"] for e in s["emits"] if e["type"] == "resp"),
                     responses_delivered=sum(1 for c in e2e for s in c["steps"] if s.get("rkind") == "resp"),
                     tampered_cid_delivered=sum(1 for c in e2e for s in c["steps"] if s.get("tamper")),
                     remote_epoch_changes=sum(1 for c in e2e for a, b in zip(
                         [c["repoch0"]] + [s["repoch"] for s in c["steps"]], [s["repoch"] for s in c["steps"]]) if b != a),
                     old_epoch_records_delivered=sum(1 for c in e2e for i, s in enumerate(c["steps"])
                                                     if s["op"] == "deliver" and s["epoch"] < (
                                                         c["steps"][i - 1]["repoch"] if i else c["repoch0"])),
                     late_first_records_delivered=sum(1 for c in e2e for s in c["steps"]
                                                      if s["op"] == "deliver" and s["seq"] == 0 and not s.get("tamper")
                                                      and [s["epoch"], 0] not in c["pre"]),
                     directed_stale_cases=sum(1 for c in e2e if "stale0" in c["variant"] or "oldepoch" in c["variant"]),
                     directed_acklost_cases=sum(1 for c in e2e if "acklost" in c["variant"]),
                     cid_length_pairs=sorted({(c["len_eut"], c["len_peer"]) for c in e2e}),
                     not_negotiated=sum(1 for c in e2e if not c["neg"]))

    # ---------------- (b2) bursts of stale records of older epochs from a new address (DTLS 1.3)
    out_b = vlib.out_path("c15b")
    rc, o = vlib.go_test(".", "^TestVerifC15Burst$", dict(env, VERIF_OUT=out_b), timeout=1800, tags=["c15"])
    burst = vlib.read_jsonl(out_b)
    vlib.cleanup(out_b)
    if rc != 0:
        kind = vlib.classify_go_failure(o)
        if kind == "panic":
            chk.finding("conn.go newestRecord / receive path", {"monitor": "panic", "test": "TestVerifC15Burst"},
                        "panic in stale-burst harness", {"output": o[-3000:]})
            found_input = True
        else:
            chk.broken("correspondence harness TestVerifC15Burst no longer runs against /repo (%s)" % kind, o)
    elif not burst:
        chk.broken("correspondence harness TestVerifC15Burst produced no cases", o)
    how_burst = ("DTLS 1.3 handshake (certificates) with ConnectionIDGenerator lengths len_eut/len_peer, RRC negotiated; "
                 "`script`: Kn = the peer updates its keys and writes n application records in the OLD epoch after its "
                 "KeyUpdate and before the ACK reaches it (all kept back), Z = the first record (sequence number 0) of the "
                 "new epoch is kept back too, A = the peer protects an ACK record of the handshake epoch 2 that is never "
                 "sent; in between current-epoch records are delivered from the peer's own address. Then the kept records "
                 "are delivered (`deliver` steps: epoch `epoch`, sequence `seq`, source address `from`) in bursts Bn of n "
                 "records back to back from cand1/cand2, c = a current-epoch record from the active address between bursts; "
                 "every path challenge the endpoint emits is relayed through the peer and the response delivered from the "
                 "challenged address; last, a really newest record from cand1 (positive control). `emits` = what the "
                 "endpoint sent at each step, `raddr` = RemoteAddr() afterwards, `pre` = protected records (epoch, seq) it "
                 "was handed during the handshake")
    for c in burst:
        m = monitor_e2e(c)
        if m:
            found_input = True
            sig = {"monitor": m.split(": ", 1)[-1].split(" ")[0:4], "neg": c["neg"], "leg": "burst"}
            if stale_class(m):
                sig["stale"] = stale_class(m)
            moved = [(i, s["raddr"]) for i, s in enumerate(c["steps"]) if s["raddr"] in ("cand1", "cand2")]
            what = m
            if stale_class(m) and moved:
                what += "; the challenge was answered (relayed) and RemoteAddr() became %s at step %d" % (
                    moved[0][1], moved[0][0])
            chk.finding("conn.go newestRecord (protectedReplayMarker / legacyReplayMarker) / connection_id.go HandleCandidate",
                        sig, what, {"how": how_burst, "case": c,
                                    "rerun": "VERIF_SEED=%d bin/check C15 --tier %s" % (chk.seed, chk.tier)})
            break
    if ok_model and burst:
        usable = [c for c in burst if not c.get("err")]
        bad, err = vlib.coq_mismatches("c15b", IMPORTS, "e2e_case", "e2e_ok", [e2e_term(c) for c in usable],
                                       shard=40)
        if bad is None:
            chk.broken("correspondence evaluation (burst) failed in coqc", err)
        else:
            for i in bad[:1]:
                m = monitor_e2e(usable[i])
                chk.finding("conn.go newestRecord (protectedReplayMarker / legacyReplayMarker) / connection_id.go HandleCandidate",
                            {"monitor": "model-mismatch", "neg": usable[i]["neg"], "leg": "burst"},
                            "observations differ from Rrc/C15Conn.v + Rrc/C15Newest.v" + (": " + m if m else ""),
                            {"how": how_burst, "case": usable[i], "correspondence": "Rrc.C15Run.e2e_ok"},
                            no_input=(m is None and not found_input))

        def stale_deliveries(c):
            """(burst lengths) deliveries from a non-active address of records below the newest received"""
            mx = max([(x[0], x[1]) for x in c["pre"]]) if c["pre"] else (-1, -1)
            ra, runs, cur = c["peer"], [], 0
            for s in c["steps"]:
                if s["op"] == "deliver":
                    rid = (s["epoch"], s["seq"])
                    if s["from"] != ra and rid[0] < mx[0]:
                        cur += 1
                    else:
                        if cur:
                            runs.append(cur)
                        cur = 0
                    mx = max(mx, rid)
                ra = s["raddr"]
            if cur:
                runs.append(cur)
            return runs
        nt = [c for c in usable if any(n >= 2 for n in stale_deliveries(c))
              and any(e["type"] == "chal" for s in c["steps"] for e in s["emits"])]
        chk.count("burst", len(burst), [(c["eut"], c["len_eut"], c["len_peer"], c["script"],
                                         tuple((s["op"], s.get("from"), s.get("rkind"), s.get("epoch"), s["seq"])
                                               for s in c["steps"])) for c in nt],
                  samples=[{"eut": c["eut"], "lens": [c["len_eut"], c["len_peer"]], "script": c["script"],
                            "stale_runs": stale_deliveries(c)} for c in nt[-2:]])
        chk.cov["traces_validated_against_impl"] += len(burst)
        runs = [n for c in usable for n in stale_deliveries(c)]
        chk.leg_info("burst", cases=len(burst), steps=sum(len(c["steps"]) for c in burst),
                     old_epoch_bursts=len(runs), burst_lengths={str(k): runs.count(k) for k in sorted(set(runs))},
                     old_epoch_records_from_new_address=sum(runs),
                     epochs_of_stale_records=sorted({s["epoch"] for c in usable for s in c["steps"]
                                                     if s["op"] == "deliver" and s["from"] in ("cand1", "cand2")}),
                     late_first_records=sum(1 for c in usable for s in c["steps"] if s["op"] == "deliver"
                                            and s["seq"] == 0 and s["from"] in ("cand1", "cand2")),
                     challenges=sum(1 for c in burst for s in c["steps"] for e in s["emits"] if e["type"] == "chal"),
                     address_changes=sum(1 for c in burst for a, b in zip(
                         [c["peer"]] + [s["raddr"] for s in c["steps"]], [s["raddr"] for s in c["steps"]]) if a != b),
                     errors=sum(1 for c in burst if c.get("err")))

    # ---------------- (c) router
    out_r = vlib.out_path("c15r")
    rc, o = vlib.go_test(".", "^TestVerifC15Router$", dict(env, VERIF_OUT=out_r), tags=["c15"])
    rt = vlib.read_jsonl(out_r)
    vlib.cleanup(out_r)
    if rc != 0:
        kind = vlib.classify_go_failure(o)
        if kind == "panic":
            chk.finding("connection_id.go cidDatagramRouter", {"monitor": "panic", "test": "TestVerifC15Router"},
                        "panic in cidDatagramRouter", {"output": o[-3000:]})
            found_input = True
        else:
            chk.broken("correspondence harness TestVerifC15Router no longer runs against /repo (%s)" % kind, o)
    for c in rt:
        if not c["same"]:
            found_input = True
            chk.finding("connection_id.go cidDatagramRouter", {"monitor": "not-a-function-of-bytes"},
                        "router returned different results for equal datagram bytes", {"case": c})
            break
    if ok_model and rt:
        def rterm(c):
            d = "DBad" if c["bad"] else "(DRecs %s)" % clist(
                ["(mkRec %d %s %s)" % (r["ct"], cbool(r["verok"]), hexlist(r["cid"])) for r in c["recs"]])
            obs = ("(Some %s)" % hexlist(c["id"])) if c["found"] else "None"
            return "(%s, %s)" % (d, obs)
        bad, err = vlib.coq_mismatches("c15r", IMPORTS, "router_case", "router_ok", [rterm(c) for c in rt], shard=300)
        if bad is None:
            chk.broken("correspondence evaluation (router) failed in coqc", err)
        else:
            for i in bad[:1]:
                chk.finding("connection_id.go cidDatagramRouter", {"monitor": "model-mismatch"},
                            "cidDatagramRouter result differs from Rrc/C15Router.v",
                            {"case": rt[i], "correspondence": "Rrc.C15Run.router_ok"}, no_input=not found_input)
        nt = [c for c in rt if c["found"] and any(r["ct"] != 25 or not r["verok"] for r in c["recs"])]
        chk.count("router", len(rt), [(c["size"], c["bad"], tuple((r["ct"], r["verok"], r["cid"]) for r in c["recs"]))
                                      for c in nt], samples=nt[-2:])
        chk.leg_info("router", found=sum(1 for c in rt if c["found"]), unsplittable=sum(1 for c in rt if c["bad"]))

    # ---------------- (d) listener with several live connections (real loopback sockets, real time)
    out_l = vlib.out_path("c15l")
    rc, o = vlib.go_test(".", "^TestVerifC15Listener$", dict(env, VERIF_OUT=out_l), timeout=900, tags=["c15"])
    lst = vlib.read_jsonl(out_l)
    vlib.cleanup(out_l)
    if rc != 0:
        kind = vlib.classify_go_failure(o)
        if kind == "panic":
            chk.finding("internal/net/udp/packet_conn.go getConn", {"monitor": "panic", "test": "TestVerifC15Listener"},
                        "panic in listener harness", {"output": o[-3000:]})
            found_input = True
        else:
            chk.broken("correspondence harness TestVerifC15Listener no longer runs against /repo (%s)" % kind, o)
    how_l = ("listenWithConfig on 127.0.0.1 with RandomCIDGenerator(`cid_len`) and server MTU `mtu` (0 = default); "
             "clients 0..n-1 each on their own UDP socket (`addrs`), server connection IDs `cids`; `writes` = first "
             "record of every datagram the server wrote during each handshake [ServerHello?, fragment offset, "
             "fragment length, message length, connection_id of the message], `learned` = the ID cidConnIdentifier "
             "yields over them, `sh_frag` = the ServerHello left in fragments; each op sends one fresh application "
             "record made with client "
             "x's keys to the listener from socket `src` (own = x's socket, fromother = client y's socket, "
             "fresh/rebind = new socket, unknown = connection ID altered); `readers` = server connections whose "
             "Read returned the payload, `raddrs` = RemoteAddr() of every server connection afterwards")
    known_gap_cases = 0
    for c in lst:
        m = monitor_listener(c)
        if m and listener_known_gap(c, m):
            # KNOWN GAP K-C15-1 (stable site/signature; one report per run)
            known_gap_cases += 1
            if known_gap_cases == 1:
                found_input = True
                chk.finding(K_C15_1_SITE, K_C15_1_SIG,
                            "the listener never learnt the connection ID because the ServerHello left in fragments "
                            "(variant %s): %s" % (c["variant"], m),
                            {"how": how_l, "case": c,
                             "rerun": "VERIF_SEED=%d bin/check C15 --tier %s" % (chk.seed, chk.tier)})
            continue
        if m:
            found_input = True
            chk.finding("internal/net/udp/packet_conn.go listener.getConn",
                        {"monitor": " ".join(m.split(": ", 1)[-1].split(" ")[0:6]), "variant": c["variant"]}, m,
                        {"how": how_l, "case": c,
                         "rerun": "VERIF_SEED=%d bin/check C15 --tier %s" % (chk.seed, chk.tier)})
            break
    if ok_model and lst:
        usable = [c for c in lst if not c.get("err")]
        terms, owners = [], []
        for ci, c in enumerate(usable):
            for t in listener_terms(c):
                terms.append(t)
                owners.append(ci)
        bad, err = vlib.coq_mismatches("c15l", IMPORTS, "listener_case", "listener_ok", terms, shard=60)
        if bad is None:
            chk.broken("correspondence evaluation (listener) failed in coqc", err)
        else:
            for i in bad[:1]:
                c = usable[owners[i]]
                m = monitor_listener(c)
                chk.finding("internal/net/udp/packet_conn.go listener.getConn",
                            {"monitor": "model-mismatch", "variant": c["variant"]},
                            "routing decision differs from Rrc/C15Router.v get_conn_id" + (": " + m if m else ""),
                            {"how": how_l, "case": c, "correspondence": "Rrc.C15Run.listener_ok"},
                            no_input=(m is None and not found_input))
        lterms, lown = [], []
        for ci, c in enumerate(usable):
            for t in learn_terms(c):
                lterms.append(t)
                lown.append(ci)
        bad, err = vlib.coq_mismatches("c15k", IMPORTS, "learn_case", "learn_ok", lterms, shard=60)
        if bad is None:
            chk.broken("correspondence evaluation (listener learning) failed in coqc", err)
        else:
            for i in bad[:1]:
                chk.finding("connection_id.go cidConnIdentifier", {"monitor": "model-mismatch", "variant": usable[lown[i]]["variant"]},
                            "the ID cidConnIdentifier learns from the written datagrams differs from Rrc/C15Router.v learned",
                            {"how": how_l, "case": usable[lown[i]], "correspondence": "Rrc.C15Run.learn_ok"},
                            no_input=not found_input)
        nt = [c for c in usable if any(o["op"] == "fromother" for o in c["ops"])]
        chk.count("listener", len(terms), [(c["variant"], len(c["cids"]), tuple((o["op"], o["x"], o["y"]) for o in c["ops"]))
                                           for c in nt],
                  samples=[{"variant": c["variant"], "ops": [(o["op"], o["x"], o["y"], o["reader"]) for o in c["ops"]][:12]}
                           for c in nt[-2:]])
        chk.cov["traces_validated_against_impl"] += len(lst)
        chk.leg_info("listener", listeners=len(lst),
                     from_other_connections_address=sum(1 for c in lst for o in c["ops"] if o["op"] == "fromother"),
                     rebinds=sum(1 for c in lst for o in c["ops"] if o["op"] == "rebind" and o["rebound"]),
                     unknown_id=sum(1 for c in lst for o in c["ops"] if o["op"] == "unknown"),
                     variants=sorted({c["variant"] for c in lst}),
                     handshakes_described=len(lterms),
                     serverhello_fragmented=sum(1 for c in lst for f in c["sh_frag"] if f),
                     id_never_learnt=sum(1 for c in lst for x in c["learned"] if x is None),
                     known_gap_cases=known_gap_cases)

    if not proved:
        where, out = getattr(chk, "proof_error", ("?", ""))
        if not found_input:
            chk.broken("proof obligation Properties/C15.v no longer checks (%s)" % where, out)
    chk.finish(
        level="proof",
        rule="manager: random operation sequences (10-60 ops over 5 addresses incl. nil; clock jumps 0/1ns/300ms/500ms/"
             "999ms/1s-1ns/1s/1s+1ns/1001ms/2s; byte counts up to MaxInt64 and counter presets around MaxUint64/3 and "
             "MaxUint64) on rrc.Manager under synctest, every result and the whole paths map compared after every op; "
             "non-trivial = some Reserve/response accepted and some refused and a clock jump; distinct by the full op "
             "sequence. e2e: real handshakes (DTLS 1.2 PSK GCM/CCM8/CBC, DTLS 1.3 certificate) for ID-generator length "
             "pairs {0,1,4,8}^2 plus none/120, both roles, also IDs-without-RRC; scripted source addresses, replays, "
             "stale records, two candidates, late/misdirected/stale responses, altered or missing connection IDs; records "
             "are (epoch, sequence number): protected records of the handshake that were never delivered stay in the "
             "pool, the DTLS 1.3 peer updates its keys inside random scripts, and directed stale scenarios (first "
             "datagram of the application epoch withheld during the handshake - 1.3 first epoch-3 record, 1.2 first "
             "transmission of the Finished -; record of the epoch superseded by a key update) deliver the stale record "
             "from a new address after newer ones, with a really newest record from there as positive control; the "
             "opposite directed scenario `acklost` (peer's KeyUpdate processed, the ACK lost, the peer - still in the "
             "old epoch - sends data and its retransmitted KeyUpdate from a new address) REQUIRES a challenge: "
             "liveness monitor 'the newest received CID record from a non-active address is challenged unless a "
             "challenge to it is pending or the 3x budget cannot pay'; "
             "non-trivial = at least one RRC record emitted and one record from a non-active address that caused "
             "none; distinct by configuration and full script. burst (DTLS 1.3, IDs + RRC, both roles): authentic "
             "never-delivered records of OLDER epochs - written by the peer after its KeyUpdate and before the ACK (1-2 "
             "key updates, 2-5 records each, each above everything accepted in its own epoch), ACK records of the "
             "handshake epoch 2, sometimes the first record of a new epoch - arrive from cand1/cand2 in bursts of 1-4 back "
             "to back (oldest first per epoch, or shuffled), separated by 0-2 current-epoch records from the active "
             "address; every challenge is relayed and answered so that a wrong address change shows; same monitors and "
             "model comparison as e2e (a challenge / address change only on a record above every record accepted so far "
             "in (epoch, sequence) order), positive control at the end; non-trivial = a burst of >= 2 older-epoch records "
             "from a non-active address and a challenge for the control. router: generated record lists incl. bad versions and "
             "truncation; non-trivial = an ID found behind at least one skipped record. listener: real listenWithConfig "
             "over loopback UDP, 2-3 clients, fresh records of connection x sent from its own socket / another live "
             "client's socket / a new socket (with and without answering the challenge) / with an altered ID, every "
             "session pinged after every op; one evaluation per routed record; non-trivial = contains a record sent "
             "from another live connection's address; plus server ID lengths 16/20 (1.3) and 20 (1.2) at the default "
             "MTU and MTU 64 (1.2), each with a record from a brand-new address, and for every handshake the first "
             "records of the datagrams the server wrote vs the ID cidConnIdentifier learns (Rrc/C15Router.v learned).",
        assumptions=[
            "an ERecord event of Rrc/C15Conn.v is a record for which conn.go prepareIncomingPacket succeeded; that only "
            "the key holder can produce such records is C05 (AEAD) and not re-proved here",
            "the path challenge cookie is an input of the model (crypto/rand in the code): the theorems say the response "
            "must carry the cookie of the pending challenge of that address, not that the cookie is unguessable",
            "addresses are identified by Network()+NUL+String() (rrc.pathKey); net.Addr values whose strings contain NUL "
            "are not modelled",
            "time is an explicit clock argument; the per-path AfterFunc callback is an explicit operation that may run at "
            "any time (theorems hold for every scheduling); synctest runs callbacks exactly at expiry, which is what the "
            "harness compares against",
            "which records raise the endpoint's remote epoch (ChangeCipherSpec, KeyUpdate) is not modelled: the remote "
            "epoch observed after each step is an input of Rrc/C15Newest.v (it only grows); the theorems hold for every "
            "such sequence",
            "the listener's table contains a connection ID only if cidConnIdentifier learnt it (explicit premise of "
            "C15_listener_routes_to_cid_owner); that it is NOT learnt from a fragmented ServerHello is known finding "
            "K-C15-1 (C15_listener_routes_negotiated_id_refuted)",
            "listener.getConn's lookup order (routed ID first, then source address) is Rrc/C15Router.v get_conn_id, tied "
            "to a real loopback listener with 2-3 live connections (DTLS 1.2 and 1.3) through who Reads each record; "
            "cidDatagramRouter's DTLS 1.2 branch is tied byte-level, the 1.3 branch only through that listener leg; the "
            "accept path for new addresses is not modelled",
            "end-to-end classification of records opens them with the receiver's own keys/functions in-package "
            "(CipherSuite.Decrypt, openCiphertextRecord), which are read-only",
        ])
