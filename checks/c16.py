"""C16 lifecycle: theorems Properties/C16.v about the lock-region model of conn.go close()/Close()/
read loop/HandshakeContext (every interleaving, any number of closers) + correspondence with real
client/server connections: Close / fatal alert / close_notify / deadline / ctx cancel placed at every
step index of a scripted handshake + data phase (1-4 concurrent closers, blocked Read/Write/Handshake
present), a concurrent stress leg, and the same under the race detector in the thorough tier.
Round 2: Close on a socket that does not take writes (closeblk), Close / expired deadline while a
Read or Write runs the implicit Handshake (iclose / idl), the state accessors at every log point of
the handshake (access), and the key-possession judge of the fatal-alert placements (DTLS 1.3).
Round g (wfault leg, zz_verif_c16_wfault_test.go): the transport refuses writes (ECONNREFUSED, once / n times /
persistently) exactly at the endpoint's own close_notify reply, its own close_notify in Close, the ACK of
the peer's KeyUpdate followed by the peer's Close; Read pending or issued afterwards (monitors_wf).
Monitors = the property's statements, evaluated on the implementation trace."""
import os
import re

import vlib
from vlib import cN, clist, cbool

IMPORTS = "From DtlsV Require Import Life.C16Close Life.C16Run."

CODE = {"": 0, "none": 0, "ok": 1, "eof": 2, "closed": 3, "deadline": 4, "alert": 5, "canceled": 6,
        "netclosed": 7, "other": 8, "stuck": 9}
CLOSE_CLASS = {"eof", "closed", "netclosed"}

# regression corpus: the placements that failed before the fixes of F-A (sendCloseNotify / sync.Once)
# and F-B (Conn.Write maps Canceled-while-closed to ErrConnClosed); they run first and must pass
CORPUS = ["v12/simul/client/6/1/0/0", "v13/close/client/9/2/1/0",
          "v13/simul/server/11/3/0/0", "dual13/close/server/12/2/1/0",
          # round 2: F66 (Close during the handshake -> closed class, explicit and implicit caller),
          # F81 (Close on a socket that does not take writes returns), F25 (DTLS 1.3 fatal alert in the
          # protected part of the handshake reaches the peer), F73 (ConnectionState at every log point)
          "v12/close/client/3/1/0/0", "v13/iclose/server/4/1/0/0", "v12/iclose/client/3/1/0/1",
          "v12/closeblk/client/8/1/0/0", "v13/closeblk/server/13/3/0/0",
          "v13/fatal/client/6/0/0/0", "dual13/fatal/server/6/0/0/0",
          "v12/access/client/1000/0/0/0", "v12/access/server/1000/0/0/0",
          # seeded change C16d: the DTLS 1.3 state machine fails on a received post-handshake message
          # (its ACK cannot be written) and must release the read loop
          "v13/phpeer/client/12/0/0/0", "v13/phfatal/server/13/0/0/1", "dual13/phclose/client/12/2/1/0",
          # 0805f5b: Close during the dual-stack version negotiation -> ErrConnClosed, not the transport's error
          "dualc/close/client/0/1/0/0", "duals/iclose/server/0/1/0/0", "dual13/iclose/client/1/1/0/1"]

SITE_CN2 = "conn.go close / processIncomingPacket (close_notify reply)"
SIG_CN2 = {"monitor": "close_notify twice",
           "scenario": "application Close racing the read loop's reply to a received close_notify"}
SITE_W13 = "conn.go Write / internal/handshake/fsm13.go waitPostHandshakeCompletion"
SIG_W13 = {"monitor": "blocked Write woken by Close with context.Canceled", "version": "1.3"}
# known finding K-C16-1 (not repaired): Read/Write call c.Handshake() = HandshakeContext(context.Background())
SITE_DLHS = "conn.go Read / Write (implicit Handshake)"
SIG_DLHS = {"monitor": "expired deadline does not interrupt a Read/Write blocked in the implicit Handshake"}
SITE_LIFE = "conn.go lifecycle (Close / read loop / HandshakeContext)"
# known (not repaired): ConnectionState()/SelectedSRTPProtectionProfile()/RemoteAddr() polled from another goroutine
# while HandshakeContext runs: the handshake goroutines write conn.state and its fields without conn.lock
SITE_ACCRACE = "conn.go ConnectionState / state accessors vs the handshake goroutines (conn.state written without conn.lock)"
SIG_ACCRACE = {"monitor": "data race: accessor during the handshake"}


def race_blocks(out):
    """race detector reports of a go test output: list of (involves the accessor poller, (top frame of the
    access, top frame of the previous access), report text without addresses / goroutine ids)"""
    res = []
    for b in re.findall(r"WARNING: DATA RACE\n(.*?)\n==================", out, re.S):
        secs = b.split("\n\n")
        tops = []
        for sec in secs[:2]:
            fr = [m.group(1).split("/")[-1] for m in re.finditer(r"^  (\S+)\(\)$", sec, re.M)]
            tops.append(fr[0] if fr else "?")
        while len(tops) < 2:
            tops.append("?")
        inv = any("c16AccessPoll" in sec for sec in secs[:2])
        clean = re.sub(r"0x[0-9a-f]+|goroutine \d+|Goroutine \d+|\+0x[0-9a-f]+|:\d+ ", "_", b)
        res.append((inv, tuple(tops), clean))
    return res


def corpus_reached(r):
    """the regression placement met the situation it is kept for"""
    ev = r["sc"]["event"]
    if r.get("panic") and not r.get("close2_x"):
        return False   # (a leak panic at the bubble's exit leaves the observation intact)
    if ev == "simul":
        return r["held_reply"]
    if ev == "close":
        return r["wr_pend_x"] or (r["hs_pend_x"] and not r["est_x"])
    if ev == "iclose":
        return r["hs_pend_x"]
    if ev == "closeblk":
        return r["sock_blk"]
    if ev == "fatal":
        return r["x_keys"] and r["ep_p"] >= 2 and not r["est_x"] and r["delivered"]
    if ev == "access":
        return r["acc_calls"] > 0
    if ev in ("phpeer", "phfatal", "phclose"):
        return bool(r.get("ph_reached"))
    return False


def emit(chk, kind, what, rep, o=None):
    """one monitor kind -> finding with its stable (site, signature)"""
    if kind == "cn-twice":
        chk.finding(SITE_CN2, SIG_CN2, "one endpoint put two close_notify records on the wire: " + what, rep)
    elif kind == "write13":
        chk.finding(SITE_W13, SIG_W13, what, rep)
    elif kind == "deadline-hs":
        chk.finding(SITE_DLHS, SIG_DLHS, what, rep)
    else:
        sig = {"monitor": kind}
        if o is not None and o.get("kind") == "c16":
            sig.update({"event": o["sc"]["event"], "variant": o["sc"]["variant"]})
        chk.finding(SITE_LIFE, sig, what, rep)


def code(s):
    if s.startswith("late:"):
        return 9
    return CODE.get(s, 8)


def is13(variant):
    return variant in ("v13", "dual13")


def sc_key(sc):
    return "%s/%s/%s/%d/%d/%d/%d" % (sc["variant"], sc["event"], sc["side"], sc["k"], sc["closers"],
                                     1 if sc.get("wblock") else 0, 1 if sc.get("early") else 0)


def replay_of(o, chk, race=False):
    return {"how": "harness/overlay/root/zz_verif_c16_test.go TestVerifC16E2E: handshake+data script, "
                   "event injected after k datagram deliveries on `side`",
            "scenario": o.get("sc"), "observation": {k: v for k, v in o.items() if k not in ("leak_info",)},
            "rerun": "cd /repo && VERIF_C16_ONLY=%s go1.26 test -tags verif -overlay <overlay> %s-run '^TestVerifC16E2E$' ."
                     % (sc_key(o["sc"]), "-race " if race else ""),
            "rerun_check": "VERIF_SEED=%d bin/check C16 --tier %s" % (chk.seed, chk.tier)}


# ----------------------------------------------------------------- monitors (the property itself)

def monitors_e2e(o):
    """returns list of (kind, description); kind in panic/deadlock/leak/close-returns/unblock/
    cn-twice/cn-missing/peer-eof/alert-close/deadline/after/write13/accessor-panic/deadline-hs"""
    out = []
    sc = o["sc"]
    ev = sc["event"]
    p = o.get("panic", "")
    if p:
        if "blocked goroutines remain" in p:
            out.append(("leak", "goroutines left behind at the end of the bubble: " + p[:200] +
                        ((" - " + re.sub(r"0x[0-9a-f]+\??|goroutine \d+|bubble \d+|\+0x[0-9a-f]+", "_",
                                         o["leak_info"])[:400]) if o.get("leak_info") else "")))
            if o.get("close2_x"):
                # the scenario itself ran to its end (the panic is the bubble's exit): judge it as well
                rest = monitors_e2e(dict(o, panic="", leak=0))
                return out + [m for m in rest if m[0] != "leak"]
        elif "deadlock" in p:
            out.append(("deadlock", "all goroutines blocked: " + p[:200]))
        else:
            out.append(("panic", "panic: " + p[:300]))
        return out
    if o["leak"] != 0:
        out.append(("leak", "%d goroutine(s) left after Close of both connections" % o["leak"]))
    # Close returns (nil)
    for c in (o.get("close_res") or []):
        if c == "stuck" and ev == "closeblk":
            out.append(("close-returns", "Close() had not returned 6 s after the call: the socket does not take "
                        "writes and the close_notify write is not bounded"))
        elif c != "ok":
            out.append(("close-returns", "a concurrent Close() returned class %s" % c))
    if ev == "closeblk" and o.get("sock_blk") and o.get("close_ms", 0) > 5500:
        out.append(("close-returns", "Close() on a socket that does not take writes took %d ms" % o["close_ms"]))
    # the state accessors never panic, whenever they are called
    for p in (o.get("acc_panics") or [])[:1]:
        out.append(("accessor-panic", "ConnectionState()/accessors called while the connection logs (between two "
                    "steps of a handshake goroutine) panicked: %s (%d such points in this run)"
                    % (p[:300], len(o["acc_panics"]))))
    if ev in ("close", "fatal", "simul", "nohs", "closeblk", "iclose", "phpeer", "phfatal", "phclose") and \
            o.get("close2_x") not in ("ok",):
        out.append(("close-returns", "repeated Close() returned class %s" % o.get("close2_x")))
    if ev in ("close", "fatal", "simul", "closeblk", "iclose") and o.get("close_p") not in ("ok",):
        out.append(("close-returns", "peer Close() returned class %s" % o.get("close_p")))
    closing = ev in ("close", "closeblk", "iclose", "phclose") or (ev == "simul" and o["delivered"]) or \
        (ev in ("fatal", "phpeer", "phfatal") and o["accepted"])
    # DTLS 1.3: X's state machine failed on the peer's post-handshake message (its ACK could not be written);
    # the read loop must go on: the peer's close_notify / fatal alert is read, Read returns EOF
    if ev in ("phpeer", "phfatal") and o.get("ph_reached") and o["delivered"] and not o["closed_x0"]:
        what = "close_notify" if ev == "phpeer" else "fatal alert"
        if not o["accepted"] or not o["closed_x"]:
            out.append(("peer-eof" if ev == "phpeer" else "alert-close",
                        "after X's state machine failed on the peer's post-handshake message the peer's %s was never "
                        "read: the connection stayed open (blocked Read: %s)" % (what, o.get("rd_x"))))
        elif o["rd_pend_x"] and o["rd_x"] != "eof":
            out.append(("peer-eof" if ev == "phpeer" else "alert-close",
                        "Read after the peer's %s returned class %s" % (what, o["rd_x"])))
    who = ("%s running the implicit Handshake" % o.get("implicit")) if ev in ("iclose", "idl") else \
        "pending HandshakeContext"
    # blocked calls unblocked with closed/EOF class errors
    if closing:
        if o["hs_pend_x"] and ev != "fatal":
            h = o["hs_x"]
            # a closed / EOF class ("handshake failed: conn is closed" since 83f5bff; ErrConnClosed also during
            # the dual-stack version negotiation since 0805f5b), not the internal cancellation nobody asked
            # for and not whatever error the closed transport happens to return
            # (outside the negotiation a Close that catches the state machine inside a socket write can still
            # surface that write's net.ErrClosed-class error: rare, schedule dependent, counted as closed class)
            good = {"closed", "eof", "ok"} if o.get("neg_x") else CLOSE_CLASS | {"ok"}
            if h.startswith("late:") or h == "stuck" or h not in good:
                out.append(("unblock", "%s%s was released by Close with class %s%s, not with a closed/EOF error"
                            % (who, " (in version negotiation)" if o.get("neg_x") else "", h,
                               " (%s)" % o["texts"].strip(";|")[:80] if o.get("texts") else "")))
        if o["hs_pend_x"] and ev == "fatal" and not o["est_x1"]:
            if o["hs_x"] not in {"alert"} | CLOSE_CLASS:
                out.append(("unblock", "pending HandshakeContext after fatal alert ended with class %s" % o["hs_x"]))
        if o["rd_pend_x"] and o["rd_x"] not in CLOSE_CLASS:
            out.append(("unblock", "blocked Read ended with class %s" % o["rd_x"]))
        if o["wr_pend_x"]:
            w = o["wr_x"]
            if w == "canceled" and is13(sc["variant"]):
                out.append(("write13", "blocked Write (DTLS 1.3) ended with context.Canceled instead of a closed-class error"))
            elif w not in CLOSE_CLASS:
                out.append(("unblock", "blocked Write ended with class %s" % w))
        if ev == "close" and sc.get("early") and o["hs_pend_x"]:
            for nm in ("er_x", "ew_x"):
                if o.get(nm) not in CLOSE_CLASS:
                    out.append(("unblock", "%s issued during the handshake ended with class %s" % (nm, o.get(nm))))
    # close_notify at most once per side
    if o["cn_x_all"] > 1 or o["cn_p_all"] > 1:
        out.append(("cn-twice", "close_notify records on the wire: X=%d P=%d" % (o["cn_x_all"], o["cn_p_all"])))
    # ... and exactly one when the application closes an established, still open session
    if ev in ("close", "simul") and o["est_x"] and not o["closed_x0"] and o["und_x"] == 0 and \
            (ev == "close" or o["delivered"]) and o["cn_x"] < 1:
        out.append(("cn-missing", "application Close of an established open session sent no close_notify"))
    if ev == "close" and not o["est_x"] and o["cn_x"] != 0 and not o["est_x1"]:
        out.append(("cn-missing", "close_notify from a connection that was never established"))
    # the peer's Read returns EOF
    if ev == "close" and o["est_x"] and o["est_p"] and o["rd_pend_p"] and o["rd_p"] != "eof":
        out.append(("peer-eof", "peer Read after Close returned class %s" % o["rd_p"]))
    if ev == "close" and o["est_x"] and o["est_p"] and not o["closed_p"]:
        out.append(("peer-eof", "peer connection not closed after receiving close_notify"))
    # a received fatal alert closes the connection in the same way
    if ev == "fatal" and o["est_x"] and o["est_p"] and not sc.get("wblock"):
        if not o["accepted"] or not o["closed_x"]:
            out.append(("alert-close", "authenticated fatal alert did not close the connection"))
        elif o["rd_pend_x"] and o["rd_x"] not in CLOSE_CLASS:
            out.append(("alert-close", "blocked Read after fatal alert ended with class %s" % o["rd_x"]))
    # ... also during the handshake: a DTLS 1.3 peer that sends a fatal alert under a protected epoch whose
    # read keys X holds (records of that epoch are accepted: epoch <= X's remote epoch) must reach X
    if ev == "fatal" and is13(sc["variant"]) and not sc.get("wblock") and o.get("x_keys") and o["delivered"] \
            and not o["closed_x0"] and not o["accepted"] and o["hs_x"] != "alert":
        out.append(("alert-close", "the peer's fatal alert, sent under epoch %d whose read keys this endpoint holds, "
                    "never arrived: the connection stayed open (handshake result %s, %d record(s) of the peer "
                    "could not be opened)" % (o.get("ep_p", -1), o["hs_x"], o.get("und_p", 0))))
    # a deadline interrupts a Read/Write blocked in the implicit Handshake (known finding K-C16-1)
    if ev == "idl" and o["hs_pend_x"] and not o["closed_x0"] and o.get("dl_hs_x") != "deadline":
        out.append(("deadline-hs", "%s blocked in the implicit Handshake() was not interrupted by its expired "
                    "deadline: 100 ms later the call is %s" % (o.get("implicit"), o.get("dl_hs_x"))))
    # deadlines interrupt blocked calls and leave the connection usable
    if ev == "deadline" and o["est_x"] and o["est_p"]:
        if o["rd_pend_x"] and o["rd_x"] != "deadline":
            out.append(("deadline", "blocked Read under an expired deadline ended with class %s" % o["rd_x"]))
        if o["wr_pend_x"] and o["wr_x"] != "deadline":
            out.append(("deadline", "blocked Write under an expired deadline ended with class %s" % o["wr_x"]))
        if not o["alive_after"]:
            out.append(("deadline", "connection unusable after the deadline was cleared"))
        if o["closed_x"]:
            out.append(("deadline", "deadline closed the connection"))
    # calls after Close
    if closing:
        if o["closed_x"] and o.get("wr_aft_x") != "closed":
            out.append(("after", "Write after Close returned class %s" % o.get("wr_aft_x")))
        if o["est_x"] and o.get("rd_aft_x") not in ("eof", "", None):
            out.append(("after", "Read after Close returned class %s" % o.get("rd_aft_x")))
    return out


def monitors_stress(o):
    out = []
    if o.get("setup"):
        return out   # reported as a broken harness by the driver, not as a lifecycle finding
    p = o.get("panic", "")
    if p:
        kind = "leak" if "blocked goroutines remain" in p else ("deadlock" if "deadlock" in p else "panic")
        return [(kind, p[:300])]
    if o["stuck"]:
        out.append(("unblock", "%d call(s) still blocked after Close at quiescence" % o["stuck"]))
    if o["leak"]:
        out.append(("leak", "%d goroutine(s) left after Close" % o["leak"]))
    for c in o.get("close_res") or []:
        if c != "ok":
            out.append(("close-returns", "Close() returned class %s" % c))
    for c in o.get("read_end") or []:
        # "gaveup": the harness reader spent its retries on an expired read deadline (never blocked)
        if c not in CLOSE_CLASS | {"gaveup"}:
            out.append(("unblock", "Read ended with class %s" % c))
    for c in o.get("write_end") or []:
        if c == "canceled" and is13(o["variant"]):
            out.append(("write13", "Write (DTLS 1.3) ended with context.Canceled"))
        elif c not in CLOSE_CLASS | {"finished"}:
            out.append(("unblock", "Write ended with class %s" % c))
    if o["cn_x"] > 1 or o["cn_p"] > 1:
        out.append(("cn-twice", "close_notify records on the wire: X=%d P=%d (both sides closing=%s)"
                    % (o["cn_x"], o["cn_p"], o["both"])))
    if o["cn_x"] < 1:
        out.append(("cn-missing", "application Close of an established session sent no close_notify"))
    return out


def wf_key(sc):
    return "%s/%s/%s/%d/%d/%d" % (sc["variant"], sc["fault"], sc["side"], sc["mode"], sc["data"],
                                  1 if sc.get("rd_pend") else 0)


def wf_replay(o, chk):
    return {"how": "harness/overlay/root/zz_verif_c16_wfault_test.go TestVerifC16WFault: established session, `data` "
                   "application datagrams, then the transport of `side` refuses the next `mode` writes (-1: all) with "
                   "ECONNREFUSED exactly when that endpoint sends its close_notify reply (fault=reply: the peer "
                   "application calls Close) / its own close_notify (fault=own: Close) / the ACK of the peer's "
                   "KeyUpdate, followed by the peer's Close (fault=ack); Read pending = rd_pend; then Read, Read, "
                   "Write, Handshake, Close, Read, Write are issued",
            "scenario": o.get("sc"), "observation": {k: v for k, v in o.items() if k != "leak_info"},
            "rerun": "cd /repo && VERIF_C16_ONLY=%s go1.26 test -tags verif -overlay <overlay> -run '^TestVerifC16WFault$' ."
                     % wf_key(o["sc"]),
            "rerun_check": "VERIF_SEED=%d bin/check C16 --tier %s" % (chk.seed, chk.tier)}


def monitors_wf(o):
    """write-fault leg: the property's predicate on one observation -> list of (kind, description)"""
    out = []
    sc = o["sc"]
    p = o.get("panic", "")
    if p:
        kind = "leak" if "blocked goroutines remain" in p else ("deadlock" if "deadlock" in p else "panic")
        out.append((kind, p[:300]))
        if not (kind == "leak" and o.get("close_x")):
            return out
    if not o.get("est"):
        return out
    if o.get("leak"):
        out.append(("leak", "%d goroutine(s) left after Close of both connections (write fault at %s)"
                    % (o["leak"], sc["fault"])))
    where = {"reply": "the close_notify reply to the peer's close_notify could not be written",
             "own": "the close_notify of Close could not be written",
             "ack": "the ACK of the peer's KeyUpdate could not be written, then the peer closed"}[sc["fault"]]
    where += " (transport: write udp: connection refused, %s)" % ("persistently" if sc["mode"] < 0 else
                                                                  "%d write(s)" % sc["mode"])
    if o.get("close_x") != "ok":
        out.append(("close-returns", "Close() returned class %s: %s" % (o.get("close_x"), where)))
    peer_closed = sc["fault"] in ("reply", "ack") and o["delivered"] and o["recv_cn"]
    if peer_closed or sc["fault"] == "own":
        what = "the peer's close_notify was received" if peer_closed else "Close was called"
        kind = "peer-eof" if peer_closed else "unblock"
        if o["rd_x"] not in CLOSE_CLASS | {"none"}:
            out.append((kind, "%s, %s: the pending Read returned class %s (%s), not io.EOF / a closed error"
                        % (what, where, o["rd_x"], (o.get("rd_text") or "")[:80])))
        if not o["closed_x"]:
            out.append((kind, "%s, %s: the connection was not closed (pending Read: %s, next Read: %s)"
                        % (what, where, o["rd_x"], o["rd_aft1"])))
        for nm in ("rd_aft1", "rd_aft2"):
            if o.get(nm) and o[nm] not in CLOSE_CLASS:
                out.append(("after", "%s, %s: a later Read %s" % (what, where, "blocks for ever" if o[nm] == "stuck"
                                                                   else "returned class " + o[nm])))
                break
        if o["wr_aft"] not in CLOSE_CLASS:
            out.append(("after", "%s, %s: a later Write returned class %s (%s)"
                        % (what, where, o["wr_aft"], (o.get("wr_text") or "")[:80])))
        if o.get("hs_aft") == "stuck":
            out.append(("after", "%s, %s: a later Handshake() blocks for ever" % (what, where)))
    for nm in ("rd_aft3", "wr_aft3"):
        if o.get(nm) not in CLOSE_CLASS:
            out.append(("after", "%s after X's own Close returned class %s (%s)" % (nm, o.get(nm), where)))
    if o.get("cn_x", 0) > 1:
        out.append(("cn-twice", "close_notify records on the wire: X=%d" % o["cn_x"]))
    return out


def wf_model_case(o):
    """write-fault observation -> scenario language of Life/C16Run.v (events 12 / 7 / 14 / 8)"""
    sc = o["sc"]
    if o.get("panic") or not o.get("est") or not o.get("failed"):
        return None
    own = sc["fault"] == "own"
    if not own and not (o["delivered"] and o["recv_cn"]):
        return None
    evn = {"reply": 12, "own": 7, "ack": 14 if (sc["mode"] < 0 or o["failed"] >= 2) else 8}[sc["fault"]]   # 14: the reply was refused as well
    term = "((%s, %s, false, false, true, %s), (%s, false), (%s, 1, %s, 0), (%s, %s), (%s, %s, %s))" % (
        cN(evn), cbool(o["v13"]), cN(1 if own else 0), cbool(sc["rd_pend"]),
        clist([cN(code(o["close_x"]))] if own else []), cN(code(o["rd_x"]) if sc["rd_pend"] else 0),
        cN(o["cn_x"]), cbool(o["closed_x"]),
        cN(code(o.get("close2_x") or "")), cN(code(o.get("wr_aft") or "")), cN(code(o.get("rd_aft1") or "")))
    return term, (evn, o["v13"], sc["rd_pend"], sc["mode"])


# ----------------------------------------------------------------- model cases

def model_case(o):
    """normalise an observation to the scenario language of Life/C16Run.v; None = outside the model"""
    sc = o["sc"]
    ev = sc["event"]
    if o.get("panic") or o["closed_x0"] or ev in ("none", "access"):
        return None
    v13 = is13(sc["variant"])
    neg = o["neg_x"]
    hs_pend, est = o["hs_pend_x"], o["est_x"]
    if not hs_pend and not est and ev != "nohs":
        return None
    closers = sc["closers"]
    rd_pend, wr_pend = o["rd_pend_x"], o["wr_pend_x"]
    close_res = [code(c) for c in (o.get("close_res") or [])]
    hs_c = code(o["hs_x"])
    if ev in ("phpeer", "phfatal", "phclose") and not o.get("ph_reached"):
        return None
    evn = {"close": 0, "fatal": 1, "deadline": 2, "hsctx": 3, "simul": 4, "nohs": 5,
           "closeblk": 7 if o.get("sock_blk") else 0, "iclose": 0, "idl": 2,
           "phpeer": 8, "phfatal": 9, "phclose": 11 if sc.get("wblock") else 10}[ev]
    if ev == "simul":
        if not (o["held_reply"] and est):
            return None
        rd_pend = wr_pend = False
    if ev == "fatal":
        consumed_in_negotiation = neg and o["hs_x"] == "alert" and not o["accepted"]
        accepted = o["accepted"]
        if not accepted and o["closed_x"] and sc.get("wblock"):
            # the read loop was itself waiting behind the blocked socket write; the alert was
            # accepted once the harness unblocked the socket (after wr_x had been sampled)
            accepted, wr_pend = True, False
        if accepted and neg:
            neg = False   # in-flight datagrams finished the version negotiation before the alert was read
        if not accepted and not consumed_in_negotiation:
            # the alert was dropped or queued: the harness's later Close() is the first close
            evn = 6
            est = o["est_x1"]
            hs_pend = o["hs_x"].startswith("late:") or o["hs_x"] == "stuck"
            if o["hs_x"].startswith("late:"):
                hs_c = code(o["hs_x"][5:])
            rd_pend = wr_pend = False
        elif accepted and hs_pend and o["hs_x"] == "ok":
            # the handshake completed before the alert was processed
            est, hs_pend = True, False
    if ev == "nohs":
        # the Handshake call comes after the Close (ev 5); a dual-stack endpoint starts with the negotiation
        hs_pend, est = False, False
        neg = (sc["variant"], sc["side"]) in (("dualc", "client"), ("duals", "server"), ("dual13", "client"))
    if ev == "hsctx":
        rd_pend = wr_pend = False   # a cancelled Handshake context does not concern Read/Write
    if ev == "idl":
        rd_pend = wr_pend = False   # the only call of X is the handshake caller
    if ev in ("deadline", "hsctx", "idl") and hs_pend and o["hs_x"].startswith("late:"):
        hs_c = 9
    closed_x = o["closed_x"]
    term = "((%s, %s, %s, %s, %s, %s), (%s, %s), (%s, %s, %s, %s), (%s, %s), (%s, %s, %s))" % (
        cN(evn), cbool(v13), cbool(neg), cbool(hs_pend), cbool(est), cN(closers),
        cbool(rd_pend), cbool(wr_pend),
        clist([cN(c) for c in close_res]), cN(hs_c), cN(code(o.get("rd_x") or "")), cN(code(o.get("wr_x") or "")),
        cN(o["cn_x"]), cbool(closed_x),
        cN(code(o.get("close2_x") or "")), cN(code(o.get("wr_aft_x") or "")), cN(code(o.get("rd_aft_x") or "")))
    nontrivial = ev in ("close", "simul", "nohs", "closeblk", "iclose", "phpeer", "phfatal", "phclose") or (ev == "fatal" and o["accepted"]) or \
        (ev == "deadline" and (rd_pend or wr_pend)) or (ev in ("hsctx", "idl") and hs_pend)
    key = (evn, v13, neg, hs_pend, est, closers, rd_pend, wr_pend, sc.get("early", False),
           ev if ev in ("iclose", "idl", "closeblk") else "")
    return term, nontrivial, key


def peer_case(o):
    sc = o["sc"]
    if sc["event"] != "close" or o.get("panic") or not (o["est_x"] and o["est_p"]) or o["closed_x0"]:
        return None
    if o["und_p"]:
        return None
    return "(%s, %s, %s, %s, %s, %s)" % (
        cbool(o["rd_pend_p"]), cN(code(o.get("rd_p") or "")), cN(o["cn_p"]), cbool(o["closed_p"]),
        cN(code(o.get("wr_aft_p") or "")), cN(code(o.get("close_p") or "")))


# ----------------------------------------------------------------- driver

def last_begin(rows):
    pend = None
    for r in rows:
        if r.get("kind") == "begin":
            pend = r
        elif r.get("kind") in ("c16", "stress"):
            pend = None
    return pend


def replay(chk, path):
    """bin/check C16 --replay <file>: rerun the single scenario of a stored finding"""
    import json
    with open(path) as f:
        body = json.load(f)
    sc = (body.get("replay") or {}).get("scenario")
    if not sc:
        chk.broken("replay file has no scenario (stress / race findings are rerun with bin/check C16)", path)
        chk.finish(level="proof", rule="replay")
    outp = vlib.out_path("c16replay")
    race = "-race" in ((body.get("replay") or {}).get("rerun") or "")
    rc, o = vlib.go_test(".", "^TestVerifC16E2E$", {"VERIF_OUT": outp, "VERIF_C16_ONLY": sc_key(sc),
                                                     "VERIF_SEED": chk.seed, "VERIF_TIER": chk.tier},
                         timeout=300, race=race, tags=["c16"])
    rows = [r for r in vlib.read_jsonl(outp) if r.get("kind") == "c16"]
    vlib.cleanup(outp)
    if rc != 0 or not rows:
        chk.broken("replay run failed", o)
    for r in rows:
        for kind, what in monitors_e2e(r):
            emit(chk, kind, what, replay_of(r, chk, race), r)
        chk.count("replay", 1, [sc_key(r["sc"])])
    chk.finish(level="proof", rule="replay of one scenario")


def run(chk):
    proved = chk.prove(extra_targets=["theories/Life/C16Run.vo"])
    thorough = chk.tier == "thorough"
    env = {"VERIF_SEED": chk.seed, "VERIF_TIER": chk.tier}
    legs = []   # (name, test, env, race, timeout)
    legs.append(("corpus", "^TestVerifC16E2E$", {"VERIF_C16_ONLY": ";".join(CORPUS)}, False, 300))
    legs.append(("e2e", "^TestVerifC16E2E$", {"VERIF_C16_REPS": 20 if thorough else 1}, False,
                 1800 if thorough else 300))
    legs.append(("stress", "^TestVerifC16Stress$", {"VERIF_C16_ITERS": 3000 if thorough else 60}, False,
                 1800 if thorough else 240))
    # transport write faults at the lifecycle's own emissions (close_notify reply / own close_notify / ACK)
    legs.append(("wfault", "^TestVerifC16WFault$", {}, False, 1800 if thorough else 240))
    if thorough:
        legs.append(("e2e-race", "^TestVerifC16E2E$", {"VERIF_C16_REPS": 10}, True, 3000))
        legs.append(("stress-race", "^TestVerifC16Stress$", {"VERIF_C16_ITERS": 2000}, True, 3000))
        # the state accessors polled from another goroutine during real-time handshakes (all variants)
        legs.append(("access-race", "^TestVerifC16AccessRace$", {"VERIF_C16_ROUNDS": 5}, True, 1800))

    if os.environ.get("VERIF_C16_LEGS"):   # debugging aid: run only the named legs
        want = set(os.environ["VERIF_C16_LEGS"].split(","))
        legs = [l for l in legs if l[0] in want]

    found_input = False
    reported = set()

    def report(kind, what, o, race):
        """one finding per monitor kind (the first failing case is the replay)"""
        nonlocal found_input
        found_input = True
        if kind in reported:
            return
        reported.add(kind)
        rep = replay_of(o, chk, race) if o.get("kind") == "c16" else \
            {"how": "TestVerifC16Stress iteration (concurrent Read/Write/Close/deadline setters/accessors on "
                    "both endpoints, eager network)", "observation": {k: v for k, v in o.items() if k != "leak_info"},
             "rerun_check": "VERIF_SEED=%d bin/check C16 --tier %s" % (chk.seed, chk.tier)}
        if o.get("leak_info") and kind not in ("cn-twice", "write13", "deadline-hs"):
            rep["goroutines"] = o["leak_info"][:3000]
        emit(chk, kind, what, rep, o)

    all_e2e = []
    for name, test, e2, race, tmo in legs:
        outp = vlib.out_path("c16" + name.replace("-", ""))
        rc, o = vlib.go_test(".", test, dict(env, VERIF_OUT=outp, **e2), timeout=tmo, race=race, tags=["c16"])
        rows = vlib.read_jsonl(outp)
        vlib.cleanup(outp)
        obs = [r for r in rows if r.get("kind") in ("c16", "stress")]
        wf = [r for r in rows if r.get("kind") == "c16wf"]
        for r in wf:
            for kind, what in monitors_wf(r):
                found_input = True
                if ("wf", kind) in reported:
                    continue
                reported.add(("wf", kind))
                rep = wf_replay(r, chk)
                if r.get("leak_info"):
                    rep["goroutines"] = r["leak_info"][:3000]
                chk.finding(SITE_LIFE, {"monitor": kind, "event": "wfault/" + r["sc"]["fault"],
                                        "variant": r["sc"]["variant"]}, what, rep)
        if name == "wfault":
            reach = [r for r in wf if r.get("est") and not r.get("panic") and r.get("failed", 0) > 0 and
                     (r["sc"]["fault"] == "own" or r.get("recv_cn"))]
            if rc == 0 and (not wf or len(reach) < len(wf) * 9 // 10):
                chk.broken("wfault leg: only %d of %d scenarios reached their placement (a refused write at the "
                           "emission)" % (len(reach), len(wf)), o)
            chk.count(name, len(wf), [wf_key(r["sc"]) for r in reach],
                      samples=[{k: v for k, v in r.items() if k != "leak_info"} for r in reach[-2:]])
            chk.cov["traces_validated_against_impl"] += len(wf)
            byf = {}
            for r in reach:
                byf[r["sc"]["fault"]] = byf.get(r["sc"]["fault"], 0) + 1
            chk.leg_info(name, faults=byf, refused_writes=sum(r.get("failed", 0) for r in wf),
                         variants=sorted({r["sc"]["variant"] for r in wf}),
                         pending_read=sum(1 for r in reach if r["sc"].get("rd_pend")))
            # correspondence with the model (Life/C16Run.e2e_ok, events 12 / 7 / 14 / 8)
            mc = [(r, wf_model_case(r)) for r in wf]
            mc = [(r, m) for r, m in mc if m]
            bad, err = vlib.coq_mismatches("c16wfault", IMPORTS, "e2e_case", "e2e_ok", [m[0] for _, m in mc])
            if bad is None:
                chk.broken("correspondence evaluation (wfault) failed in coqc", err)
            else:
                for b in bad[:1]:
                    r = mc[b][0]
                    ms = monitors_wf(r)
                    chk.finding(SITE_LIFE, {"monitor": "model-mismatch", "event": "wfault/" + r["sc"]["fault"],
                                            "variant": r["sc"]["variant"]},
                                "result classes / close_notify count differ from the Life/C16Close.v model"
                                + (": " + ms[0][1] if ms else ""),
                                dict(wf_replay(r, chk), model_case=mc[b][1][0], correspondence="Life.C16Run.e2e_ok"),
                                no_input=(not ms and not found_input))
                chk.count(name + "-model", len(mc), [m[1] for _, m in mc])
                chk.leg_info(name + "-model", outside_model=len(wf) - len(mc), mismatches=len(bad))
        if name == "access-race":
            runs = [r for r in rows if r.get("kind") == "accrace"]
            blocks = race_blocks(o)
            acc = [b for b in blocks if b[0]]
            other = [b for b in blocks if not b[0]]
            bad_hs = [r for r in runs if r.get("hs_c") != "ok" or r.get("hs_s") != "ok"]
            if acc:
                found_input = True
                pairs = sorted({"%s / %s" % b[1] for b in acc})
                chk.finding(SITE_ACCRACE, SIG_ACCRACE,
                            "the race detector reports data races between a goroutine polling ConnectionState() / "
                            "SelectedSRTPProtectionProfile() / RemoteAddr() and the goroutines of a running "
                            "HandshakeContext (the accessors take conn.lock.RLock, the handshake writes conn.state "
                            "and its fields without that lock)",
                            {"test": test, "race": True, "reports": len(acc), "distinct_access_pairs": pairs[:60],
                             "sample_report": acc[0][2][:3500],
                             "rerun": "cd /repo && VERIF_C16_ROUNDS=5 go1.26 test -race -tags verif -overlay <overlay> "
                                      "-run '^TestVerifC16AccessRace$' .",
                             "rerun_check": "VERIF_SEED=%d bin/check C16 --tier thorough" % chk.seed})
            if other:
                found_input = True
                chk.finding(SITE_LIFE, {"monitor": "data race", "leg": name},
                            "race detector report that does not involve the polling goroutine, during " + test,
                            {"test": test, "race": True, "reports": len(other),
                             "pairs": sorted({"%s / %s" % b[1] for b in other})[:40], "report": other[0][2][:3500]})
            if not runs or bad_hs or (rc != 0 and not blocks):
                chk.broken("access-race leg: %d runs, %d handshakes failed, rc=%d without a race report"
                           % (len(runs), len(bad_hs), rc), o)
            chk.count(name, len(runs), [(r["variant"], r["round"]) for r in runs], samples=runs[-1:])
            chk.leg_info(name, race=True, polls=sum(r.get("polls", 0) for r in runs), race_reports=len(blocks),
                         accessor_reports=len(acc))
            continue
        if "DATA RACE" in o:
            found_input = True
            i = o.index("DATA RACE")
            chk.finding("conn.go lifecycle (Close / read loop / HandshakeContext)",
                        {"monitor": "data race", "leg": name},
                        "race detector report during " + test,
                        {"test": test, "race": True, "pending": last_begin(rows), "report": o[max(0, i - 200):i + 3500]})
        elif rc != 0:
            kind = vlib.classify_go_failure(o)
            pend = last_begin(rows)
            if rc == 124 or "test timed out" in o:
                # a hang that synctest cannot see (goroutines blocked on mutexes): deadlock monitor
                found_input = True
                chk.finding("conn.go lifecycle (Close / read loop / HandshakeContext)",
                            {"monitor": "hang", "leg": name},
                            "the run did not finish: a call never returned (scenario in replay)",
                            {"test": test, "pending": pend, "output": o[-3500:]})
            elif kind == "panic":
                found_input = True
                chk.finding("conn.go lifecycle (Close / read loop / HandshakeContext)",
                            {"monitor": "panic", "leg": name}, "panic in " + test,
                            {"test": test, "pending": pend, "output": o[-3500:]})
            else:
                chk.broken("correspondence harness %s no longer runs against /repo (%s)" % (test, kind), o)
        # implementation-side monitors
        for r in obs:
            ms = monitors_e2e(r) if r["kind"] == "c16" else monitors_stress(r)
            for kind, what in ms:
                report(kind, what, r, race)
        e2e = [r for r in obs if r["kind"] == "c16"]
        st = [r for r in obs if r["kind"] == "stress"]
        if name == "corpus":
            reached = [r for r in e2e if corpus_reached(r)]
            if len(e2e) != len(CORPUS) or len(reached) != len(CORPUS):
                chk.broken("regression corpus: %d of %d scenarios ran, %d reached their placement"
                           % (len(e2e), len(CORPUS), len(reached)), o)
        if e2e:
            all_e2e.append((name, e2e))
            nt = [r for r in e2e if r["sc"]["event"] != "none" and not r.get("panic")]
            # distinct by (variant, event, side, k, closers, wblock, early)
            chk.count(name, len(e2e), [sc_key(r["sc"]) for r in nt],
                      samples=[{k: v for k, v in r.items() if k not in ("alerts", "leak_info")} for r in nt[-2:]])
            chk.cov["traces_validated_against_impl"] += len(e2e)
            byev = {}
            for r in e2e:
                byev[r["sc"]["event"]] = byev.get(r["sc"]["event"], 0) + 1
            r2 = {"closeblk_socket_blocked": sum(1 for r in e2e if r.get("sock_blk")),
                  "implicit_close_pending": sum(1 for r in e2e if r["sc"]["event"] == "iclose" and r.get("hs_pend_x")),
                  "implicit_deadline_pending": sum(1 for r in e2e if r["sc"]["event"] == "idl" and r.get("hs_pend_x")),
                  "accessor_calls": sum(r.get("acc_calls", 0) for r in e2e),
                  "post_handshake_failure_reached": sum(1 for r in e2e if r.get("ph_fsm_ended")),
                  "alerts_judged_by_key_possession": sum(1 for r in e2e if r["sc"]["event"] == "fatal" and
                                                         r.get("x_keys") and not r["sc"].get("wblock") and
                                                         not r.get("est_x") and r.get("ep_p", 0) >= 2)}
            chk.leg_info(name, events=byev, race=race, variants=sorted({r["sc"]["variant"] for r in e2e}),
                         max_closers=max([r["sc"]["closers"] for r in e2e] or [0]),
                         undecryptable_runs=sum(1 for r in e2e if r.get("und")), round2=r2)
            if name != "corpus" and rc == 0 and not all(r2.values()):
                chk.broken("e2e leg: a round-2 placement no longer reaches its situation (%s)"
                           % ", ".join(k for k, v in r2.items() if not v), o)
        if st and any(r.get("setup") for r in st):
            bad_setup = [r for r in st if r.get("setup")]
            chk.broken("stress leg: the plain handshake failed in %d of %d iterations (%s)"
                       % (len(bad_setup), len(st), bad_setup[0]["setup"][:200]), o)
        if st:
            # non-trivial = at least one call was cut short by the Close (not merely finished)
            nts = [r for r in st if not r.get("panic") and not r.get("setup") and
                   any(c != "finished" for c in (r.get("write_end") or [])) and (r.get("read_end") or [])]
            chk.count(name, len(st), [(r["variant"], r["iter"]) for r in nts],
                      samples=[{k: v for k, v in r.items() if k != "leak_info"} for r in nts[-1:]])
            chk.leg_info(name, race=race, writes=sum(r.get("writes", 0) for r in st),
                         reads=sum(r.get("reads", 0) for r in st), workers=sum(r.get("workers", 0) for r in st),
                         both_sides_closing=sum(1 for r in st if r.get("both")))

    # correspondence with the model, evaluated inside Coq
    ok_model, mo = vlib.coq_make(["theories/Life/C16Run.vo"])
    if not ok_model:
        chk.broken("model Life/C16Run.v no longer compiles", mo)
    else:
        for name, e2e in all_e2e:
            cases, idx, unmodelled = [], [], 0
            for i, r in enumerate(e2e):
                m = model_case(r)
                if m is None:
                    unmodelled += 1
                    continue
                cases.append(m)
                idx.append(i)
            bad, err = vlib.coq_mismatches("c16" + name.replace("-", ""), IMPORTS, "e2e_case", "e2e_ok",
                                           [c[0] for c in cases])
            if bad is None:
                chk.broken("correspondence evaluation (%s) failed in coqc" % name, err)
            else:
                for b in bad[:1]:
                    r = e2e[idx[b]]
                    ms = monitors_e2e(r)
                    chk.finding("conn.go lifecycle (Close / read loop / HandshakeContext)",
                                {"monitor": "model-mismatch", "event": r["sc"]["event"], "variant": r["sc"]["variant"]},
                                "result classes / close_notify count differ from the Life/C16Close.v model"
                                + (": " + ms[0][1] if ms else ""),
                                dict(replay_of(r, chk), model_case=cases[b][0], correspondence="Life.C16Run.e2e_ok"),
                                no_input=(not ms and not found_input))
                chk.count(name + "-model", len(cases), [c[2] for c in cases if c[1]])
                chk.leg_info(name + "-model", outside_model=unmodelled, mismatches=len(bad))
            pc = [(i, peer_case(r)) for i, r in enumerate(e2e)]
            pc = [(i, t) for i, t in pc if t]
            bad, err = vlib.coq_mismatches("c16p" + name.replace("-", ""), IMPORTS, "peer_case", "peer_ok",
                                           [t for _, t in pc])
            if bad is None:
                chk.broken("correspondence evaluation (%s, peer) failed in coqc" % name, err)
            else:
                for b in bad[:1]:
                    r = e2e[pc[b][0]]
                    ms = monitors_e2e(r)
                    chk.finding("conn.go lifecycle (Close / read loop / HandshakeContext)",
                                {"monitor": "model-mismatch-peer", "variant": r["sc"]["variant"]},
                                "peer side of a Close differs from the model (reply once, Read=EOF, closed)",
                                dict(replay_of(r, chk), model_case=pc[b][1], correspondence="Life.C16Run.peer_ok"),
                                no_input=(not ms and not found_input))
                chk.count(name + "-peer-model", len(pc), [t for _, t in pc])

    if not proved:
        where, out = getattr(chk, "proof_error", ("?", ""))
        if not found_input:
            chk.broken("proof obligation Properties/C16.v no longer checks (%s)" % where, out)
    chk.finish(
        level="proof",
        rule="corpus: the former failing placements of the fixed findings (two close_notify records; DTLS 1.3 "
             "Write woken with context.Canceled; round 2: Close during the handshake released the caller with "
             "context.Canceled, Close blocked for ever behind a blocked close_notify write, a DTLS 1.3 fatal alert of the "
             "protected handshake part never arrived, ConnectionState panicked during the epoch switch) run first, "
             "must reach their situation and must pass. e2e: one run per (variant in v12/v12psk/v13/dual-stack client->1.2/1.2->dual-stack server/dual-stack->1.3, "
             "side, step index k = datagram deliveries of the scripted handshake+data phase, event): Close with 1-4 "
             "concurrent callers (also with a Write blocked in the socket, and with Read+Write issued during the "
             "handshake), fatal alert from the peer, SetDeadline in the past with blocked Read/Write, cancelled "
             "Handshake context, Close placed between the read loop's close_notify reply and its close(false), Close "
             "before Handshake; round 2: Close (1 and 3 callers) of an established connection whose socket does not "
             "take writes (must return within 5.5 s of virtual time, model: no record), Close / SetDeadline in the past "
             "while a Read or a Write of X runs the implicit Handshake at every handshake step (the latter is known "
             "finding K-C16-1), the state accessors called at every log point of X during the whole script, and for "
             "the fatal placements of DTLS 1.3 the judge 'X holds the read keys of the epoch the alert was sent under "
             "=> the alert closes X'; DTLS 1.3 (phpeer/phfatal/phclose): the peer's KeyUpdate (and, right after the "
             "handshake, the NewSessionTicket in flight) reaches X while X's socket refuses writes (or does not take "
             "them), X's state machine fails on the ACK; then the peer closes / sends a fatal alert / X closes (also "
             "while the state machine is still inside the blocked write): the alert must be read, Read = EOF, Close "
             "returns, no goroutine left. Observables: result class of every call, decrypted close_notify/fatal records per side, "
             "goroutines after teardown, synctest deadlock/leak panics. wfault: established session of every variant, both sides, "
             "0-2 (thorough 0-7) application datagrams, then the transport of X refuses the next 1 / all (thorough 1, 2, 3, all) "
             "writes with ECONNREFUSED exactly at X's close_notify reply to the peer's Close, at X's own close_notify in Close, "
             "at the ACK of the peer's KeyUpdate followed by the peer's Close (DTLS 1.3); with and without a pending Read; then "
             "Read, Read, Write, Handshake, Close, Read, Write: after the peer's close_notify was received every pending and "
             "later Read must return EOF/closed (never a bare transport error followed by a Read that blocks), Write a closed "
             "error, Close nil, no goroutine left; the observations are also compared with the model (events 12/7/14/8). "
             "stress: concurrent Read/Write/Close/deadline "
             "setters/accessors on both endpoints. Non-trivial = an event is injected; distinct by scenario tuple "
             "(model legs: by model scenario class). thorough adds -race runs (e2e x10, stress 2000 iterations).",
        assumptions=[
            "the theorems are about the lock-region model Life/C16Close.v (atomic steps = closeLock region, each cancel "
            "call, established read, close_notify write, nextConn.Close, handshakeDone read); the model is tied to "
            "the code by the correspondence legs only",
            "data-race freedom, goroutine-leak freedom and deadlock freedom of the real scheduler are NOT proved: "
            "race detector, goroutine accounting and synctest deadlock detection over the explored schedules only",
            "model environment assumptions: the handshake FSM goroutine leaves when its context is cancelled; "
            "application-data and flight writes do not block for ever (the close_notify writes may: Env EWrBlock); "
            "one HandshakeContext attempt per connection",
            "known gap K-C16-1 (C16_deadline_wakes_handshake_refuted): deadlines do not interrupt a Read/Write "
            "blocked in the implicit Handshake()",
        ])
