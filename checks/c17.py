"""C17 retransmission discipline: theorems Properties/C17.v (timer law with 60 s cap, reset rule,
HelloVerifyRequest never on a timer, resend rule after completion, emission bounds) + replay of
timed scripted-network traces through the model + discipline monitors."""
import vlib
import c02lib


def run(chk):
    proved = chk.prove(extra_targets=["theories/Hs/Abs12Run.vo"])
    cases = []
    found = False
    for test, tags in (("^TestVerifC17$", ["c02", "c17"]), ("^TestVerifC02$", ["c02"])):
        out = vlib.out_path("c17")
        env = {"VERIF_SEED": chk.seed + 17, "VERIF_TIER": chk.tier, "VERIF_OUT": out}
        rc, o = vlib.go_test(".", test, env, tags=tags, timeout=3000)
        cs = vlib.read_jsonl(out)
        vlib.cleanup(out)
        if rc != 0:
            kind = vlib.classify_go_failure(o)
            if kind == "panic":
                found = True
                chk.finding("handshake", {"monitor": "panic"}, "panic during scripted handshakes", {"output": o[-4000:]})
            else:
                chk.broken("correspondence harness %s no longer runs against /repo (%s)" % (test, kind), o)
        cases += cs
    reported = set()
    for c in cases:
        m = c02lib.monitor_discipline(c)
        if m:
            found = True
            key = m.split(" at ")[0].split(" gaps")[0]
            sig = {"monitor": key, "variant": c["variant"]}
            site = "internal/handshake fsm.go handleRetransmitTimeout / fsm12.go wait,finish"
            if m.startswith(c02lib.REPEATED):
                # one defect whatever the variant: the fragment buffer flags a retransmission by message number only
                key, sig = c02lib.REPEATED, {"monitor": c02lib.REPEATED, "version": 12}
                site = "internal/fragmentbuffer pushHandshakeFragments (isRetransmit only for message_seq < current) / internal/handshake fsm12.go wait (interval reset)"
            elif m.startswith(c02lib.RESENT):
                key, sig = c02lib.RESENT, {"monitor": c02lib.RESENT, "version": 12}
            if key in reported:
                continue
            reported.add(key)
            chk.finding(site, sig,
                        "%s [variant %s interval %d ms backoff %s]" % (m, c["variant"], c["interval_ms"], not c["no_backoff"]),
                        {"case": c02lib.slim(c)})
    if proved:
        bad = c02lib.accept(chk, "c17", cases, shard=24)
        for i in (bad or [])[:1]:
            m = c02lib.monitor_discipline(cases[i]) or c02lib.monitor_liveness(cases[i])
            chk.finding("internal/handshake fsm.go handleRetransmitTimeout / fsm12.go wait,finish",
                        {"monitor": "model-mismatch", "variant": cases[i]["variant"]},
                        "timed trace not accepted by the Hs/Abs12 model [variant %s interval %d ms backoff %s]%s" % (
                            cases[i]["variant"], cases[i]["interval_ms"], not cases[i]["no_backoff"], (": " + m) if m else ""),
                        {"case": c02lib.slim(cases[i]), "correspondence": "Hs.Abs12Run.c02_ok"},
                        no_input=(m is None and not found))
    timed = [c for c in cases if c["kind"] == "c17"]
    n_timer = sum(len(c02lib.timer_groups(c, s)) for c in cases for s in ("client", "server"))
    chk.count("timed", len(cases), [(c["variant"], c["interval_ms"], c["no_backoff"], c.get("silence_until"), c.get("silence_to"),
                                     tuple(c["mask"] or [])) for c in cases
                                    if len(c02lib.timer_groups(c, "client")) + len(c02lib.timer_groups(c, "server")) > 1],
              samples=[{"variant": c["variant"], "interval_ms": c["interval_ms"], "backoff": not c["no_backoff"],
                        "silence_ms": c.get("silence_until"), "client_timer_times": [t for t, _ in c02lib.timer_groups(c, "client")][:12]}
                       for c in timed[:3]])
    chk.cov["traces_validated_against_impl"] = len(cases)
    chk.leg_info("timed", timer_expiries_observed=n_timer,
                 intervals_ms=sorted({c["interval_ms"] for c in cases}),
                 reached_cap=sum(1 for c in cases for s in ("client", "server")
                                 if any(b - a == 60000 for (a, _), (b, _) in zip(c02lib.timer_groups(c, s), c02lib.timer_groups(c, s)[1:]))))
    if not proved and not found:
        where, pout = getattr(chk, "proof_error", ("?", ""))
        chk.broken("proof obligation Properties/C17.v no longer checks (%s)" % where, pout)
    # DTLS 1.3 handshake machinery: model Hs/Hs13.v, theorems Properties/C17hs13.v, trace replay
    import hs13lib
    hs13lib.run_c17(chk, regenerate=False)
    # DTLS 1.3 post-handshake flights (NewSessionTicket, KeyUpdate): model Hs/Hs13Post.v, theorems
    # Properties/C17post.v, sequences of flights on one connection under virtual time
    import c17post
    c17post.run_post(chk)
    chk.finish(
        level="proof",
        rule="timed runs: initial interval 10 ms / 1 s / 40 s, backoff on/off, every datagram towards one side or both "
             "dropped for up to 300 s (reaches the 60 s cap), then reliable; plus the C02 fault masks; every trace replayed "
             "through the Coq model with its virtual timestamps. Non-trivial = trace with at least two timer expiries.",
        assumptions=["virtual time (testing/synctest): timers fire exactly at their deadline",
                     "DTLS 1.3 retransmission (reliable_flight.go / fsm13.go) is not in this model"])
