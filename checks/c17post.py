"""C17, leg "post": the timer law of DTLS 1.3 POST-handshake flights (NewSessionTicket, KeyUpdate).
Theorems Properties/C17post.v (model Hs/Hs13Post.v) + harness TestVerifC17Post (sequences of 2..4
reliable post-handshake flights on one real connection under virtual time: earlier flights lose
transmissions or ACKs 0..4 times before they are acknowledged, the last one is sent into silence) +
the property's own monitor on every flight + comparison with the model (Hs13PostRun.post_ok).
Does not call chk.prove / chk.finish."""
import re
import vlib

SITE = "internal/handshake post_handshake.go startKeyUpdate/startNewSessionTicket, retransmitPostHandshakeFlight, completePostHandshakeFlight"
FIRST = "post-handshake flight is not first retransmitted one initial interval after its first transmission"
SCHED = "post-handshake flight retransmitted off the doubling schedule"
AFTER_ACK = "post-handshake flight retransmitted after it was acknowledged"
NO_RETX = "unacknowledged post-handshake flight not retransmitted when its interval expired"
NOT_DONE = "post-handshake flight not completed within the time its schedule allows (finite loss)"
CAP = 60 * 1000 * 1000


def bump(iv, no_backoff):
    if no_backoff or iv >= CAP:
        return iv
    return CAP if iv > CAP // 2 else 2 * iv


def flights_of(c):
    """[(side, msg, kind, [t_us...])] in order of first transmission"""
    order, by = [], {}
    for x in c["tx"]:
        k = (x["side"], x["msg"])
        if k not in by:
            by[k] = {"kind": x["kind"], "ts": []}
            order.append(k)
        by[k]["ts"].append(x["t_us"])
    return [(k[0], k[1], by[k]["kind"], by[k]["ts"]) for k in order]


def timeouts_before(c, side, t0):
    """number of timer-driven retransmissions of earlier post-handshake flights of this side"""
    return sum(max(0, len(ts) - 1) for s, _, _, ts in flights_of(c) if s == side and ts[0] < t0)


def monitor(c):
    """The property's own predicate on one connection: every reliable post-handshake flight is retransmitted,
    while unacknowledged, at intervals that start at the configured value and double up to 60 s (constant
    without backoff); returns a description of the first failure or None."""
    if c["errs"]:
        return "%s: %s" % (NOT_DONE, "; ".join(c["errs"]))
    if any(r != "ok" for r in c["returned"]):
        return "%s: UpdateKeys returned %s" % (NOT_DONE, c["returned"])
    iv0, nb = c["interval_us"], c["no_backoff"]
    acked = {}
    for a in c["acks"]:
        acked.setdefault((a["to"], a["msg"]), a["t_us"])
    fl = flights_of(c)
    for n, (side, msg, kind, ts) in enumerate(fl):
        iv = iv0
        for j in range(1, len(ts)):
            gap = ts[j] - ts[j - 1]
            ta = acked.get((side, msg))
            if ta is not None and ts[j] > ta:
                return "%s: %s %s message_seq %d acknowledged at %d us, sent again at %d us" % (AFTER_ACK, side, kind, msg, ta, ts[j])
            if gap != iv:
                k = timeouts_before(c, side, ts[0])
                if j == 1:
                    return ("%s: %s %s message_seq %d (post-handshake flight #%d of the connection) sent at %d us, first retransmission "
                            "%d us later, configured interval %d us; earlier post-handshake flights of the %s had %d timeouts before they "
                            "were acknowledged" % (FIRST, side, kind, msg, n + 1, ts[0], gap, iv0, side, k))
                return "%s: %s %s message_seq %d retransmission %d after %d us, expected %d us (initial %d us, backoff %s)" % (
                    SCHED, side, kind, msg, j, gap, iv, iv0, not nb)
            iv = bump(iv, nb)
        # an unacknowledged flight whose deadline passed before the end of the run
        if (side, msg) not in acked and ts[-1] + iv < c["end_us"]:
            return "%s: %s %s message_seq %d last sent at %d us, next due %d us later, run ended at %d us" % (
                NO_RETX, side, kind, msg, ts[-1], iv, c["end_us"])
    # the last flight went into silence: it must have been retransmitted silence_n times
    last = c["flights"][-1]
    mine = [f for f in fl if f[0] == last["side"]]
    if not mine or len(mine[-1][3]) < c["silence_n"] + 1:
        return "%s: last flight of the %s seen %d times, expected %d" % (
            NO_RETX, last["side"], len(mine[-1][3]) if mine else 0, c["silence_n"] + 1)
    return None


def term(c):
    """Coq term for Hs13PostRun.post_ok (times in ms); None if a time is not a whole number of ms"""
    vals = [c["interval_us"], c["end_us"]] + [x["t_us"] for x in c["tx"]]
    if any(v % 1000 for v in vals):
        return None
    evs = []
    seen = set()
    for x in c["tx"]:
        k = (x["side"], x["msg"])
        evs.append((x["t_us"], 0, x["side"], ("OTx %d %d" if k in seen else "OStart %d %d") % (x["msg"], x["t_us"] // 1000)))
        seen.add(k)
    # an ACK is recorded when the peer emits it: the sender of the flight handles it at that instant, after
    # everything it did itself up to then (stable order: transmissions of an instant first only if emitted earlier;
    # the harness lists both in emission order, merged here by time with ACKs after same-time transmissions of
    # an OLDER flight and before the start of a NEWER one)
    for a in c["acks"]:
        evs.append((a["t_us"], 0, a["to"], "OAck %d" % a["msg"]))
    out = {"client": [], "server": []}
    # merge: transmissions and acks by time; at equal times an ack of flight m precedes the first transmission of
    # a flight with a higher message_seq and follows the transmissions of flight m
    def key(e):
        t, _, side, s = e
        m = int(s.split()[1])
        return (t, m, 1 if s.startswith("OAck") else 0)
    for e in sorted(evs, key=key):
        out[e[2]].append(e[3])
    return "(%d, %s, %d, %s, %s)" % (c["interval_us"] // 1000, "false" if c["no_backoff"] else "true", c["end_us"] // 1000,
                                     vlib.clist(out["client"]), vlib.clist(out["server"]))


def slim(c):
    return {"harness": "TestVerifC17Post (harness/overlay/root/zz_verif_c17_post_test.go), DTLS 1.3 client+server, virtual time",
            "interval_us": c["interval_us"], "backoff": not c["no_backoff"],
            "new_session_ticket_transmissions_lost": c["nst_drops"],
            "script": ["%s calls UpdateKeys(RequestPeerUpdate=%s): %d transmissions lost, %d ACKs lost, %d transmissions of the response lost"
                       % (f["side"], f["req"], f["drops"], f["ack_drops"], f["resp_drops"]) for f in c["flights"][:-1]]
                      + ["%s calls UpdateKeys(RequestPeerUpdate=%s): every datagram of the %s lost from then on (wait for %d retransmissions)"
                         % (c["flights"][-1]["side"], c["flights"][-1]["req"], c["flights"][-1]["side"], c["silence_n"])],
            "observed_transmissions": [{"side": s, "kind": k, "message_seq": m, "t_us": ts} for s, m, k, ts in flights_of(c)],
            "acks_delivered": c["acks"], "case_id": c["id"]}


def run_post(chk):
    out = vlib.out_path("c17post")
    rc, o = vlib.go_test(".", "^TestVerifC17Post$", {"VERIF_SEED": chk.seed + 1717, "VERIF_TIER": chk.tier, "VERIF_OUT": out},
                         tags=["c02", "c17"], timeout=3000)
    cases = [c for c in vlib.read_jsonl(out) if c.get("kind") == "c17post"]
    vlib.cleanup(out)
    found = False
    if rc != 0:
        kind = vlib.classify_go_failure(o)
        if kind == "panic":
            found = True
            chk.finding(SITE, {"family": "dtls13-post", "monitor": "panic"}, "panic during scripted post-handshake flights",
                        {"output": o[-4000:]})
        else:
            chk.broken("correspondence harness TestVerifC17Post no longer runs against /repo (%s)" % kind, o)
            return
    reported = set()
    for c in cases:
        m = monitor(c)
        if not m:
            continue
        key = re.split(r": ", m)[0]
        if key in reported:
            continue
        reported.add(key)
        found = chk.finding(SITE, {"family": "dtls13-post", "monitor": key}, m, slim(c)) or found
    # theorems + comparison with the model
    proved = False
    bad = vlib.coq_audit()
    if bad:
        chk.broken("coq-audit: forbidden construct in development", "\n".join(bad))
    else:
        ok, pout = vlib.coq_make(["theories/Properties/C17post.vo", "theories/Hs/Hs13PostRun.vo"])
        if ok:
            ok2, theorems, atext = vlib.coq_assumptions("C17post")
            closed = atext.count("Closed under the global context")
            axioms = sorted(set(re.findall(r"^([A-Za-z0-9_.']+)\s*:", atext, re.M)))
            chk.cov.setdefault("hs13_theorems", {})["C17post"] = {"theorems": theorems, "closed": closed, "axioms": axioms, "ok": ok2}
            chk.cov["obligations"] = chk.cov.get("obligations", 0) + len(theorems)
            proved = ok2 and not axioms and closed >= len(theorems)
            chk.cov["discharged"] = chk.cov.get("discharged", 0) + (len(theorems) if proved else 0)
        if not ok or not proved:
            if not found:
                mm = re.search(r'File "([^"]+)", line (\d+)', pout if not ok else atext)
                chk.broken("proof obligation Properties/C17post.v no longer checks (%s)" % (("%s:%s" % mm.groups()) if mm else "?"),
                           pout if not ok else atext)
    n_bad = 0
    if proved:
        idx = [i for i, c in enumerate(cases) if term(c) is not None]
        res, cout = vlib.coq_mismatches("c17post", "From DtlsV Require Import Hs.Hs13Post Hs.Hs13PostRun.",
                                        "N * bool * N * list obs * list obs", "post_ok", [term(cases[i]) for i in idx], shard=400)
        if res is None:
            if not found:
                chk.broken("comparison Hs13PostRun.post_ok no longer evaluates", cout)
        else:
            n_bad = len(res)
            judged = sorted(((idx[i], monitor(cases[idx[i]])) for i in res[:200]), key=lambda x: (x[1] is None, x[0]))
            for i, m in judged[:1]:
                chk.finding(SITE, {"family": "dtls13-post", "monitor": "model-mismatch"},
                            "post-handshake flights not accepted by the Hs/Hs13Post model (interval %d us, backoff %s)%s" % (
                                cases[i]["interval_us"], not cases[i]["no_backoff"], (": " + m) if m else ""),
                            dict(slim(cases[i]), correspondence="Hs.Hs13PostRun.post_ok", term=term(cases[i])),
                            no_input=(m is None and not found))
    def nontrivial(c):
        return any(len(ts) > 1 for s, _, _, ts in flights_of(c)[:-1]) and len(flights_of(c)) >= 2
    nt = [c for c in cases if nontrivial(c)]
    chk.count("post", len(cases),
              [(c["interval_us"], c["no_backoff"], c["nst_drops"], c["silence_n"],
                tuple((f["side"], f["req"], f["drops"], f["ack_drops"], f["resp_drops"]) for f in c["flights"])) for c in nt],
              samples=[{"interval_us": c["interval_us"], "backoff": not c["no_backoff"], "nst_drops": c["nst_drops"],
                        "flights": c["flights"], "transmissions": [(s, m, ts) for s, m, _, ts in flights_of(c)]} for c in nt[-2:]])
    chk.cov["traces_validated_against_impl"] = chk.cov.get("traces_validated_against_impl", 0) + len(cases)
    fls = [f for c in cases for f in flights_of(c)]
    chk.leg_info("post", flights_observed=len(fls), timer_expiries_observed=sum(len(f[3]) - 1 for f in fls),
                 flights_started_after_an_earlier_timeout=sum(
                     1 for c in cases for s, _, _, ts in flights_of(c) if len(ts) > 1 and timeouts_before(c, s, ts[0]) > 0),
                 reached_cap=sum(1 for f in fls if any(b - a == CAP for a, b in zip(f[3], f[3][1:]))),
                 not_accepted_by_model=n_bad, theorems="Properties/C17post.v",
                 rule="sequences of 2..4 reliable DTLS 1.3 post-handshake flights (optionally after a NewSessionTicket lost 1..4 "
                      "times) on one connection, intervals 20 ms .. 90 s, backoff on/off: earlier flights lose 0..4 transmissions "
                      "or ACKs (requested updates: the response flight too) before they are acknowledged, the last flight is sent "
                      "into silence; every transmission attributed to its flight by opening the record; monitor = every flight on "
                      "its own schedule starting at the configured interval; compared with Hs13PostRun.post_ok. Non-trivial = an "
                      "earlier flight timed out at least once.")
