"""C18 wire codecs: theorems Properties/C18.v (combinator library Codec/C18Comb*.v, models
Codec/C18Rec.v / C18Hs.v / ...) + correspondence of every modelled codec with the
implementation's Marshal/Unmarshal on generated, mutated, random and exhaustive-short inputs;
implementation-side monitors: no panic, decode(encode v) == v, re-encoding exists and is a
byte-level fixed point, truncated encodings are rejected, bytes beyond an encoding are not
consumed, unpacked records partition the datagram; "edge" values (vectors at and one past what
their length prefix can express, values whose fields do not fit the decoding context, Conn.Write
payloads and a ClientCAs pool around the 16-bit limits): the encoder refuses them or emits bytes
that decode back to the value; an odd supported_signature_algorithms length is never accepted; a
ServerKeyExchange cut inside its identity hint is never accepted."""
import vlib
from vlib import cN, cNlist, chex

IMPORTS = "From Coq Require Import Uint63.\nFrom DtlsV Require Import Lib.Bytes Codec.C18Run."

PKGS = [
    ("./pkg/protocol/alert", "^TestVerifC18Alert$"),
    ("./pkg/protocol", "^TestVerifC18Protocol$"),
    ("./pkg/protocol/recordlayer", "^TestVerifC18Record$"),
    ("./pkg/protocol/handshake", "^TestVerifC18Handshake$"),
    ("./pkg/protocol/extension", "^TestVerifC18Extension$"),
    ("./internal/negotiation", "^TestVerifC18Canonicalize$"),
    (".", "^TestVerifC18Conn$"),
]

SITE = {
    "header": "pkg/protocol/recordlayer/header.go:Header.Unmarshal",
    "hs_header": "pkg/protocol/handshake/header.go:Header.Unmarshal",
    "alert": "pkg/protocol/alert/alert.go:Alert.Unmarshal",
    "ccs": "pkg/protocol/change_cipher_spec.go:ChangeCipherSpec.Unmarshal",
    "appdata": "pkg/protocol/application_data.go:ApplicationData.Unmarshal",
    "ack": "pkg/protocol/ack.go:ACK.Unmarshal",
    "rrc": "pkg/protocol/return_routability_check.go:ReturnRoutabilityCheck.Unmarshal",
    "inner_plaintext": "pkg/protocol/recordlayer/inner_plaintext.go:InnerPlaintext.Unmarshal",
    "unpack": "pkg/protocol/recordlayer/recordlayer.go:UnpackDatagram",
    "record12": "pkg/protocol/recordlayer/recordlayer.go:RecordLayer.Unmarshal",
    "unified_header": "pkg/protocol/recordlayer/header_13.go:UnifiedHeader.Unmarshal",
    "record13_ciphertext": "pkg/protocol/recordlayer/recordlayer_13.go:CiphertextRecord13.Unmarshal",
    "record13_plaintext": "pkg/protocol/recordlayer/recordlayer_13.go:PlaintextRecord13.Unmarshal",
    "unpack13": "pkg/protocol/recordlayer/recordlayer_13.go:UnpackDatagram13",
    "handshake": "pkg/protocol/handshake/handshake.go:Handshake.Unmarshal",
    "hello_verify_request": "pkg/protocol/handshake/message_hello_verify_request.go:MessageHelloVerifyRequest.Unmarshal",
    "client_key_exchange": "pkg/protocol/handshake/message_client_key_exchange.go:MessageClientKeyExchange.Unmarshal",
    "certificate_verify": "pkg/protocol/handshake/message_certificate_verify.go:MessageCertificateVerify.Unmarshal",
    "certificate": "pkg/protocol/handshake/message_certificate.go:MessageCertificate.Unmarshal",
    "new_connection_id": "pkg/protocol/handshake/message_new_connection_id.go:MessageNewConnectionID.Unmarshal",
    "key_update": "pkg/protocol/handshake/message_key_update.go:MessageKeyUpdate.Unmarshal",
    "client_hello": "pkg/protocol/handshake/message_client_hello.go:MessageClientHello.Unmarshal",
    "server_hello": "pkg/protocol/handshake/message_server_hello.go:MessageServerHello.Unmarshal",
    "server_key_exchange": "pkg/protocol/handshake/message_server_key_exchange.go:MessageServerKeyExchange.Unmarshal",
    "certificate_request": "pkg/protocol/handshake/message_certificate_request.go:MessageCertificateRequest.Unmarshal",
    "new_session_ticket": "pkg/protocol/handshake/message_new_session_ticket.go:MessageNewSessionTicket.Unmarshal",
    "encrypted_extensions": "pkg/protocol/handshake/message_encrypted_extensions.go:MessageEncryptedExtensions.Unmarshal",
    "certificate13": "pkg/protocol/handshake/message_certificate_13.go:MessageCertificate13.Unmarshal",
    "certificate_request13": "pkg/protocol/handshake/message_certificate_request_13.go:MessageCertificateRequest13.Unmarshal",
    "handshake2": "pkg/protocol/handshake/handshake.go:Handshake.Unmarshal",
    "ext_raw_list": "pkg/protocol/extension/raw.go:ParseList",
    "canonicalize_client_hello": "internal/negotiation/negotiation.go:validatedClientHello",
    "canonicalize_server_hello": "internal/negotiation/negotiation.go:validatedServerHello",
    "conn_write": "conn.go:Conn.Write",
    "live_certificate_request": "internal/flight/flight12/flight4handler.go:flight4Generate",
}

# codecs whose encodings are self-delimiting: every proper prefix of a valid encoding must be
# rejected (the model proves it: *_trunc theorems)
TRUNC = {"header", "hs_header", "alert", "ccs", "ack", "rrc", "record12", "handshake",
         "hello_verify_request", "client_key_exchange", "certificate_verify", "certificate",
         "new_connection_id", "key_update", "unified_header", "record13_plaintext",
         "record13_ciphertext"}
# codecs that carry their own length: bytes appended to a valid encoding must be rejected or
# ignored, never become part of the value
TRUNC |= {"client_hello", "new_session_ticket", "encrypted_extensions", "certificate13",
          "certificate_request13", "ext_raw_list"}
TRAIL = set(TRUNC)


def self_delimiting(c):
    """codecs with a *_trunc theorem: the listed ones and every extension payload except Raw"""
    return c["codec"] in TRUNC or (119 <= c["id"] <= 148 and c["id"] != 130)


# codec ids that Codec.C18Run.run knows; everything else is checked by the implementation-side
# monitors only and is not sent to Coq
MODELLED_IDS = set(range(1, 18)) | {20, 21, 22, 23} | set(range(119, 149)) | {101, 102, 103, 104, 105, 106, 107, 108, 109, 110, 111}


def site_of(c):
    if 120 <= c["id"] < 160:
        return "pkg/protocol/extension:%s.UnmarshalData" % c["codec"]
    return SITE.get(c["codec"], "pkg/protocol:%s" % c["codec"])


def case_key(c):
    return (c["id"], tuple(c["ctx"]), c["in"])


def order(c):
    """canonical preference when choosing the representative failing case: fixed corpus first,
    then shortest input, then lexicographic"""
    return (0 if c["kind"] in ("corpus", "cvalid", "ctrunc", "ctrail") else 1, len(c["in"]), c["in"], c["ctx"])


def monitors(cases):
    """The property's own predicates evaluated on the implementation's observations.
    Returns {(site, monitor, codec): [failing cases]}."""
    bad = {}

    def flag(c, mon):
        bad.setdefault((site_of(c), mon, c["codec"]), []).append(c)

    valid = {}
    for c in cases:
        if c["kind"] in ("valid", "cvalid"):
            valid[(c["id"], tuple(c["ctx"]), c["in"])] = c
    for c in cases:
        if c["kind"] == "edge":
            continue                      # judged by edge_monitors
        if c["res"] == "panic":
            flag(c, "panic")
            continue
        if c["kind"] == "cvalid" and c["res"] != "ok":
            flag(c, "valid-encoding-rejected")
        if c["kind"] == "valid":
            if c["res"] != "ok":
                flag(c, "valid-encoding-rejected")
            elif c["dump"] != c["vdump"]:
                flag(c, "decode-of-encode-differs")
            elif c["reenc"] != c["in"]:
                flag(c, "encode-of-decode-of-encode-differs")
        if c["res"] == "ok":
            if c["reenc"] is None:
                flag(c, "accepted-input-does-not-re-encode")
            elif not c.get("fix_bytes", False):
                flag(c, "re-encoding-not-a-fixed-point")
            if c["codec"] == "unpack" and c["reenc"] != c["in"]:
                flag(c, "records-do-not-partition-datagram")
            # UnpackDatagram13 may legitimately stop early (connection-id mismatch); for a datagram
            # built from well-formed records of one connection id it must return all of it
            if c["codec"] == "unpack13" and c["kind"] in ("valid", "cvalid") and c["reenc"] != c["in"]:
                flag(c, "records-do-not-partition-datagram")
        par = valid.get((c["id"], tuple(c["ctx"]), c.get("parent", "")))
        if c["kind"] in ("trunc", "ctrunc") and par is not None and c["res"] == "ok" and self_delimiting(c):
            # RRC messages of unknown type have no length of their own
            if not (c["codec"] == "rrc" and par is not None and par["dump"][0] > 2):
                flag(c, "truncated-encoding-accepted")
        if c["kind"] in ("trail", "ctrail") and c["res"] == "ok" and self_delimiting(c) and par is not None:
            if par["res"] == "ok" and c["dump"] != par["dump"]:
                flag(c, "bytes-beyond-encoding-consumed")
        # a vector of two-byte elements with an odd declared length: accepting it means that the
        # last element was completed with a byte of the following field (F75)
        if c["res"] == "ok" and odd_sigalg_vector(c):
            flag(c, "bytes-beyond-declared-vector-consumed")
        # ServerKeyExchange under a PSK key exchange, cut INSIDE its identity hint: the declared hint
        # length exceeds what is left, so the input must be rejected (the decoder instead re-reads it
        # from offset 0 as ServerECDHParams). The message as a whole is not self-delimiting (the
        # signature is optional), which is why only cuts inside the hint are judged.
        if (c["codec"] == "server_key_exchange" and c["kind"] in ("trunc", "ctrunc") and c["res"] == "ok"
                and par is not None and par["res"] == "ok" and c["ctx"] and c["ctx"][0] & 2
                and len(par["dump"]) >= 2 and par["dump"][0] == 1 and len(c["in"]) // 2 < 2 + par["dump"][1]):
            flag(c, "truncated-encoding-accepted")
    return bad


def odd_sigalg_vector(c):
    """DTLS 1.2 CertificateRequest (bare, or inside the handshake envelope): is the declared length
    of supported_signature_algorithms odd?"""
    if c["codec"] == "certificate_request":
        b = bytes.fromhex(c["in"])
    elif c["codec"] == "handshake2" and c["in"][:2] == "0d":
        b = bytes.fromhex(c["in"])[12:]
    else:
        return False
    if len(b) < 3 or len(b) < 3 + b[0]:
        return False
    return (b[1 + b[0]] << 8 | b[2 + b[0]]) % 2 == 1


def edge_label(c, outcome):
    return "%s/%s=%s" % (".".join(str(x) for x in c["ctx"]) or "-", c["edge"], outcome)


def edge_monitors(cases):
    """kind "edge": Marshal of a fixed value at / beyond the limits of the wire format.
    Returns {(site, monitor, codec): [(label, case)]} in harness order."""
    bad = {}

    def flag(c, mon, outcome, marshal_site=True):
        site = site_of(c)
        if marshal_site:
            site = site.replace("Unmarshal", "Marshal")
        bad.setdefault((site, mon, c["codec"]), []).append((edge_label(c, outcome), c))

    for c in cases:
        if c["kind"] != "edge":
            continue
        if c["res"] == "panic":
            flag(c, "panic", "panic", marshal_site=c.get("panic", "").startswith(("Marshal", "Conn.Write")))
        elif c["res"] == "refused":
            if c.get("in_range"):
                flag(c, "in-range-value-refused", "refused")
        elif c["res"] == "err":
            flag(c, "encoder-output-not-decoded-to-value", "rejected")
        elif not c.get("dump_same"):
            flag(c, "encoder-output-not-decoded-to-value", "different-value")
        elif c.get("reenc") is None or not c.get("reenc_same") or not c.get("fix_bytes"):
            flag(c, "encoder-output-not-canonical", "not-canonical")
    return bad


def chunks(h):
    """hex string -> `len [7-byte big-endian chunks as primitive ints]` (see Codec.C18Run.B)"""
    b = bytes.fromhex(h)
    return "%d [%s]" % (len(b), "; ".join(str(int.from_bytes(b[i:i + 7], "big")) for i in range(0, len(b), 7)))


def ser_dump(d):
    out = bytearray()
    for n in d:
        if n < 255:
            out.append(n)
        else:
            out.append(255)
            out += int(n).to_bytes(8, "big")
    return out.hex()


def coq_term(c):
    """Codec.C18Run.K id ctx input r dump reenc"""
    if c["res"] != "ok":
        obs = "0 0 [] 0 []"
    elif c["reenc"] is None:
        obs = "1 %s 0 []" % chunks(ser_dump(c["dump"]))
    else:
        obs = "2 %s %s" % (chunks(ser_dump(c["dump"])), chunks(c["reenc"]))
    return "K %d [%s]%%N %s %s" % (c["id"], "; ".join(str(x) for x in c["ctx"]), chunks(c["in"]), obs)


def replay(chk, path):
    """bin/check C18 --replay <evidence/replay/C18-*.json>: re-run the one recorded input (and
    the valid encoding it was derived from) through the implementation and the model."""
    import json
    rec = json.load(open(path))
    case = (rec.get("replay") or {}).get("case")
    if not case:
        chk.broken("replay file has no input (no-failing-input-found record)", json.dumps(rec)[:2000])
        chk.finish(level="proof", rule="replay of " + path)
    # a replay must not replace the evidence of the last full run: write to scratch instead
    import os
    import shutil
    scratch = os.path.join(vlib.WORK, "c18-replay")
    shutil.rmtree(scratch, ignore_errors=True)
    os.makedirs(os.path.join(scratch, "replay"))
    vlib.EVID, vlib.REPLAY = scratch, os.path.join(scratch, "replay")
    spec = {k: case.get(k) for k in ("id", "ctx", "in", "kind")}
    spec["parent"] = case.get("parent", "")
    spec["edge"] = case.get("edge", "")
    run(chk, extra_env={"VERIF_C18_REPLAY": json.dumps(spec)}, only_codec=case["codec"])


def run(chk, extra_env=None, only_codec=None):
    proved = chk.prove()
    env = {"VERIF_SEED": chk.seed, "VERIF_TIER": chk.tier}
    env.update(extra_env or {})
    cases = []
    found_input = False
    import os
    for pkg, test in PKGS:
        hdir = os.path.join(vlib.OVERLAY_SRC, "root") if pkg == "." else os.path.join(vlib.OVERLAY_SRC, "pkgs", pkg[2:])
        if not os.path.isdir(hdir) or not any(fn.startswith("zz_verif_c18") for fn in os.listdir(hdir)):
            continue
        out = vlib.out_path("c18" + (pkg.replace("/", "_").replace(".", "") or "_root"))
        rc, o = vlib.go_test(pkg, test, dict(env, VERIF_OUT=out), tags=["c18"],
                             timeout=3000 if chk.tier == "thorough" else 600)
        got = vlib.read_jsonl(out)
        vlib.cleanup(out)
        if rc != 0 or (not got and not extra_env):
            kind = vlib.classify_go_failure(o)
            chk.broken("correspondence harness %s %s no longer runs against /repo (%s)" % (pkg, test, kind), o)
        for c in got:
            c["dump"] = c.get("dump") or []
            c["vdump"] = c.get("vdump") or []
        cases += got

    if only_codec is not None:
        cases = [c for c in cases if c["codec"] == only_codec]
        if not cases:
            chk.broken("replay: no harness codec matches the recorded case", only_codec)
        for c in cases:
            vlib.log("replay: %s ctx %s kind %s input %s -> %s dump=%s reenc=%s" % (
                c["codec"], c["ctx"], c["kind"], c["in"], c["res"], c.get("dump"), c.get("reenc")))

    # ---- implementation-side monitors
    bad = monitors(cases)
    flagged = set()
    for (site, mon, codec), cs in sorted(bad.items()):
        cs.sort(key=order)
        for c in cs:
            flagged.add(case_key(c))
        c = cs[0]
        found_input = True
        chk.finding(site, {"monitor": mon, "codec": codec, "ctx": c["ctx"], "input": c["in"]},
                    "%s: %s (codec %s ctx %s, %d inputs, e.g. %s)" % (site, mon, codec, c["ctx"], len(cs), c["in"]),
                    {"how": "call the codec's Unmarshal (context as in ctx) on the hex input; see "
                            "harness/overlay/pkgs/**/zz_verif_c18*",
                     "case": c, "more": [x["in"] for x in cs[1:6]],
                     "rerun": "VERIF_SEED=%d bin/check C18 --tier %s" % (chk.seed, chk.tier)})

    # ---- edge values (Marshal at / beyond the limits of the wire format)
    ebad = edge_monitors(cases)
    for (site, mon, codec), lcs in sorted(ebad.items()):
        labels = [l for l, _ in lcs]
        c = lcs[0][1]
        found_input = True
        meaning = {
            "panic": "the implementation panics on a fixed edge value",
            "in-range-value-refused": "the encoder refuses a value that the wire format can express",
            "encoder-output-not-decoded-to-value": "the encoder returns no error for a value it cannot express, and what "
                                                   "it wrote is rejected by the matching decoder or decodes to another value",
            "encoder-output-not-canonical": "the encoding of a fixed value is not a fixed point of decode-then-encode",
        }[mon]
        chk.finding(site, {"monitor": mon, "codec": codec, "edges": labels},
                    "%s: %s - %s; edge values (ctx/name=outcome) %s of codec %s; first: %s"
                    % (site, mon, meaning, ", ".join(labels), codec, c.get("detail") or c.get("panic") or c.get("err") or
                       "Marshal returned %s bytes without error" % c.get("len")),
                    {"how": "Marshal the named fixed value (harness/overlay/**/zz_verif_c18*: Edges / "
                            "TestVerifC18Conn) and Unmarshal the result under the context ctx",
                     "case": c, "all": [dict(x, label=l) for l, x in lcs],
                     "rerun": "VERIF_SEED=%d bin/check C18 --tier %s" % (chk.seed, chk.tier)})
    edges = [c for c in cases if c["kind"] == "edge"]
    per_edge = {}
    for c in edges:
        per_edge.setdefault(c["codec"], []).append(c)
    for codec, cs in sorted(per_edge.items()):
        chk.leg_info("edge:" + codec, cases=len(cs), refused=sum(1 for c in cs if c["res"] == "refused"),
                     round_tripped=sum(1 for c in cs if c["res"] == "ok" and c.get("dump_same") and c.get("reenc_same")),
                     in_range=sum(1 for c in cs if c.get("in_range")))
    chk.cov["edge_values"] = len(edges)
    cases = [c for c in cases if c["kind"] != "edge"]

    # ---- correspondence with the model, evaluated inside Coq
    ok_model, mout = vlib.coq_make(["theories/Codec/C18Run.vo"])
    if not ok_model:
        chk.broken("model Codec/C18Run.v no longer compiles", mout)
    else:
        cmp_cases = [c for c in cases if c["res"] != "panic" and c["id"] in MODELLED_IDS]
        mon_only = [c for c in cases if c["id"] not in MODELLED_IDS]
        terms = [coq_term(c) for c in cmp_cases]
        # one pass: agreement on a modelled input; the (few) others are split into "outside the
        # model" and "mismatch" by a second pass
        shard = min(6000, max(1000, -(-len(terms) // 12)))
        notok, err = vlib.coq_mismatches("c18", IMPORTS, "c18_case", "c18_strict", terms, shard=shard,
                                           scope="uint63_scope")
        badidx, unmod, err2 = None, None, ""
        if notok is not None:
            sub = [terms[i] for i in notok]
            u, err2 = vlib.coq_mismatches("c18m", IMPORTS, "c18_case", "c18_modelled", sub, shard=4000,
                                           scope="uint63_scope") if sub else ([], "")
            if u is not None:
                unmod = {notok[j] for j in u}
                badidx = [i for i in notok if i not in unmod]
        if badidx is None or unmod is None:
            chk.broken("correspondence evaluation failed in coqc", err or err2)
        else:
            per = {}
            for i in badidx:
                per.setdefault(cmp_cases[i]["codec"], []).append(cmp_cases[i])
            for codec, cs in sorted(per.items()):
                cs.sort(key=order)
                c = cs[0]
                hit = [x for x in cs if case_key(x) in flagged]
                chk.finding(site_of(c), {"monitor": "model-mismatch", "codec": codec, "ctx": c["ctx"], "input": c["in"]},
                            "%s behaves differently from the Coq model Codec/C18*.v (%d inputs, e.g. ctx %s input %s)"
                            % (site_of(c), len(cs), c["ctx"], c["in"]),
                            {"case": c, "more": [x["in"] for x in cs[1:6]], "correspondence": "Codec.C18Run.c18_ok"},
                            no_input=not (hit or found_input))
            legs = {}
            for i, c in enumerate(cmp_cases):
                legs.setdefault(c["codec"], []).append((i, c))
            for codec, ics in sorted(legs.items()):
                mod = [c for i, c in ics if i not in unmod]
                nontriv = [c for c in mod if c["res"] == "ok"]
                chk.count(codec, len(mod), [case_key(c) for c in nontriv],
                          samples=[{k: c[k] for k in ("ctx", "kind", "in", "res")} for c in nontriv[-2:]])
                kinds = {}
                for c in mod:
                    kinds[c["kind"]] = kinds.get(c["kind"], 0) + 1
                chk.leg_info(codec, kinds=kinds, outside_model=len(ics) - len(mod),
                             accepted=len(nontriv), rejected=len(mod) - len(nontriv),
                             value_level_fixpoint_false=sum(1 for c in nontriv if c.get("fix_val") is False))
            per_codec = {}
            for c in mon_only:
                per_codec.setdefault(c["codec"], []).append(c)
            for codec, cs in sorted(per_codec.items()):
                chk.leg_info("monitors-only:" + codec, cases=len(cs), accepted=sum(1 for c in cs if c["res"] == "ok"),
                             rejected=sum(1 for c in cs if c["res"] == "err"),
                             panics=sum(1 for c in cs if c["res"] == "panic"))
            chk.cov["traces_validated_against_impl"] += len(cmp_cases) - len(unmod)
            chk.cov["outside_model"] = len(unmod)
            chk.cov["monitors_only_cases"] = len(mon_only)
            chk.cov["panics"] = sum(1 for c in cases if c["res"] == "panic")
    if not proved:
        where, out = getattr(chk, "proof_error", ("?", ""))
        if not found_input:
            chk.broken("proof obligation Properties/C18.v no longer checks (%s)" % where, out)
        else:
            vlib.log("proof obligation Properties/C18.v no longer checks (%s); failing input reported above" % where)
    chk.finish(
        level="proof",
        rule="per codec (recordlayer header, handshake header, alert, CCS, application data, ACK, RRC, inner "
             "plaintext, datagram unpackers, RecordLayer, handshake envelope and messages, ...): fixed corpus, "
             "encodings of generated valid values, every truncation point / byte +-1,0,0xff / trailing garbage "
             "of those, raw random bytes, all byte strings of length <= 1 and (quick: 16-letter alphabet, "
             "thorough: all) length 2 for the small codecs. Each input goes through the implementation's "
             "Unmarshal+Marshal (in-package, recover()-wrapped) and through the Coq model (vm_compute); compared: "
             "accept/reject, canonical field dump, re-encoding. Non-trivial = accepted by the model's decoder; "
             "distinct by (codec, context, input).",
        assumptions=["tables (signature schemes, curves, certificate types) are regenerated from the tree into Gen/Generated.v",
                     "ASN.1/X.509 inside certificates and the cryptographic meaning of any field are outside C18"])
