"""C19 exported state resumes the session: theorems Properties/C19.v + correspondence of the
export/import model (State/C19Export.v) with real connections that are exported at generated
points, resumed on a fresh endpoint and keep talking to the untouched peer; corruption of the
serialised bytes; implementation-side monitors = the property's own statements."""
import vlib
from vlib import cN, cNlist, clist, cbool, chex

IMPORTS = "From DtlsV Require Import Lib.Bytes Rec.Window State.C19Export State.C19Run."
SITE = "state.go / resume.go"
MAX_SEQ = (1 << 48) - 1
# monitors of defects that were found by the round-2 audit; (site, signature) are the registered ones
F67 = ("conn.go prepareHandshakeStart / resume.go resumeWithConfig", {"monitor": "resume-state-ignored-with-dtls13-options"})
F73 = ("state.go generateState", {"monitor": "connectionstate-panic-epoch-switch"})
F74 = ("state.go generateInternalState", {"monitor": "serialised-sequence-number-beyond-limit"})
SEQ_LOWERED = ("state.go UnmarshalBinary (serializedState has no integrity check)",
               {"monitor": "corrupted-state-reuses-record-numbers", "differs_in": "sequence number lowered"})
K1 = ("state.go initializedCipherSuite / generateInternalState (ciphersuite.ForID(id, nil))",
      {"monitor": "custom-suite-session-not-exportable"})
K2 = ("conn.go prepareHandshakeStart12 / handshake fsm12.finish (a resumed connection keeps no final flight)",
      {"monitor": "resumed-final-flight-owner-cannot-retransmit"})
K3 = ("conn.go createConn (the resume state is installed by prepareHandshakeStart12, at the first Handshake/Read/Write)",
      {"monitor": "resumed-conn-reports-nothing-before-first-io"})
PARAM_FIELDS = ["suite", "session_id", "alpn", "hint", "certs", "cert_lens", "profile", "mki", "local_cid",
                "remote_cid", "rrc", "is_client", "version", "local_epoch", "remote_epoch", "local_random",
                "remote_random", "master"]


# ----------------------------------------------------------------- Coq term printers

def c_certs(p):
    return clist([chex(h) for h in (p.get("certs") or [])])


def c_istate(s):
    suite = "None" if not s["suite"] else "(Some %d)" % s["suite"]
    return ("(mkI %d %d %d %s %s %s %s %s (repeat (win_init 1) %d%%nat) %s %d %s %s %s %s %s %s %s %s %s %s (%s, %s) %s (%d, %d))" % (
        s["version"], s["local_epoch"], s["remote_epoch"], chex(s["local_random"]), chex(s["remote_random"]),
        chex(s["master"]), cNlist(s["local_seq"]), cNlist(s["remote_seq"]), s["detectors"], suite, s["profile"],
        chex(s["mki"]), chex(s["local_cid"]), chex(s["remote_cid"]), cbool(s["rrc"]), cbool(s["is_client"]),
        c_certs(s), chex(s["hint"]), chex(s["session_id"]), chex(s["alpn"]), cbool(s["ems"]),
        cbool(s["local_cid_offered"]), cbool(s["remote_cid_offered"]), cbool(s["certs_verified"]),
        s["hs_send"], s["hs_recv"]))


def c_pstate(p):
    return ("(mkP %d %d %d %s %s %s %d %d %d %s %s %s %s %s %s %s %s %s)" % (
        p["version"], p["local_epoch"], p["remote_epoch"], chex(p["local_random"]), chex(p["remote_random"]),
        chex(p["master"]), p["seq"], p["suite"], p["profile"], chex(p["mki"]), chex(p["local_cid"]),
        chex(p["remote_cid"]), cbool(p["rrc"]), cbool(p["is_client"]), c_certs(p), chex(p["hint"]),
        chex(p["session_id"]), chex(p["alpn"])))


def c_sstate(p):
    return ("(mkS %d %d %d %s %s %d %s %d %d %s %s %s %s %s %s %s %s %s)" % (
        p["version"], p["local_epoch"], p["remote_epoch"], chex(p["local_random"]), chex(p["remote_random"]),
        p["suite"], chex(p["master"]), p["seq"], p["profile"], chex(p["mki"]), c_certs(p), chex(p["hint"]),
        chex(p["session_id"]), chex(p["local_cid"]), chex(p["remote_cid"]), cbool(p["rrc"]),
        cbool(p["is_client"]), chex(p["alpn"])))


def c_pairs(ws):
    return clist(["(%d,%d)" % (w["e"], w["s"]) for w in (ws or [])])


def c_optbool(sent, got):
    sent = sent or []
    if not sent:
        return "None"
    return "(Some %s)" % cbool(sent == (got or []))


ZERO_P = {"version": 0, "local_epoch": 0, "remote_epoch": 0, "local_random": "", "remote_random": "", "master": "",
          "seq": 0, "suite": 0, "profile": 0, "mki": "", "local_cid": "", "remote_cid": "", "rrc": False,
          "is_client": False, "certs": [], "hint": "", "session_id": "", "alpn": ""}


# record-protection class of each suite id (same table as suite_table in State/C19Export.v, which the
# suites leg ties to ciphersuite.ForID and the corrupt leg to observed interchangeability)
SUITE_CLASS = {168: 1, 174: 2, 4865: 0, 4866: 0, 4867: 0, 49162: 3, 49172: 3, 49195: 1, 49196: 4, 49199: 1,
               49200: 4, 49207: 2, 49316: 5, 49320: 6, 49321: 7, 49324: 5, 49326: 6, 52392: 8, 52393: 8, 52395: 8}
KEY_FIELDS = ("master", "local_random", "remote_random", "is_client")


def protection_inputs_hit(c):
    """Classify a decoded-but-different state whose connection still authenticates records.
    Inputs of record protection and addressing: master secret, both randoms, suite protection class,
    is_client (both directions); local epoch and remote connection id (records the resumed side
    writes); local connection id and the set of epochs it reads, i.e. remote epoch lowered below
    the peer's sending epoch (records it receives). A direction counts only if a record was
    actually delivered in it. Returns (class, explanation)."""
    o, d, diff = c["orig"], c["decoded"], set(c["diff"])
    hit = [f for f in KEY_FIELDS if f in diff]
    if "suite" in diff and SUITE_CLASS.get(o["suite"], -1) != SUITE_CLASS.get(d["suite"], -2):
        hit.append("suite(protection class)")
    if c["x2p"]:
        hit += [f for f in ("local_epoch", "remote_cid") if f in diff]
    if c["p2x"]:
        hit += [f for f in ("local_cid",) if f in diff]
        peer_epoch = (c.get("peer") or {}).get("local_epoch", 1)
        if "remote_epoch" in diff and d["remote_epoch"] < peer_epoch:
            hit.append("remote_epoch(lowered)")
    if hit:
        return "record-protection inputs", "inputs of a direction that still delivered differ: %s" % hit
    return "fields outside the record-protection inputs", ""



# ----------------------------------------------------------------- implementation-side monitors

def resumed(c):
    return (c["export_ok"] and c["marshal_err"] == "ok" and c["decode_err"] == "ok" and
            c["resume_err"] == "ok" and c["start_err"] == "ok")


NOT_RETURNED = "resumed handshake did not return"
V13 = 0xfefc


def start_obs(c):
    """what HandshakeContext of the resumed Conn did: 0 = nil at once, 1 = an error at once and nothing
    written (a refusal), 2 = it wrote records or kept waiting (a new handshake)"""
    if c["start_err"] == "ok":
        return 0
    if c["start_err"] != NOT_RETURNED and not c.get("start_wire"):
        return 1
    return 2


def options_exclude_dtls12(c):
    """resume options whose version range is DTLS 1.3 only: refusing them (at Resume or at the first
    Handshake/Read/Write, before anything is written) is a legitimate answer"""
    return c.get("cfg_min") == V13 and start_obs(c) == 1


def monitor_main(c):
    """the property's statements on one implementation run; returns list of (monitor, text)"""
    out = []
    if (c["export_ok"] and c["marshal_err"] == "ok" and c["decode_err"] == "ok" and c["resume_err"] == "ok"
            and options_exclude_dtls12(c)):
        return out
    if (c["export_ok"] and c["marshal_err"] == "ok" and c["decode_err"] == "ok" and c["resume_err"] == "ok"
            and start_obs(c) == 2):
        w = (c.get("start_wire") or [None])[0]
        out.append(("F67", "a connection resumed from a DTLS 1.2 state with options that allow DTLS 1.3 (version range "
                    "%#x..%#x) does not start in the finished state: HandshakeContext: %s; %s" % (
                        c["cfg_min"], c["cfg_max"], c["start_err"],
                        "it wrote nothing and keeps waiting (a resumed server waits for a ClientHello)" if not w else
                        "first record it wrote: content type %d, epoch %d, seq %d (22/0 = plaintext handshake)"
                        % (w["ct"], w["e"], w["s"]))))
        return out
    if not resumed(c):
        out.append(("resume-refused", "export_ok=%s marshal=%s decode=%s resume=%s start=%s" % (
            c["export_ok"], c["marshal_err"], c["decode_err"], c["resume_err"], c["start_err"])))
        return out
    if not c["early_state_ok"] or c["early_srtp"] != c["srtp_before"]:
        out.append(("K3", "between Resume and its first Handshake/Read/Write the resumed Conn reports ConnectionState() "
                    "ok=%s and SRTP profile/MKI %s; the exported connection reported %s (negotiated parameters and keying "
                    "material are unavailable until the first I/O)" % (c["early_state_ok"], c["early_srtp"], c["srtp_before"])))
    if c["write_errs"]:
        out.append(("data-flow", "write errors: %s" % c["write_errs"]))
    if (c["post_sent_self"] or []) != (c["post_got_peer"] or []):
        out.append(("data-flow", "resumed -> peer: sent %s, peer read %s" % (c["post_sent_self"], c["post_got_peer"])))
    if (c["post_sent_peer"] or []) != (c["post_got_self"] or []):
        out.append(("data-flow", "peer -> resumed: sent %s, resumed read %s" % (c["post_sent_peer"], c["post_got_self"])))
    if c["peer_alert_records"]:
        out.append(("data-flow", "%d alert records on the wire after the resume" % c["peer_alert_records"]))
    exps = [c["exp_before"], c["exp_decoded"], c["exp_after"], c["exp_peer"]]
    if any(e != exps[0] for e in exps) or any(x["out"].startswith("err:") for e in exps for x in (e or [])) \
            or not exps[0]:
        out.append(("exporter", "exporter outputs differ: before=%s decoded=%s after=%s peer=%s" % tuple(
            [[x["out"][:16] for x in (e or [])] for e in exps])))
    d = [k for k in PARAM_FIELDS if c["exported"][k] != c["params_after"].get(k)] + \
        [k for k in PARAM_FIELDS if c["exported"][k] != c["decoded"].get(k)]
    if d:
        out.append(("parameters", "negotiated parameters differ after the resume in %s" % sorted(set(d))))
    if c["srtp_before"] != c["srtp_after"]:
        out.append(("parameters", "SRTP profile/MKI differ: %s -> %s" % (c["srtp_before"], c["srtp_after"])))
    pre = {(w["e"], w["s"]) for w in c["pre_self"]}
    post = [(w["e"], w["s"]) for w in (c["post_self"] or [])]
    if pre & set(post) or len(set(post)) != len(post):
        out.append(("sequence", "record numbers reused by the resumed sender: %s" % sorted(pre & set(post) or post)))
    e = c["before"]["local_epoch"]
    if post and post[0] != (e, c["exported"]["seq"]):
        out.append(("sequence", "first record after the resume is %s, exported next number is (%d,%d)" % (
            post[0], e, c["exported"]["seq"])))
    return out


def monitor_looks(c):
    """C19's statements on one history with several ConnectionState() calls on the same connection (looks leg):
    returns list of (monitor, text); the sequence/data-flow monitors are the property's own predicate, the
    stale-export line says which call handed out a State that was not the connection's current one"""
    out = []
    if not c["complete"]:
        g = (c["gens"] or [{}])[-1]
        out.append(("resume-refused", "generation %d: marshal=%s decode=%s resume=%s start=%s" % (
            len(c["gens"]) - 1, g.get("marshal_err"), g.get("decode_err"), g.get("resume_err"), g.get("start_err"))))
        return out
    def counter(l):
        st = l["state"]
        return st["local_seq"][st["local_epoch"]] if st["local_epoch"] < len(st["local_seq"]) else None
    stale = [l for l in c["looks"] if l["ok"] and l["got"]["seq"] != counter(l)]
    why = ""
    if stale:
        l = stale[0]
        why = ("; ConnectionState() call at position %d of generation %d (%s) returned sequence number %d while the "
               "connection's next record number was %d (LocalSequenceNumber %s, %d records already on the wire)" % (
                   l["at"], l["gen"], "the export that was serialised and resumed" if l["export"] else "a look",
                   l["got"]["seq"], counter(l), l["state"]["local_seq"],
                   l["sent_before"]))
    wire = [(w["e"], w["s"]) for w in c["all_wire"]]
    dup = sorted({x for x in wire if wire.count(x) > 1})
    if dup:
        out.append(("sequence", "record numbers used twice by the exported side (all its incarnations): %s; everything it "
                    "sent: %s%s" % (dup, wire, why)))
    if c["write_errs"]:
        out.append(("data-flow", "write errors: %s%s" % (c["write_errs"], why)))
    if c["sent_self"] != c["got_peer"]:
        out.append(("data-flow", "%s -> peer: sent %s, the untouched peer read %s%s" % (
            c["side"], c["sent_self"], c["got_peer"], why)))
    if c["sent_peer"] != c["got_self"]:
        out.append(("data-flow", "peer -> %s: sent %s, read %s%s" % (c["side"], c["sent_peer"], c["got_self"], why)))
    exps = [l["exp"] for l in c["looks"] if l["ok"]] + [c["exp_peer"], c["exp_final"]]
    if any(e != exps[0] for e in exps) or not exps[0] or any(x["out"].startswith("err:") for e in exps for x in (e or [])):
        out.append(("exporter", "exporter outputs differ between the ConnectionState() calls / the peer / the resumed "
                    "connection: %s" % [[x["out"][:16] for x in (e or [])] for e in exps]))
    first = next((l["got"] for l in c["looks"] if l["ok"]), None)
    if first:
        d = sorted({k for l in c["looks"] if l["ok"] for k in PARAM_FIELDS if l["got"].get(k) != first.get(k)} |
                   {k for k in PARAM_FIELDS if c["final_ok"] and c["final"].get(k) != first.get(k)})
        if d or not c["final_ok"]:
            out.append(("parameters", "negotiated parameters differ between the ConnectionState() calls in %s "
                        "(final ConnectionState ok=%s)" % (d, c["final_ok"])))
    if stale and not out:
        out.append(("stale-export", why[2:]))
    return out


def looks_terms(c):
    """one Coq looks_case per generation with at least one ConnectionState() call: internal state at the first call,
    events after it (0 = call, e+1 = a record sent at epoch e), sequence numbers returned"""
    terms = []
    for g, h in enumerate(c["histories"]):
        ls = [l for l in c["looks"] if l["gen"] == g]
        if not ls or not all(l["ok"] for l in ls):
            continue
        e = ls[0]["state"]["local_epoch"]
        ops = h[ls[0]["at"] + 1:] if ls[0]["at"] < len(h) else ""
        evs = []
        for op in ops:
            if op == "L":
                evs.append(0)
            elif op == "S":
                evs.append(e + 1)
        if ls[0]["at"] < len(h):
            evs.append(0)          # the export at the end of the generation
        if len([x for x in evs if x == 0]) + 1 != len(ls):
            continue
        terms.append(("(%s, %s, %s)" % (c_istate(ls[0]["state"]), cNlist(evs), cNlist([l["got"]["seq"] for l in ls])),
                      (c, g)))
    return terms


def run(chk):
    proved = chk.prove(["theories/State/C19Run.vo"])
    env = {"VERIF_SEED": chk.seed, "VERIF_TIER": chk.tier}
    legs = {}
    found_input = False
    for name, test, tmo in (("main", "TestVerifC19Main", 1500), ("corrupt", "TestVerifC19Corrupt", 1500),
                            ("suites", "TestVerifC19Suites", 300), ("custom", "TestVerifC19Custom", 300),
                            ("mid", "TestVerifC19MidHandshake", 300), ("vc", "TestVerifC19VerifyConn", 600),
                            ("limit", "TestVerifC19Limit", 600), ("final", "TestVerifC19FinalFlight", 300),
                            ("looks", "TestVerifC19Looks", 900)):
        outp = vlib.out_path("c19" + name)
        rc, o = vlib.go_test(".", "^%s$" % test, dict(env, VERIF_OUT=outp), timeout=tmo, tags=["c19"])
        legs[name] = vlib.read_jsonl(outp)
        vlib.cleanup(outp)
        if rc != 0:
            kind = vlib.classify_go_failure(o)
            if kind == "panic" and "test timed out" not in o and "deadlock" not in o:
                chk.finding(SITE, {"monitor": "panic", "test": test}, "panic in " + test,
                            {"test": test, "output": o[-3000:]})
                found_input = True
            else:
                chk.broken("correspondence harness %s no longer runs against /repo (%s)" % (test, kind), o)

    main, corrupt, suites = legs["main"], [c for c in legs["corrupt"] if c["kind"] == "corrupt"], legs["suites"]
    bases = {(c["base"], c["side"]): c for c in legs["corrupt"] if c["kind"] == "base"}
    rerun = "VERIF_SEED=%d bin/check C19 --tier %s" % (chk.seed, chk.tier)

    # ---------------- monitors: the property's statements on the implementation traces
    how_main = ("establish `variant`, write i records from `side` and j from its peer, export with "
                "ConnectionState/MarshalBinary/UnmarshalBinary, close the original endpoint silently, "
                "resumeWithConfig on a fresh endpoint with the same address, write k and m records")
    reported = set()
    for c in sorted(main, key=lambda c: (0 if c["variant"].get("vers") == 1 else 1,
                                         0 if (c.get("srtp_before") or {}).get("mki_ok") else 1)):
        for mon, text in monitor_main(c):
            if mon in reported:
                continue
            reported.add(mon)
            found_input = True
            site, sig = {"F67": F67, "K3": K3}.get(mon, (SITE, {"monitor": mon, "variant": c["variant"]["name"].split("/")[0]}))
            chk.finding(site, sig, text, {"how": how_main + (
                "; variant.vers: 1 = `side` is a dual-stack endpoint (MaxVersion 1.3) and its peer speaks 1.2 only, "
                "resumed with the same options; 2 = resumed with options MinVersion = MaxVersion = 1.3"
                if mon == "F67" else ""), "case": c, "rerun": rerun})
    # histories with several ConnectionState() calls on the same connection (looks leg)
    how_looks = ("establish `variant`; for every string of `histories` (one per generation) run its ops on the current "
                 "connection of `side`: L = ConnectionState() (result only inspected), S = `side` writes a record, P = its "
                 "peer writes a record; then ConnectionState() once more, MarshalBinary / UnmarshalBinary, close the "
                 "endpoint silently, resumeWithConfig on a fresh endpoint with the same address (the next generation "
                 "runs on the resumed connection); after the last resume `side` writes k and the peer m records. looks = "
                 "every ConnectionState() call with the internal state at that moment; all_wire = every record of `side`")
    looks_reported = set()
    for c in sorted(legs["looks"], key=lambda c: (sum(len(h) for h in c["histories"]), len(c["histories"]))):
        for mon, text in monitor_looks(c):
            if mon in looks_reported:
                continue
            looks_reported.add(mon)
            found_input = True
            chk.finding("conn.go ConnectionState / state.go generateState",
                        {"monitor": mon, "leg": "looks"},
                        "ConnectionState() called more than once on one connection (%s, histories %s): %s" % (
                            c["side"], c["histories"], text),
                        {"how": how_looks, "variant": c["variant"], "side": c["side"], "histories": c["histories"],
                         "k": c["k"], "m": c["m"],
                         "looks": [{k: l[k] for k in ("gen", "at", "export", "ok", "sent_before")} |
                                   {"returned_seq": l["got"].get("seq"), "local_epoch": l["state"]["local_epoch"],
                                    "local_seq": l["state"]["local_seq"]} for l in c["looks"]],
                         "all_wire": c["all_wire"], "sent_self": c["sent_self"], "got_peer": c["got_peer"],
                         "sent_peer": c["sent_peer"], "got_self": c["got_self"], "write_errs": c["write_errs"],
                         "rerun": rerun})
    for c in corrupt:
        if c["result"] == "panic":
            found_input = True
            chk.finding("state.go UnmarshalBinary / generateInternalState", {"monitor": "panic-on-corrupted-state"},
                        "panic on corrupted serialised state: %s" % c["panic"],
                        {"how": "State.UnmarshalBinary(bytes) then resumeWithConfig", "bytes_hex": c["hex"],
                         "mutation": c["mut"], "base": c["base"], "rerun": rerun})
            break
    # record numbers of a connection resumed from damaged bytes: the exporting connection has used every
    # number below its exported one in its local epoch
    def reused(c):
        o = c.get("orig") or {}
        post = [(w["e"], w["s"]) for w in (c.get("post_wire") or [])]
        old = [x for x in post if x[0] == o.get("local_epoch") and x[1] < o.get("seq", 0)]
        dup = sorted({x for x in post if post.count(x) > 1})
        return old, dup

    def corrupt_replay(c):
        b = bases.get((c["base"], c["side"]), {})
        return {"how": "UnmarshalBinary(bytes_hex) succeeds; resumeWithConfig from it against a peer resumed from "
                       "peer_state_hex (the untouched peer's own export); the resumed side writes k records (werrs = "
                       "the result of each Write), post_wire = (epoch, seq, content type) of what it put on the wire; "
                       "the exporting connection had used every number below original.seq in its local epoch",
                "mutation": c["mut"], "bytes_hex": c["hex"], "original_hex": b.get("orig_hex"),
                "peer_state_hex": b.get("peer_hex"), "base": c["base"], "side": c["side"], "original": c.get("orig"),
                "decoded": c.get("decoded"), "k": c.get("k"), "werrs": c.get("werrs"), "post_wire": c.get("post_wire"),
                "x2p": c["x2p"], "p2x": c["p2x"], "rerun": rerun}

    beyond = [c for c in corrupt if c["result"] in ("ok-same", "ok-diff") and c["decoded"]["seq"] > MAX_SEQ + 1]
    beyond.sort(key=lambda c: (0 if any(reused(c)) else 1, 0 if c["mut"].startswith("struct:") else 1, c["base"], c["mut"]))
    for c in beyond[:1]:
        old, dup = reused(c)
        found_input = True
        chk.finding(F74[0], F74[1],
                    "a serialised state with sequence number %d (the limit is 2^48 = %d) was accepted (authenticates the "
                    "peer's records: %s); writes: %s; records on the wire: %s%s" % (
                        c["decoded"]["seq"], MAX_SEQ + 1, c["p2x"], c["werrs"],
                        [(w["e"], w["s"]) for w in c["post_wire"]],
                        "" if not (old or dup) else "; REUSED numbers of the exporting connection (its next number was %d): %s"
                        % (c["orig"]["seq"], old or dup)), corrupt_replay(c))
    lowered = [c for c in corrupt if c["result"] == "ok-diff" and c["decoded"]["seq"] <= MAX_SEQ + 1 and any(reused(c))]
    lowered.sort(key=lambda c: (0 if c["diff"] == ["seq"] else 1, 0 if c["mut"].startswith("seqbyte") else 1,
                                0 if c["p2x"] else 1, c["base"], c["mut"]))
    for c in lowered[:1]:
        old, dup = reused(c)
        found_input = True
        chk.finding(SEQ_LOWERED[0], SEQ_LOWERED[1],
                    "damage that lowers the serialised sequence number (%d -> %d, mutation %s, decoded state differs in %s) "
                    "is accepted, the resumed connection authenticates the peer's records (%s) and re-sends record numbers "
                    "the exporting connection had used, under the same keys: %s (such cases this run: %d)" % (
                        c["orig"]["seq"], c["decoded"]["seq"], c["mut"], c["diff"], c["p2x"], old or dup, len(lowered)),
                    corrupt_replay(c))

    # K-C19-1: a session on a suite of the configuration's custom list
    for c in legs["custom"]:
        bad = [k for k in ("decode_err", "resume_err", "resume_cfg_err", "ekm_err") if c[k] != "ok"]
        if c["panic"] or not c["export_ok"] or c["marshal_err"] != "ok" or bad:
            found_input = True
            chk.finding(K1[0], K1[1],
                        "a session negotiated on a cipher suite of WithCustomCipherSuites (id %#x) is established and "
                        "ConnectionState() returns it (ok=%s, MarshalBinary: %s), but UnmarshalBinary of the untouched bytes: "
                        "%s; resumeWithConfig(State, config that lists the suite): %s; State.ExportKeyingMaterial: %s%s" % (
                            c["suite"], c["export_ok"], c["marshal_err"], c["decode_err"], c["resume_cfg_err"], c["ekm_err"],
                            "" if not c["panic"] else "; panic: " + c["panic"]),
                        {"how": "both sides customCipherSuites = TLS_PSK_WITH_AES_128_GCM_SHA256 under the private id 0xff19; "
                                "handshake; ConnectionState / MarshalBinary / UnmarshalBinary / generateInternalState / "
                                "resumeWithConfig / ExportKeyingMaterial on `side`", "case": c, "rerun": rerun})
            break

    # F73: ConnectionState() while the handshake runs
    probes = [c for c in legs["mid"] if c["kind"] == "midhandshake"]
    for c in probes:
        if c["outcome"] == 2:
            found_input = True
            chk.finding(F73[0], F73[1],
                        "ConnectionState() panicked while the handshake was between two steps: %s (at %r; local epoch %d, "
                        "LocalSequenceNumber %s)" % (c["panic"], c["at"], c["state"]["local_epoch"], c["state"]["local_seq"]),
                        {"how": "a LoggerFactory whose Trace/Tracef calls Conn.ConnectionState() (skipped when the "
                                "connection lock is held) on `side` of a handshake of `variant`: a deterministic stand-in for "
                                "a caller on another goroutine", "case": c, "rerun": rerun})
            break
    for c in legs["mid"]:
        if c["kind"] == "midsummary" and (not c["established"] or not c["probes"]):
            chk.broken("mid-handshake harness: handshake of %s (%s probed) established=%s probes=%d"
                       % (c["variant"], c["side"], c["established"], c["probes"]), "")

    # K-C19-2: the final flight is lost and its owner is exported
    for c in legs["final"]:
        recovered = c["peer_done"] and c["o2p"] and c["p2o"]
        if not c["owner_done"] or c["dropped"] != 1 or (not c["export"] and not recovered):
            chk.broken("final-flight harness: control run of %s does not recover from the lost final flight "
                       "(owner_done=%s dropped=%d peer_done=%s)" % (c["variant"], c["owner_done"], c["dropped"], c["peer_done"]),
                       str(c))
    for c in legs["final"]:
        if c["export"] and c["owner_done"] and not (c["peer_done"] and c["o2p"] and c["p2o"]):
            found_input = True
            chk.finding(K2[0], K2[1],
                        "the %s was exported and resumed right after its handshake completed (resume: %s, start: %s); its "
                        "final flight had been lost; the untouched peer retransmitted %d datagrams in 40 s and the resumed "
                        "connection wrote %s: the peer's handshake: %s; data owner->peer %s, peer->owner %s (the control "
                        "run without export recovers)" % (
                            c["owner"], c["resume_err"], c["start_err"], c["peer_retransmissions"],
                            [(w["e"], w["s"], w["ct"]) for w in c["owner_wire"]] or "nothing", c["peer_err"], c["o2p"], c["p2o"]),
                        {"how": "handshake of `variant`; the first datagram of `owner` that starts with ChangeCipherSpec is "
                                "dropped; once the owner's HandshakeContext returned nil: ConnectionState / MarshalBinary / "
                                "UnmarshalBinary / resumeWithConfig on a fresh endpoint; the peer keeps retransmitting",
                         "case": c, "control": [x for x in legs["final"] if x["variant"] == c["variant"] and not x["export"]],
                         "rerun": rerun})
            break

    # export near the sequence number limit: no number beyond 2^48 - 1, none twice, everything written arrives
    for c in legs["limit"]:
        nums = [(w["e"], w["s"]) for w in c["pre"] + c["post"]]
        bad = None
        if any(s_ > MAX_SEQ for _, s_ in nums):
            bad = "a record number beyond 2^48 - 1 was put on the wire"
        elif len(set(nums)) != len(nums):
            bad = "a record number was used twice"
        elif len(c["peer_got"]) != len(nums) or (c["resumed"] and c["p2x_sent"] and not c["p2x"]):
            bad = "a record that was written did not arrive (peer read %d of %d; peer->resumed delivered: %s)" % (
                len(c["peer_got"]), len(nums), c["p2x"])
        if bad:
            found_input = True
            chk.finding(SITE, {"monitor": "sequence", "leg": "limit"},
                        "export near the sequence number limit: %s; before the export %s, after the resume (%s) %s" % (
                            bad, [(w["e"], w["s"]) for w in c["pre"]], c["resume_err"], [(w["e"], w["s"]) for w in c["post"]]),
                        {"how": "establish `variant`, store 2^48 - a into LocalSequenceNumber[local epoch] of `side`, attempt i "
                                "writes, export / resume, attempt k writes, one write of the peer", "case": c, "rerun": rerun})
            break

    # "rejected or cannot authenticate": an accepted state that differs from the exported one and
    # whose connection still exchanges authenticated records with the peer
    live = [c for c in corrupt if c["result"] == "ok-diff" and (c["x2p"] or c["p2x"])]
    pref = ["alpn", "session_id", "hint", "certs", "mki", "profile", "rrc", "version", "seq"]
    live.sort(key=lambda c: (0 if c["x2p"] and c["p2x"] else 1,
                             pref.index(c["diff"][0]) if len(c["diff"]) == 1 and c["diff"][0] in pref else len(pref),
                             0 if c["mut"].startswith("flip") else 1, c["base"], c["mut"]))
    live_fields = {"fields outside the record-protection inputs": {}, "record-protection inputs": {}}
    first = {}
    for c in live:
        cls, why = protection_inputs_hit(c)
        k = ",".join(c["diff"])
        live_fields[cls][k] = live_fields[cls].get(k, 0) + 1
        if cls not in first:
            first[cls] = (c, why)
    for cls in ("record-protection inputs", "fields outside the record-protection inputs"):
        if cls not in first:
            continue
        c, why = first[cls]
        b = bases.get((c["base"], c["side"]), {})
        found_input = True
        chk.finding("state.go UnmarshalBinary (serializedState has no integrity check)",
                    {"monitor": "corrupted-state-accepted-and-authenticates", "differs_in": cls},
                    "corrupted serialised state is accepted and the resumed connection still exchanges authenticated "
                    "records (decoded state differs from the exported one in: %s%s; such cases this run: %s)"
                    % (",".join(c["diff"]), "" if not why else "; " + why, live_fields[cls]),
                    {"how": "UnmarshalBinary(bytes_hex) succeeds; resumeWithConfig from it against a peer resumed "
                            "from peer_state_hex (the untouched peer's own export): one record each way; x2p/p2x say "
                            "which were delivered",
                     "mutation": c["mut"], "bytes_hex": c["hex"], "original_hex": b.get("orig_hex"),
                     "peer_state_hex": b.get("peer_hex"), "base": c["base"], "side": c["side"],
                     "differs_in": c["diff"], "class": cls, "x2p": c["x2p"], "p2x": c["p2x"],
                     "fields_hit_in_this_run": live_fields[cls], "rerun": rerun})

    # export at VerifyConnection time: the captured State has local epoch 0 - it must not resume
    vcs = [c for c in legs["vc"] if c.get("captured")]
    for c in vcs:
        bad = None
        if c["panic"]:
            bad = "panic: %s" % c["panic"]
        elif c["marshal_err"] == "ok" and (c["resume_obj_err"] == "ok" or (c["decode_err"] == "ok" and c["resume_err"] == "ok")):
            bad = ("a State captured by VerifyConnection (local epoch %d, %d-byte master secret) was resumed; records it "
                   "wrote: %s" % (c["captured"]["local_epoch"], len(c["captured"]["master"]) // 2, c["wire"]))
        if bad:
            found_input = True
            chk.finding("state.go generateInternalState", {"monitor": "pre-key-state-resumed"}, bad,
                        {"how": "VerifyConnection callback copies its *State; after the handshake MarshalBinary / "
                                "UnmarshalBinary / resumeWithConfig on a fresh endpoint", "case": c, "rerun": rerun})
            break

    # observations outside the letter of C19 (evidence only)
    obs = {}
    rep = [c for c in main if c.get("replay_tried")]
    acc = [c for c in rep if c["replay_accepted"]]
    obs["replay_after_resume"] = {
        "what": "a record of the untouched peer that the original connection had already delivered is delivered "
                "again by the resumed connection (the replay window is not part of the exported state)",
        "tried": len(rep), "accepted_again": len(acc),
        "example": None if not acc else {"variant": acc[0]["variant"]["name"], "side": acc[0]["side"],
                                         "record": acc[0]["replay_wire"], "payload": acc[0]["replay_payload"],
                                         "datagram_hex": acc[0]["replay_hex"]}}
    chk.cov["observations"] = obs
    if acc:
        vlib.log("[c19] observation: %d/%d replays of already-delivered peer records accepted after resume"
                 % (len(acc), len(rep)))

    # ---------------- correspondence with the model, evaluated inside Coq
    ok_model, mout = vlib.coq_make(["theories/State/C19Run.vo"])
    if not ok_model:
        chk.broken("model State/C19Run.v no longer compiles", mout)
    else:
        # main
        ms = [c for c in main if c["export_ok"] and c["decode_err"] == "ok" and c["resume_err"] == "ok"]
        mterms = ["(%s, %s, %s, %s, %s, %s, %s, %s, %s, (%d, %d, %s, %s))" % (
            c_istate(c["before"]), c_pstate(c["exported"]), c_pstate(c["decoded"]), c_istate(c["after"]),
            c_istate(c["peer_state"]), c_pairs(c["pre_self"]), c_pairs(c["post_self"]),
            c_optbool(c["post_sent_self"], c["post_got_peer"]), c_optbool(c["post_sent_peer"], c["post_got_self"]),
            c["cfg_min"], c["cfg_max"], start_obs(c), cbool(c["early_state_ok"]))
            for c in ms]
        bad, err = vlib.coq_mismatches("c19m", IMPORTS, "main_case", "main_ok", mterms, shard=40)
        if bad is None:
            chk.broken("correspondence evaluation (main) failed in coqc", err)
        else:
            for i in bad[:1]:
                m = monitor_main(ms[i])
                chk.finding(SITE, {"monitor": "model-mismatch", "leg": "main"},
                            "export/import differs from State/C19Export.v model" + (": " + m[0][1] if m else ""),
                            {"case": ms[i], "correspondence": "State.C19Run.main_ok", "rerun": rerun},
                            no_input=(not m and not found_input))
        nontriv = [c for c in ms if (c["post_self"] or c["post_sent_peer"])]
        chk.count("main", len(main), [(c["variant"]["name"], c["i"], c["j"], c["k"], c["m"], c["side"],
                                       c["fresh_state_object"], c["inflight"]) for c in nontriv],
                  samples=[{k: c[k] for k in ("variant", "i", "j", "k", "m", "side", "pre_self", "post_self")}
                           for c in nontriv[-2:]])
        chk.cov["traces_validated_against_impl"] += len(main)
        variants = {}
        for c in main:
            v = c["variant"]["name"].split("/")[0]
            variants[v] = variants.get(v, 0) + 1
        chk.leg_info("main", suites=variants,
                     features={f: sum(1 for c in main if c["variant"][f]) for f in ("cid", "srtp", "mki", "alpn", "mutual", "sess", "vers")},
                     options_allow_dtls13={"dual-stack (negotiated with these options)": sum(1 for c in main if c["variant"]["vers"] == 1),
                                           "1.3 only (resume options)": sum(1 for c in main if c["variant"]["vers"] == 2),
                                           "refused at the first Handshake (1.3 only)": sum(1 for c in main if options_exclude_dtls12(c))},
                     sides={s: sum(1 for c in main if c["side"] == s) for s in ("client", "server")},
                     exhaustive="every (i,j) in 0..3 x 0..3 on both sides for %d variants" % (34 if chk.tier == "thorough" else 3),
                     abbreviated_handshakes=sum(1 for c in main if c["variant"]["sess"] == 2))

        # corruption
        cs = [c for c in corrupt if c.get("decoded") or c.get("input")]
        cterms = []
        for c in cs:
            dec_ok = c["result"] in ("ok-same", "ok-diff", "err-resume", "err-start")
            cterms.append("(%s, %s, %s, %s, %s, %s, %s, %d, %s)" % (
                "None" if not c.get("input") else "(Some %s)" % c_sstate(c["input"]),
                cbool(dec_ok), c_pstate(c.get("decoded") or ZERO_P), c_pstate(c.get("peer") or ZERO_P),
                cbool(c["result"] in ("ok-same", "ok-diff")), cbool(c["x2p"]), cbool(c["p2x"]),
                c.get("k") or 0, c_pairs(c.get("post_wire"))))
        bad, err = vlib.coq_mismatches("c19c", IMPORTS, "corrupt_case", "corrupt_ok", cterms, shard=60)
        if bad is None:
            chk.broken("correspondence evaluation (corrupt) failed in coqc", err)
        else:
            for i in bad[:1]:
                c = cs[i]
                chk.finding("state.go UnmarshalBinary / generateInternalState", {"monitor": "model-mismatch", "leg": "corrupt"},
                            "treatment of a corrupted state differs from State/C19Export.v model (mutation %s, result %s, "
                            "x2p=%s p2x=%s, differs in %s, records written %s)" % (
                                c["mut"], c["result"], c["x2p"], c["p2x"], c["diff"],
                                [(w["e"], w["s"]) for w in (c.get("post_wire") or [])]),
                            {"case": c, "correspondence": "State.C19Run.corrupt_ok", "rerun": rerun},
                            no_input=not found_input)
        results = {}
        for c in corrupt:
            results[c["result"]] = results.get(c["result"], 0) + 1
        chk.count("corrupt", len(corrupt), [(c["base"], c["mut"]) for c in corrupt if c["result"] != "err" or c.get("input")],
                  samples=[{k: c.get(k) for k in ("base", "mut", "result", "diff", "x2p", "p2x")}
                           for c in corrupt if c["result"] == "ok-diff"][-2:])
        chk.leg_info("corrupt", results=results, bases=sorted({c["base"] for c in corrupt}),
                     truncations="every prefix of each base state",
                     accepted_and_live_by_class_and_field=live_fields)

        # export at VerifyConnection time
        vterms = ["(%s, %s, %s)" % (c_pstate(c["captured"]), cbool(c["decode_err"] == "ok"),
                                     cbool(c["decode_err"] == "ok" and c["resume_err"] == "ok"))
                  for c in vcs if c["marshal_err"] == "ok"]
        bad, err = vlib.coq_mismatches("c19v", IMPORTS, "vc_case", "vc_ok", vterms)
        if bad is None:
            chk.broken("correspondence evaluation (verifyconn) failed in coqc", err)
        else:
            for i in bad[:1]:
                c = [c for c in vcs if c["marshal_err"] == "ok"][i]
                chk.finding("state.go generateInternalState", {"monitor": "model-mismatch", "leg": "verifyconn"},
                            "treatment of a State captured by VerifyConnection differs from State/C19Export.v model "
                            "(decode=%s resume=%s)" % (c["decode_err"], c["resume_err"]),
                            {"case": c, "correspondence": "State.C19Run.vc_ok", "rerun": rerun}, no_input=not found_input)
        chk.count("verifyconn", len(legs["vc"]), [(c["variant"]["name"], c["side"]) for c in vcs],
                  samples=[{k: c[k] for k in ("variant", "side", "called", "decode_err", "resume_err")} for c in vcs[:2]])
        chk.leg_info("verifyconn", callback_not_run=sum(1 for c in legs["vc"] if not c.get("captured")),
                     refused=sum(1 for c in vcs if c["resume_err"] not in ("ok", "")))

        # export near the sequence number limit
        lim = legs["limit"]
        lterms = ["(%s, %d, %s, %s, %s, %s, %d, %s, %s)" % (
            cNlist(c["st0"]), c["i"], c_istate(c["before"]), c_istate(c["peer"]), c_pairs(c["pre"]), cbool(c["resumed"]),
            c["k"], c_pairs(c["post"]), "None" if not (c["resumed"] and c["p2x_sent"]) else "(Some %s)" % cbool(c["p2x"]))
            for c in lim]
        bad, err = vlib.coq_mismatches("c19l", IMPORTS, "limit_case", "limit_ok", lterms, shard=60)
        if bad is None:
            chk.broken("correspondence evaluation (limit) failed in coqc", err)
        else:
            for i in bad[:1]:
                c = lim[i]
                chk.finding(SITE, {"monitor": "model-mismatch", "leg": "limit"},
                            "export near the sequence number limit differs from State/C19Export.v model (counter moved to "
                            "2^48 - %d, %d writes: %s; counter at the export 2^48 %+d; resume: %s; %d writes after: %s)" % (
                                c["a"], c["i"], c["pre_errs"], c["before"]["local_seq"][c["before"]["local_epoch"]] - (1 << 48),
                                c["resume_err"], c["k"], c["post_errs"]),
                            {"case": c, "correspondence": "State.C19Run.limit_ok", "rerun": rerun}, no_input=not found_input)
        chk.count("limit", len(lim), [(c["variant"], c["side"], c["a"], c["i"]) for c in lim],
                  samples=[{k: c[k] for k in ("variant", "side", "a", "i", "pre", "resume_err", "post", "post_errs")} for c in lim[5:7]])
        chk.leg_info("limit", refused_beyond_limit=sum(1 for c in lim if c["resume_err"] == "sequence number overflow"),
                     resumed=sum(1 for c in lim if c["resumed"]),
                     exhaustive="counter 2^48 - a for a in 0..4 x i in 0..3 writes before the export x both sides x %d variants"
                                % len({c["variant"] for c in lim}))

        # ConnectionState() while the handshake runs
        pterms = ["(%s, %d, %s)" % (c_istate(c["state"]), c["outcome"], c_pstate(c.get("got") or ZERO_P)) for c in probes]
        bad, err = vlib.coq_mismatches("c19p", IMPORTS, "mid_case", "mid_ok", pterms, shard=60)
        if bad is None:
            chk.broken("correspondence evaluation (mid-handshake) failed in coqc", err)
        else:
            for i in bad[:1]:
                c = probes[i]
                chk.finding(F73[0], {"monitor": "model-mismatch", "leg": "mid-handshake"},
                            "ConnectionState() during the handshake differs from generateState of State/C19Export.v "
                            "(outcome %d at %r, local epoch %d, LocalSequenceNumber %s)" % (
                                c["outcome"], c["at"], c["state"]["local_epoch"], c["state"]["local_seq"]),
                            {"case": c, "correspondence": "State.C19Run.mid_ok", "rerun": rerun}, no_input=not found_input)
        window = [c for c in probes if c["state"]["suite"] and c["state"]["local_epoch"] >= len(c["state"]["local_seq"])]
        chk.count("mid-handshake", len(probes), [(c["variant"], c["side"], c["at"]) for c in probes if c["state"]["suite"]],
                  samples=[{"variant": c["variant"], "side": c["side"], "at": c["at"], "outcome": c["outcome"],
                            "local_epoch": c["state"]["local_epoch"], "local_seq": c["state"]["local_seq"]} for c in window[:2]])
        chk.leg_info("mid-handshake", probes_in_the_epoch_switch_window=len(window),
                     outcomes={k: sum(1 for c in probes if c["outcome"] == v) for k, v in
                               (("state", 0), ("not available", 1), ("panic", 2))})
        if not window:
            chk.broken("mid-handshake harness no longer reaches the window between SetLocalEpoch and the first record "
                       "of the epoch", "")
        chk.count("final-flight", len(legs["final"]), [(c["variant"], c["owner"], c["export"]) for c in legs["final"]],
                  samples=[{k: c[k] for k in ("variant", "owner", "export", "peer_done", "o2p", "p2o")} for c in legs["final"][:2]])

        # several ConnectionState() calls on one connection: every call against generateState of the state at
        # that moment (mid_ok), every generation's history against the model's [export] run on it (looks_ok)
        lk = legs["looks"]
        calls = [(c, l) for c in lk for l in c["looks"]]
        qterms = ["(%s, %d, %s)" % (c_istate(l["state"]), 0 if l["ok"] else 1, c_pstate(l["got"] if l["ok"] else ZERO_P))
                  for _, l in calls]
        bad, err = vlib.coq_mismatches("c19q", IMPORTS, "mid_case", "mid_ok", qterms, shard=60)
        hist = [t for c in lk for t in looks_terms(c)]
        bad2, err2 = vlib.coq_mismatches("c19h", IMPORTS, "looks_case", "looks_ok", [t for t, _ in hist], shard=60)
        if bad is None or bad2 is None:
            chk.broken("correspondence evaluation (looks) failed in coqc", err if bad is None else err2)
        else:
            for i in bad[:1]:
                c, l = calls[i]
                m = monitor_looks(c)
                chk.finding("conn.go ConnectionState / state.go generateState", {"monitor": "model-mismatch", "leg": "looks"},
                            "ConnectionState() call %d of generation %d (histories %s, %s) differs from generateState of "
                            "the connection's state at that moment (State/C19Export.v export): returned sequence number "
                            "%s, LocalSequenceNumber %s%s" % (
                                l["at"], l["gen"], c["histories"], c["side"], l["got"].get("seq"), l["state"]["local_seq"],
                                ": " + m[0][1] if m else ""),
                            {"case": {k: c[k] for k in ("variant", "side", "histories", "k", "m", "all_wire", "sent_self",
                                                        "got_peer", "sent_peer", "got_self")}, "call": l,
                             "correspondence": "State.C19Run.mid_ok", "rerun": rerun},
                            no_input=(not m and not found_input))
            for i in (bad2[:1] if not bad else []):
                c, g = hist[i][1]
                m = monitor_looks(c)
                chk.finding("conn.go ConnectionState / state.go generateState", {"monitor": "model-mismatch", "leg": "looks-history"},
                            "the sequence numbers returned by the ConnectionState() calls of generation %d (histories %s, %s) "
                            "differ from the model's export run on the same history%s" % (
                                g, c["histories"], c["side"], ": " + m[0][1] if m else ""),
                            {"case": {k: c[k] for k in ("variant", "side", "histories", "k", "m", "all_wire")},
                             "calls": [l for l in c["looks"] if l["gen"] == g],
                             "correspondence": "State.C19Run.looks_ok", "rerun": rerun},
                            no_input=(not m and not found_input))
        multi = [c for c in lk if c["complete"] and any(sum(1 for l in c["looks"] if l["gen"] == g) > 1
                                                         for g in range(len(c["histories"])))]
        chk.count("looks", len(lk), [(c["variant"]["name"], c["side"], tuple(c["histories"]), c["k"], c["m"]) for c in multi],
                  samples=[{"variant": c["variant"]["name"], "side": c["side"], "histories": c["histories"],
                            "returned_seq": [l["got"].get("seq") for l in c["looks"]]} for c in multi[-2:]])
        chk.cov["traces_validated_against_impl"] += len(lk)
        chk.leg_info("looks", connectionstate_calls=len(calls), histories_compared_with_model=len(hist),
                     generations={n: sum(1 for c in lk if len(c["histories"]) == n) for n in (1, 2, 3)},
                     sides={s_: sum(1 for c in lk if c["side"] == s_) for s_ in ("client", "server")},
                     look_then_sends_then_export=sum(1 for c in lk if any(
                         "L" in h and "S" in h[h.index("L"):] for h in c["histories"])))
        if not multi:
            chk.broken("looks harness: no history with more than one ConnectionState() call on one connection completed", "")

        # suite table
        sterms = ["(%d, %s, %s, %s, %s, %d)" % (c["id"], cbool(c["known"]), cbool(c["v13"]), cbool(c["init_ok"]),
                                                  cbool(c["resume"]), c["hash"]) for c in suites]
        bad, err = vlib.coq_mismatches("c19s", IMPORTS, "suite_case", "suite_ok", sterms)
        if bad is None:
            chk.broken("correspondence evaluation (suites) failed in coqc", err)
        else:
            for i in bad[:1]:
                chk.finding("state.go initializedCipherSuite", {"monitor": "model-mismatch", "leg": "suites"},
                            "ciphersuite.ForID table differs from suite_table in State/C19Export.v",
                            {"case": suites[i], "correspondence": "State.C19Run.suite_ok"}, no_input=not found_input)
        chk.count("suites", len(suites), [c["id"] for c in suites if c["known"]],
                  samples=[c for c in suites if c["known"]][:2])

    if not proved:
        where, out = getattr(chk, "proof_error", ("?", ""))
        if not found_input:
            chk.broken("proof obligation Properties/C19.v no longer checks (%s)" % where, out)
    chk.finish(
        level="proof",
        rule="main: real handshakes in a synctest bubble for every DTLS 1.2 suite of the library (PSK, ECDHE-PSK, ECDSA, RSA; "
             "GCM/CCM/CCM-8/CBC/ChaCha20) x {plain, CID+SRTP+MKI+ALPN+client-auth+session-id}, every (i,j)<=3 grid on both "
             "sides, generated feature/export-point combinations (incl. > 64 records, abbreviated handshakes, one-sided CID); "
             "plus sessions whose exported side has options that allow DTLS 1.3 (dual stack against a 1.2-only peer, or 1.3-only "
             "resume options); the Conn is also observed between Resume and its first I/O; "
             "non-trivial = the resumed connection or its peer wrote at least one record; distinct by (variant, i, j, k, m, side). "
             "corrupt: every truncation, generated bit/byte damage and ~90 field-level mutations of 3 (6 thorough) exported states, "
             "each resumed against the peer's own export, the resumed side then writes 3 records whose numbers are compared "
             "with the model's sender and with the numbers the exporting connection had used (incl. every smaller value of the "
             "byte that encodes the sequence number); non-trivial = decoded, or refused by a modelled rule. "
             "limit: the record counter of a live connection is moved to 2^48 - a, i writes, export/resume, 3 writes: numbers on "
             "the wire, refusal above 2^48. mid-handshake: ConnectionState() from every trace line of the handshake (both sides, "
             "full and abbreviated) against the model's generateState, incl. the window between SetLocalEpoch and the first record. "
             "final-flight: the owner of the lost final flight is exported/resumed (control: not exported). "
             "verifyconn: the State handed to a VerifyConnection callback (local epoch 0), on both sides of 6 variants (34 thorough): "
             "serialises and decodes, must be refused by the import. "
             "looks: histories over {look = ConnectionState() inspected only, record from the exported side, record from the peer} "
             "with ConnectionState() called more than once on the same connection, 1..3 generations (the export at the end of "
             "each is serialised and resumed, the next generation runs on the resumed connection), both sides, fixed shapes + "
             "generated; every call against generateState of the state at that moment, every generation against the model's "
             "export run on its history; monitors: no record number twice over all incarnations, both directions deliver, same "
             "exporter values and parameters at every call; non-trivial = a completed history with > 1 call on one connection. "
             "suites: every 16-bit id known to ForID plus sampled unknown ids.",
        assumptions=[
            "gob (Go standard library) round-trips a serializedState value; byte-level damage that gob rejects is observed, not modelled",
            "the key block / PRF are uninterpreted functions of exactly the arguments the code passes (premises of the theorems); "
            "'different key inputs => records do not authenticate' is an idealisation used only by the link predicate `delivers`",
            "the replay window (pion/transport) is modelled by Rec/Window.v (C06)",
            "uint64 counter wrap needs 2^64 sends on one connection: premise of seq_continues",
        ],
        explanation="Observation outside the letter of C19 recorded under coverage.observations: replay of already "
                    "delivered records after a resume (C06/C09).")
