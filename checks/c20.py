"""C20 DTLS 1.3 key updates: theorems Properties/C20.v + correspondence of Ku/C20KeyUpdate.v with real
client/server pairs driven datagram by datagram in a synctest bubble (every step's emitted records,
reads, UpdateKeys completions and epochs compared with the model evaluated in Coq), plus
implementation-side monitors = the property's own statements on the serial and the concurrent runs."""
import collections

import vlib
from vlib import cN, clist, cbool

IMPORTS = "From DtlsV Require Import Lib.Bytes Rec.Window Rec.WindowRun Ku.C20KeyUpdate Ku.C20Run."
SIDE = {"client": "A", "server": "B", 0: "A", 1: "B"}


# ----------------------------------------------------------------- Coq terms

def pay_num(payload):
    try:
        return int(payload[1:].split("-")[0]) if payload.startswith("p") else 999999
    except ValueError:
        return 999999


def ckind(r):
    if r["kind"] == "app":
        return "(App %d)" % pay_num(r["payload"])
    if r["kind"] == "ku":
        return "(KU %d %s)" % (r["msg"], cbool(r["req"]))
    if r["kind"] == "ack":
        return "(Ack %s)" % clist(["(%d,%d)" % (e, q) for e, q in (r["acks"] or [])])
    return None


def crec(r):
    return "(rc %s %d %d %d %s)" % (SIDE[r["from"]], r["epoch"], r["elow"], r["seq"], ckind(r))


def cop(tr, st):
    s = SIDE[st["side"]] if st["side"] else "A"
    if st["op"] == "uk":
        return "(OpUpdate %s %s %d)" % (s, cbool(st["req"]), st["id"])
    if st["op"] == "w":
        return "(OpWrite %s %d)" % (s, st["id"])
    if st["op"] in ("d", "x"):
        return "(OpDeliver %s %s)" % (s, crec(tr["recs"][st["rec"]]))
    if st["op"] == "t":
        return "(OpTimer %s)" % s
    raise ValueError(st["op"])


def cobs(tr, st):
    sent = clist(["(%s,%d,%d,%s)" % (SIDE[tr["recs"][i]["from"]], tr["recs"][i]["epoch"], tr["recs"][i]["seq"],
                                      ckind(tr["recs"][i])) for i in st["sent"]])
    read = clist(["(%s,%d)" % (SIDE[a], p) for a, p in st["read"]])
    done = clist(["(%s,%d)" % (SIDE[a], i) for a, i in st["done"]])
    e = st["epochs"]
    return "(mkobs %s %s %s (%d,%d,%d,%d))" % (sent, read, done, e[0], e[1], e[2], e[3])


def modelable(tr):
    """every record of the run has a kind the model knows and every timer step has a side"""
    for r in tr["recs"]:
        if ckind(r) is None:
            return "record kind %s (datagram %d from %s)" % (r["kind"], r["dg"], r["from"])
    for st in tr["steps"]:
        if st["op"] == "t" and not st["side"]:
            return "timer step without emission but with output"
    return None


def cterm(tr):
    c = tr["cfg"]
    sh = c.get("shadow") or [[], []]
    cfg = "(cfgs %d%%nat %d %d %d %d %s %s %s %s)" % (
        c["w"], c["base"][0], c["base"][1], c["wseq"][0], c["wseq"][1],
        clist([cN(x) for x in c["pre"][0]]), clist([cN(x) for x in c["pre"][1]]),
        clist([cN(x) for x in sh[0] or []]), clist([cN(x) for x in sh[1] or []]))
    steps = clist(["(%s, %s)" % (cop(tr, st), cobs(tr, st)) for st in tr["steps"]])
    return "(%s, %s)" % (cfg, steps)


# ----------------------------------------------------------------- monitors (the property's own statements)

SITE = "post-handshake key update (post_handshake.go / traffic_keys.go / conn.go receive path)"
# known finding K-C20-1: reassembly is keyed by message_seq only and fed by unprotected records during the handshake
SITE_SHADOW = "internal/fragmentbuffer Push/Pop + conn.go bufferHandshakeRecord (post-handshake KeyUpdate shadowed by an " \
              "unauthenticated fragment planted during the handshake)"
MON_SHADOW = "keyupdate-acked-not-applied"


def finding_key(tr, m):
    """(site, signature) of a monitor result on a trace"""
    if m[0] == MON_SHADOW:
        return SITE_SHADOW, {"monitor": MON_SHADOW}
    return SITE, {"monitor": m[0], "variant": tr["variant"]}


def describe_write_ahead(tr, k, a):
    """side a's write epoch overtook its peer's read epoch in step k: say which KeyUpdate was acknowledged
    without being applied and what happened to the payloads written afterwards"""
    recs, steps = tr["recs"], tr["steps"]
    st = steps[k]
    e = st["epochs"]
    w, r = (e[0], e[3]) if a == 0 else (e[2], e[1])
    me = "client" if a == 0 else "server"
    txt = "step %d: %s now writes under epoch %d while %s's receive epoch is %d" % (k, SIDE[a], w, SIDE[1 - a], r)
    calls = [cid for aa, cid in st["done"] if aa == a]
    if calls:
        txt += "; UpdateKeys call %d of %s returned nil" % (calls[0], SIDE[a])
    if st["op"] == "d" and recs[st["rec"]]["kind"] == "ack":
        named = [(ee, qq) for ee, qq in recs[st["rec"]]["acks"] or []]
        kus = [rj for rj in recs if rj["kind"] == "ku" and rj["from"] == me and (rj["epoch"], rj["seq"]) in named]
        if kus:
            txt += " on an ACK naming record (epoch %d, seq %d) = KeyUpdate message %d, which %s acknowledged " \
                   "without applying it" % (kus[0]["epoch"], kus[0]["seq"], kus[0]["msg"], SIDE[1 - a])
    pl = tr["cfg"].get("plant")
    if pl:
        txt += " (an unprotected epoch-0 fragment {type 24, message_seq %d, %s} was sent to the %s after genuine " \
               "datagram %d of the handshake)" % (pl["msg"], "complete" if pl["form"] == 0 else "first byte of 2",
                                                   pl["victim"], pl["after"])
    handed = lost = 0
    for st2 in steps[k + 1:]:
        if st2["op"] == "d" and recs[st2["rec"]]["from"] == me and recs[st2["rec"]]["kind"] == "app" \
                and recs[st2["rec"]]["epoch"] >= w:
            handed += 1
            if not st2["read"]:
                lost += 1
    txt += "; afterwards %d application records of %s reached %s over the network, %d were never read" % (
        handed, SIDE[a], SIDE[1 - a], lost)
    return txt


def monitor_trace(tr):
    """returns None or (monitor name, description) for a serial trace"""
    recs = tr["recs"]
    written = [collections.Counter(), collections.Counter()]   # payloads sealed in app records per sender
    readc = [collections.Counter(), collections.Counter()]
    last_epoch = [3, 3]
    delivered_to_peer = set()        # record indices that have been handed to their destination
    parked = [dict(), dict()]        # per receiver: payload -> early (harness-sealed) record that arrived, unread
    W = tr["cfg"]["w"]
    accepted = [collections.defaultdict(set), collections.defaultdict(set)]   # per receiver, per epoch: accepted seqs
    for a in (0, 1):
        accepted[a][3] = set(tr["cfg"]["pre"][a])
    for k, st in enumerate(tr["steps"]):
        if st["errs"]:
            return "call-error", "step %d: %s" % (k, "; ".join(st["errs"]))
        e = st["epochs"]
        for i, w in ((0, e[0]), (1, e[2])):
            if w < last_epoch[i] or w > last_epoch[i] + 1:
                return "send-epoch", "step %d: write epoch of %s went %d -> %d" % (k, SIDE[i], last_epoch[i], w)
            last_epoch[i] = w
        for i in st["sent"]:
            r = recs[i]
            a = 0 if r["from"] == "client" else 1
            if r["epoch"] != (e[0], e[2])[a] and r["epoch"] != (e[0], e[2])[a] - 1:
                return "send-epoch", "step %d: %s emitted a record under epoch %d while its write epoch is %d" % (
                    k, SIDE[a], r["epoch"], (e[0], e[2])[a])
            if r["elow"] != r["epoch"] % 4:
                return "epoch-bits", "step %d: record of epoch %d carries epoch bits %d" % (k, r["epoch"], r["elow"])
            if r["kind"] == "app":
                written[a][pay_num(r["payload"])] += 1
        dst = None
        if st["op"] in ("d", "x"):
            dst = 0 if st["side"] == "client" else 1
        if st["op"] == "x":
            r = recs[st["rec"]]
            written[1 - dst][pay_num(r["payload"])] += 1
            parked[dst].setdefault(pay_num(r["payload"]), r)
        for a, p in st["read"]:
            readc[a][p] += 1
            if st["op"] not in ("d", "x") or a != dst:
                return "read-without-arrival", "step %d: %s read payload %d without a datagram arriving" % (k, SIDE[a], p)
            r = recs[st["rec"]]
            if not (r["kind"] == "app" and pay_num(r["payload"]) == p):
                # a parked early record may be released by the arrival that authorises its epoch
                r = parked[a].get(p)
                if r is None:
                    return "modified", "step %d: %s read payload %d, which no arrived record carries" % (k, SIDE[a], p)
            if readc[a][p] > written[1 - a][p]:
                return "delivered-twice", "step %d: %s read payload %d %d times, sealed %d times" % (
                    k, SIDE[a], p, readc[a][p], written[1 - a][p])
            ra = (e[1], e[3])[a]   # receive epoch AFTER the step
            if r["epoch"] > ra:
                return "unauthorised-epoch", "step %d: %s accepted a record of epoch %d with receive epoch %d" % (
                    k, SIDE[a], r["epoch"], ra)
        for a, cid in st["done"]:
            # UpdateKeys returns nil only in the step in which an ACK for one of the caller's KeyUpdate
            # records arrives, and the peer has been handed that record before
            ok = False
            if st["op"] == "d" and dst == a and recs[st["rec"]]["kind"] == "ack":
                for (ee, qq) in recs[st["rec"]]["acks"] or []:
                    for j in delivered_to_peer:
                        rj = recs[j]
                        if rj["kind"] == "ku" and SIDE[rj["from"]] == SIDE[a] and rj["epoch"] == ee and rj["seq"] == qq:
                            ok = True
            if not ok:
                return "update-before-ack", "step %d: UpdateKeys call %d of %s returned nil without an ACK of its " \
                                            "KeyUpdate arriving (op %s)" % (k, cid, SIDE[a], st["op"])
        # success of UpdateKeys means the peer has the new generation: a side never writes under an epoch its
        # peer has not authorised (C20_epochs_in_step); otherwise everything it writes from now on is lost
        for a, (w, r) in ((0, (e[0], e[3])), (1, (e[2], e[1]))):
            if w > r:
                return MON_SHADOW, describe_write_ahead(tr, k, a)
        if st["op"] in ("d", "x"):
            # delivered if it arrives in time: a record whose generation the receiver holds (and has authorised),
            # not accepted before, ahead of or fewer than W behind the newest accepted number of its epoch
            r = recs[st["rec"]]
            acc = accepted[dst][r["epoch"]]
            newest = max(acc) if acc else 0
            fresh = r["seq"] not in acc and (r["seq"] > newest or newest - r["seq"] < W)
            if st["retained"] and fresh:
                acc.add(r["seq"])
                if r["kind"] == "app" and (dst, pay_num(r["payload"])) not in [tuple(x) for x in st["read"]]:
                    return "arrived-not-delivered", "step %d: application record (epoch %d, seq %d) reached %s while " \
                        "its generation was installed and inside the window (newest %d) but was not delivered" % (
                            k, r["epoch"], r["seq"], SIDE[dst], newest)
            for a, p in st["read"]:
                pr = parked[a].get(p)
                if pr is not None and not (r["kind"] == "app" and pay_num(r["payload"]) == p):
                    accepted[a][pr["epoch"]].add(pr["seq"])   # a parked record was released
        if st["op"] == "d":
            delivered_to_peer.add(st["rec"])
    if tr["pending_calls"]:
        return "update-stranded", "%d UpdateKeys calls never returned although the network finally delivered " \
                                  "everything and 40 x 61 s passed" % tr["pending_calls"]
    if not all(tr["chain"]):
        return "successor-chain", "a generation's secret is not Expand-Label(previous, \"traffic upd\") %s" % tr["chain"]
    if not all(tr["agree"]):
        return "generation-agreement", "reader and writer disagree on a generation's secret %s" % tr["agree"]
    return None


def monitor_conc(c):
    """property statements on a concurrent run (no model replay)"""
    recs = c["recs"]
    if c["unopened"]:
        return "harness", "%d datagrams could not be opened with the sender's keys" % c["unopened"]
    if c["write_errs"]:
        return "call-error", "Write failed: %s" % c["write_errs"][0]
    if c.get("bulk", 0) != c.get("bulk_read", 0):
        return "arrived-not-delivered", "%d of the %d records of the long first epoch (perfect network) were read" % (
            c.get("bulk_read", 0), c.get("bulk", 0))
    sealed = [collections.Counter(), collections.Counter()]
    last = {"client": 3, "server": 3}
    for r in recs:
        if r["kind"] in ("unopenable", "plaintext", "unparsable"):
            continue
        if r["epoch"] < last[r["from"]] or r["epoch"] > last[r["from"]] + 1:
            return "send-epoch", "%s emitted epoch %d after epoch %d (datagram %d)" % (
                SIDE[r["from"]], r["epoch"], last[r["from"]], r["dg"])
        last[r["from"]] = r["epoch"]
        if r["elow"] != r["epoch"] % 4:
            return "epoch-bits", "record of epoch %d carries epoch bits %d" % (r["epoch"], r["elow"])
        if r["kind"] == "app":
            sealed[0 if r["from"] == "client" else 1][pay_num(r["payload"])] += 1
    wr = [collections.Counter(), collections.Counter()]
    for a, p in c["written"]:
        wr[a][p] += 1
    rd = [collections.Counter(), collections.Counter()]
    for a, p in c["reads"]:
        rd[a][p] += 1
    for a in (0, 1):
        for p, n in rd[a].items():
            if n > wr[1 - a][p] or n > sealed[1 - a][p]:
                return "delivered-twice-or-modified", "%s read payload %d %d times; the peer wrote it %d times" % (
                    SIDE[a], p, n, wr[1 - a][p])
    # every application record handed over at least once is read exactly once (holds are < 13 deliveries,
    # far inside the 64-record window, and every generation stays installed)
    arrived = [collections.Counter(), collections.Counter()]
    seen = set()
    for d in c["delivered"]:
        r = recs[d["rec"]]
        if r["kind"] == "app" and d["rec"] not in seen and d["retained"]:
            seen.add(d["rec"])
            arrived[1 if r["from"] == "client" else 0][pay_num(r["payload"])] += 1
    for a in (0, 1):
        for p, n in arrived[a].items():
            if rd[a][p] != n:
                return "arrived-not-delivered", "%s was handed payload %d in %d records but read it %d times" % (
                    SIDE[a], p, n, rd[a][p])
    # UpdateKeys: nil only after the peer got a KeyUpdate record and an ACK naming it came back
    for call in c["calls"]:
        if call["err"] != "ok":
            return "call-error", "UpdateKeys at %s returned %s" % (SIDE[call["side"]], call["err"])
    if c["unreturned"]:
        return "update-stranded", "%d UpdateKeys calls never returned although the network healed" % c["unreturned"]
    for a in (0, 1):
        me = "client" if a == 0 else "server"
        times = sorted(x["t_ms"] for x in c["calls"] if x["side"] == a)
        got_ku = {}      # (epoch, seq) of own KeyUpdate records handed to the peer -> msg
        acked_at = {}    # msg -> time of the first ACK (handed to me) naming a record the peer had got
        for d in c["delivered"]:
            r = recs[d["rec"]]
            if r["from"] == me and r["kind"] == "ku":
                got_ku[(r["epoch"], r["seq"])] = r["msg"]
            if r["from"] != me and r["kind"] == "ack":
                for ee, qq in r["acks"] or []:
                    if (ee, qq) in got_ku:
                        acked_at.setdefault(got_ku[(ee, qq)], d["t_ms"])
        ack_times = sorted(acked_at.values())
        for n, tt in enumerate(times):
            if n >= len(ack_times) or ack_times[n] > tt:
                return "update-before-ack", "UpdateKeys return number %d of %s at t=%d ms precedes the arrival of the " \
                                            "ACK of its %d-th acknowledged KeyUpdate" % (n, SIDE[a], tt, n + 1)
    e = c["epochs"]
    if e[0] != e[3] or e[2] != e[1]:
        return "epochs-out-of-step", "after healing: write/read epochs client %d/%d server %d/%d" % (e[0], e[1], e[2], e[3])
    if not all(c["chain"]):
        return "successor-chain", "a generation's secret is not Expand-Label(previous, \"traffic upd\") %s" % c["chain"]
    if not all(c["agree"]):
        return "generation-agreement", "reader and writer disagree on a generation's secret %s" % c["agree"]
    return None


# ----------------------------------------------------------------- leg pend (KeyUpdate while another reliable flight is pending)

SITE_PEND = "internal/handshake/post_handshake.go startQueuedPostHandshake / retransmitPostHandshakeFlight (KeyUpdate " \
            "while another reliable post-handshake flight of the same endpoint is unacknowledged)"
PEND_OPAQUE = ("plaintext", "unparsable", "handshake", "unopenable")


def monitor_pend(c):
    """C20's own predicates on the ordered event log of one pend case: None or (monitor, description)"""
    recs = c["recs"]
    last = {"client": (0, None), "server": (0, None)}
    written = {"client": set(c["written"][0]), "server": set(c["written"][1])}
    other = {"client": "server", "server": "client"}
    reads = {"client": collections.Counter(), "server": collections.Counter()}
    owed = []   # (payload, reader, call id, writer): written right after UpdateKeys returned nil, not yet read
    for k, e in enumerate(c["evs"]):
        ev = e["ev"]
        if ev in ("ukerr", "werr"):
            return "call-error", "event %d: %s of %s failed: %s" % (k, "UpdateKeys" if ev == "ukerr" else "Write", e["side"], e["err"])
        if ev == "emit":
            r = recs[e["rec"]]
            if r["kind"] in PEND_OPAQUE:
                continue
            if r["kind"] == "alert":
                return "alert", "event %d: %s emitted an alert" % (k, r["from"])
            le, lk = last[r["from"]]
            if r["epoch"] < le:
                return "send-epoch-decreased", (
                    "event %d (t=%d ms): %s emitted a %s record (seq %d%s) under epoch %d after it had already sent a "
                    "record under epoch %d (event %d): the sending epoch decreased"
                    % (k, e["t_ms"], r["from"], r["kind"], r["seq"],
                       ", message_seq %d" % r["msg"] if r["msg"] >= 0 else "", r["epoch"], le, lk))
            if r["epoch"] > le:
                last[r["from"]] = (r["epoch"], k)
            if r["elow"] != r["epoch"] % 4:
                return "epoch-bits", "event %d: record of epoch %d carries epoch bits %d" % (k, r["epoch"], r["elow"])
        ep = e["epochs"]
        if any(ep):
            for who, w, rd in (("client", ep[0], ep[3]), ("server", ep[2], ep[1])):
                if w > rd:
                    return "update-committed-before-peer-processed", (
                        "event %d (t=%d ms, %s): %s writes under epoch %d while %s has only authorised receive epoch %d: "
                        "its KeyUpdate was acknowledged (and UpdateKeys may return nil) although the peer has not "
                        "processed it" % (k, e["t_ms"], ev, who, w, other[who], rd))
        if ev == "w" and e["after"] >= 0:
            owed.append((e["id"], other[e["side"]], e["after"], e["side"]))
        if ev == "read":
            p, a = e["id"], e["side"]
            reads[a][p] += 1
            if p not in written[other[a]]:
                return "modified", "event %d: %s read payload %d, which its peer never wrote" % (k, a, p)
            if reads[a][p] > 1:
                return "delivered-twice", "event %d: %s read payload %d twice" % (k, a, p)
            owed = [o for o in owed if not (o[0] == p and o[1] == a)]
        if ev == "t" and owed:
            p, a, cid, wside = owed[0]
            return "write-after-update-not-readable", (
                "event %d: UpdateKeys call %d of %s returned nil, payload %d written right after reached %s and was "
                "not delivered to the application" % (k, cid, wside, p, a))
    if c["pending_calls"]:
        return "update-stranded", "%d UpdateKeys calls never returned although the network delivers everything " \
                                  "after the %d losses" % (c["pending_calls"], c["dropped"])
    for wside in ("client", "server"):
        miss = sorted(written[wside] - set(reads[other[wside]]))
        if miss:
            return "lost", "payloads %s written by %s were handed to %s's socket but never delivered" % (
                miss, wside, other[wside])
    return None


def pend_nontrivial(c):
    """the KeyUpdate was really requested while the other flight was outstanding"""
    uk = [k for k, e in enumerate(c["evs"]) if e["ev"] == "uk"]
    drops = [k for k, e in enumerate(c["evs"]) if e["ev"] == "drop"]
    return bool(uk and drops and drops[-1] < uk[0] and any(e["ev"] == "ukdone" for e in c["evs"]))


def explain_mismatch(tr):
    """ask Coq for the first differing step and the model's prediction there"""
    txt = "From Coq Require Import List NArith ZArith String.\nImport ListNotations.\n" + IMPORTS + "\nOpen Scope N_scope.\n"
    txt += "Definition c : trace_case := %s.\n" % cterm(tr)
    txt += "Eval vm_compute in (trace_bad c, trace_predict (init (fst c)) (snd c)).\n"
    ok, out = vlib.coq_run(txt, "c20x_%d" % tr["case"])
    import re
    m = re.search(r"=\s*\((\d+),", out)
    k = int(m.group(1)) - 1 if m else -1
    return k, out[-1500:]


def digest(tr):
    import hashlib
    h = hashlib.sha256()
    for st in tr["steps"]:
        r = tr["recs"][st["rec"]] if st["rec"] >= 0 else None
        h.update(repr((st["op"], st["side"], st["req"], (r["from"], r["epoch"], r["seq"], r["kind"]) if r else None,
                       len(st["sent"]), len(st["read"]), len(st["done"]))).encode())
    return h.hexdigest()[:16]


def nontrivial_trace(tr):
    dones = sum(len(st["done"]) for st in tr["steps"])
    delivered = [st["rec"] for st in tr["steps"] if st["op"] == "d"]
    reordered = any(a > b for a, b in zip(delivered, delivered[1:]))
    dup = len(set(delivered)) != len(delivered)
    lost = any(r["dg"] >= 0 and i not in set(delivered) for i, r in enumerate(tr["recs"]))
    crafted = any(st["op"] == "x" for st in tr["steps"])
    return dones >= 1 and (reordered or dup or lost or crafted)


def run(chk):
    proved = chk.prove()
    out_t = vlib.out_path("c20t")
    out_c = vlib.out_path("c20c")
    env = {"VERIF_SEED": chk.seed, "VERIF_TIER": chk.tier}
    rc1, o1 = vlib.go_test(".", "^TestVerifC20Trace$", dict(env, VERIF_OUT=out_t), timeout=2400, tags=["c20"])
    rc2, o2 = vlib.go_test(".", "^TestVerifC20Conc$", dict(env, VERIF_OUT=out_c), timeout=2400, tags=["c20"])
    out_f = vlib.out_path("c20f")
    rc3, o3 = vlib.go_test(".", "^TestVerifC20FinalAck$", dict(env, VERIF_OUT=out_f), timeout=600, tags=["c20"])
    out_p = vlib.out_path("c20p")
    rc4, o4 = vlib.go_test(".", "^TestVerifC20Pend$", dict(env, VERIF_OUT=out_p), timeout=1200, tags=["c20"])
    pends = vlib.read_jsonl(out_p)
    vlib.cleanup(out_p)
    traces = vlib.read_jsonl(out_t)
    concs = vlib.read_jsonl(out_c)
    finalack = vlib.read_jsonl(out_f)
    vlib.cleanup(out_t)
    vlib.cleanup(out_c)
    vlib.cleanup(out_f)
    found_input = False
    site = SITE
    for rc, o, nm in ((rc1, o1, "TestVerifC20Trace"), (rc2, o2, "TestVerifC20Conc"), (rc3, o3, "TestVerifC20FinalAck"),
                      (rc4, o4, "TestVerifC20Pend")):
        if rc != 0:
            kind = vlib.classify_go_failure(o)
            if kind == "panic":
                chk.finding(site, {"monitor": "panic", "test": nm}, "panic in " + nm, {"test": nm, "output": o[-3000:]})
                found_input = True
            else:
                chk.broken("correspondence harness %s no longer runs against /repo (%s)" % (nm, kind), o)
    rerun = "VERIF_SEED=%s bin/check C20 --tier %s" % (chk.seed, chk.tier)

    # implementation-side monitors: the property's own statements (one report per distinct signature)
    reported = set()
    monitor_hits = collections.Counter()
    for tr in traces:
        m = monitor_trace(tr)
        if m:
            fsite, fsig = finding_key(tr, m)
            monitor_hits[m[0]] += 1
            key = repr((fsite, sorted(fsig.items())))
            if key in reported:
                continue
            reported.add(key)
            if chk.finding(fsite, fsig, m[1],
                           {"how": "DTLS 1.3 client/server in a synctest bubble; `steps` are executed one at a time "
                                   "(uk = UpdateKeys, w = Write, d = hand record `rec` to its destination, x = hand a "
                                   "harness-sealed future-generation record, t = virtual time passes and the side "
                                   "retransmits); `recs` are all emitted records opened with the sender's keys; "
                                   "cfg.plant (if any) = the unprotected fragment an off-path sender injected "
                                   "during the handshake",
                            "case": {k: tr[k] for k in ("variant", "case", "cfg", "steps", "recs")}, "rerun": rerun}):
                found_input = True
    pend_hits = collections.Counter()
    for c in pends:
        m = monitor_pend(c)
        if m:
            pend_hits[m[0]] += 1
            fsig = {"monitor": m[0], "variant": "pend"}
            key = repr((SITE_PEND, sorted(fsig.items())))
            if key in reported:
                continue
            reported.add(key)
            if chk.finding(SITE_PEND, fsig, m[1],
                           {"how": "DTLS 1.3 client/server in a synctest bubble; the %s is lost %d times (events "
                                   "`drop`), right after the last loss - before the ticket's next retransmission timer - "
                                   "trigger `%s` (server = server.UpdateKeys(RequestPeerUpdate=req), client-req = "
                                   "client.UpdateKeys(RequestPeerUpdate=true), double = two server.UpdateKeys back to "
                                   "back); every other datagram is delivered at once, virtual time advances only when "
                                   "nothing is in flight (events `t`); `recs` = every emitted record opened with the "
                                   "sender's keys; `evs` = ordered log with the four epochs (client write, client read, "
                                   "server write, server read) after each event"
                                   % ("server's NewSessionTicket" if c["lose"] == "nst" else
                                      "client's ACK of the server's NewSessionTicket", c["dropped"], c["trigger"]),
                            "case": {k: c[k] for k in ("case", "lose", "k", "trigger", "req", "early_write", "suite",
                                                       "written", "evs", "recs")},
                            "rerun": rerun}):
                found_input = True
    for c in concs:
        m = monitor_conc(c)
        if m:
            found_input = True
            chk.finding(site, {"monitor": m[0], "variant": "conc"}, m[1],
                        {"how": "concurrent leg: %d writer goroutines per side + UpdateKeys loops on both sides, "
                                "lossy/duplicating/reordering pump (loss %d%% on KeyUpdate/ACK), then healed network"
                                % (c["writers"], c["loss"]),
                         "case": {k: c[k] for k in ("case", "writers", "loss", "calls", "epochs", "unreturned")},
                         "rerun": rerun})
            break

    # correspondence with the model, evaluated inside Coq
    ok_model, mout = vlib.coq_make(["theories/Ku/C20Run.vo"])
    if not ok_model:
        chk.broken("model Ku/C20Run.v no longer compiles", mout)
    else:
        usable = []
        for tr in traces:
            why = modelable(tr)
            if why:
                chk.finding(site, {"monitor": "unmodelled-output", "variant": tr["variant"]},
                            "the implementation produced something the model has no counterpart for: " + why,
                            {"case": {k: tr[k] for k in ("variant", "case", "cfg", "steps", "recs")}, "rerun": rerun},
                            no_input=not found_input)
            else:
                usable.append(tr)
        terms = [cterm(tr) for tr in usable]
        bad, err = vlib.coq_mismatches("c20t", IMPORTS, "trace_case", "trace_ok", terms, shard=60)
        if bad is None:
            chk.broken("correspondence evaluation (traces) failed in coqc", err)
        else:
            for i in bad[:1]:
                tr = usable[i]
                k, pred = explain_mismatch(tr)
                m = monitor_trace(tr)
                chk.finding(site, {"monitor": "model-mismatch", "variant": tr["variant"]},
                            "step %d of the run differs from Ku/C20KeyUpdate.v" % k + (": " + m[1] if m else ""),
                            {"case": {k2: tr[k2] for k2 in ("variant", "case", "cfg", "steps", "recs")},
                             "first_differing_step": k, "observed": tr["steps"][k] if 0 <= k < len(tr["steps"]) else None,
                             "model_predicts(sent,read,done,epochs)": pred, "correspondence": "Ku.C20Run.trace_ok",
                             "rerun": rerun},
                            no_input=(m is None and not found_input))
        nsteps = sum(len(tr["steps"]) for tr in usable)
        nontriv = [tr for tr in usable if nontrivial_trace(tr)]
        chk.count("trace", nsteps, [digest(tr) for tr in nontriv],
                  samples=[{"variant": tr["variant"], "case": tr["case"], "steps": len(tr["steps"]),
                            "final_epochs": tr["steps"][-1]["epochs"] if tr["steps"] else None,
                            "ops": [(st["op"], st["side"]) for st in tr["steps"][:25]]} for tr in nontriv[-2:]])
        chk.cov["traces_validated_against_impl"] += len(usable)
        variants = collections.Counter(tr["variant"] for tr in traces)
        stats = collections.Counter()
        for tr in usable:
            seen = set()
            for st in tr["steps"]:
                stats["op_" + st["op"]] += 1
                stats["updatekeys_returned"] += len(st["done"])
                if st["op"] == "d":
                    r = tr["recs"][st["rec"]]
                    ra = st["epochs"][1 if st["side"] == "client" else 3]
                    if st["rec"] in seen:
                        stats["duplicate_deliveries"] += 1
                    seen.add(st["rec"])
                    if r["kind"] == "app" and st["read"] and r["epoch"] < ra:
                        stats["old_epoch_app_delivered_%d_behind" % min(ra - r["epoch"], 4)] += 1
                    if r["kind"] == "app" and not st["read"]:
                        stats["app_rejected"] += 1
                if st["op"] == "x":
                    stats["early_record_" + ("accepted_now" if st["read"] else "not_accepted_now")] += 1
            stats["max_epoch_%d" % min(max(tr["steps"][-1]["epochs"]), 9)] += 1
            if any(tr["cfg"].get("preset") or []):
                stats["long_first_epoch_preset"] += 1
            pl = tr["cfg"].get("plant")
            if pl:
                stats["planted_%s_msg+%d_form%d" % (pl["victim"], pl["j"], pl["form"])] += 1
                e = tr["steps"][-1]["epochs"]
                if e[0] > e[3] or e[2] > e[1]:
                    stats["planted_fragment_shadowed_a_keyupdate"] += 1
        chk.leg_info("trace", variants=dict(variants), suites=sorted({tr["cfg"]["suite"] for tr in traces}),
                     stats=dict(stats), chain_checked=sum(g for tr in traces for g in tr["gens"]),
                     monitor_hits=dict(monitor_hits))
    cn = [c for c in concs if len(c["calls"]) >= 2 and c["loss"] > 0]
    chk.count("conc", sum(len(c["delivered"]) for c in concs),
              [(c["case"], c["writers"], c["loss"], len(c["recs"])) for c in cn],
              samples=[{"case": c["case"], "writers": c["writers"], "loss": c["loss"], "records": len(c["recs"]),
                        "updatekeys_calls": len(c["calls"]), "final_epochs": c["epochs"]} for c in cn[-2:]])
    chk.leg_info("conc", runs=len(concs), monitor_only=True,
                 long_first_epoch_preset=sum(1 for c in concs if any(c.get("preset") or [])),
                 long_first_epoch_really_written=[c["bulk"] for c in concs if c.get("bulk")])
    pn = [c for c in pends if pend_nontrivial(c)]
    chk.count("pend", sum(len(c["evs"]) for c in pends),
              [(c["lose"], c["k"], c["trigger"], c["req"], c["early_write"], c["suite"]) for c in pn],
              samples=[{"case": c["case"], "lose": c["lose"], "k": c["k"], "trigger": c["trigger"], "req": c["req"],
                        "events": len(c["evs"]), "final_epochs": c["evs"][-1]["epochs"] if c["evs"] else None}
                       for c in pn[-2:]])
    chk.leg_info("pend", runs=len(pends), monitor_only=True, monitor_hits=dict(pend_hits),
                 by_trigger=dict(collections.Counter("%s/%s" % (c["lose"], c["trigger"]) for c in pends)),
                 losses=dict(collections.Counter(c["dropped"] for c in pends)),
                 notes=sorted({c["note"] for c in pends if c["note"]})[:5])
    # establishment precondition (informational: no clause of C20 is about establishment)
    for fa in finalack:
        ok_est = fa["client_handshake"] == "ok" and fa["server_handshake"] == "ok"
        chk.leg_info("establishment_precondition", informational=True, dropped=fa["dropped"],
                     client_handshake=fa["client_handshake"], server_handshake=fa["server_handshake"],
                     server_calls_returned_of_2=fa["server_calls_returned"], virtual_s=fa["virtual_s"],
                     wire=fa["wire"][:16])
        if not ok_est:
            vlib.log("[C20 note] establishment precondition fails when only the server's ACK of the client Finished is "
                     "lost: client=%r server=%r, %d of 2 later server calls returned in %d virtual s (not a C20 clause)"
                     % (fa["client_handshake"], fa["server_handshake"], fa["server_calls_returned"], fa["virtual_s"]))
    if not proved:
        where, out = getattr(chk, "proof_error", ("?", ""))
        if not found_input:
            chk.broken("proof obligation Properties/C20.v no longer checks (%s)" % where, out)
    chk.finish(
        level="proof",
        rule="trace leg: real DTLS 1.3 client+server in a synctest bubble, one operation at a time (UpdateKeys +/- "
             "RequestPeerUpdate on either side, Write, deliver/duplicate/late-deliver/drop any emitted record, "
             "virtual time for retransmissions, harness-sealed future-generation records; in about half of the "
             "runs the first epoch is preset in-package to have carried 2^16 .. 2^32 records, and the longepoch "
             "scenario loses the KeyUpdate's ACK k times, writes while it is outstanding and delivers old-epoch "
             "records after new-epoch ones; in one run of eight (variant shadow) an off-path sender plants one "
             "unprotected epoch-0 handshake fragment numbered like the peer's 2nd..4th post-handshake message in "
             "the client's or the server's reassembly buffer while the handshake runs, then that peer updates its "
             "keys as many times and writes - the model carries the planted numbers in its configuration and "
             "predicts what the code does, the monitor keyupdate-acked-not-applied judges it = known finding "
             "K-C20-1); every step's emitted "
             "records (epoch, sequence number, content), reads, UpdateKeys returns and the four epochs are compared "
             "with the model evaluated in Coq; evaluations = compared steps. Non-trivial trace = at least one "
             "UpdateKeys returned and the network reordered, duplicated, lost or forged-ahead something; distinct by "
             "digest of the step sequence. conc leg: 1-3 writer goroutines per side racing UpdateKeys loops under "
             "loss/duplication/holding, then a healed network - monitors only; evaluations = deliveries. pend leg: "
             "the server's NewSessionTicket (or the client's ACK of it) is lost 1..4 times and, before the ticket's "
             "next retransmission timer, the server calls UpdateKeys (+/- RequestPeerUpdate), the client requests the "
             "server's update, or the server calls UpdateKeys twice back to back; every emitted record is opened with "
             "the sender's keys; monitors: emission epoch per endpoint never decreases, no side writes under an epoch "
             "its peer has not processed, data written right after UpdateKeys returned is read by the peer, "
             "exactly-once; evaluations = events (model: Ku/C20Pending.v, one active reliable flight).",
        assumptions=["AEAD authenticity (C05): only records the peer emitted are opened - premise [authentic] of the theorems",
                     "premise [no_shadow] of the theorems about runs (part of GInv): no unauthenticated fragment "
                     "numbered like a future post-handshake message was left in a reassembly buffer during the "
                     "handshake; NOT enforced by the code (known finding K-C20-1, witness theorem "
                     "C20_shadowed_keyupdate_refuted, scenario `shadow` of the trace leg)",
                     "traffic-secret bytes (HKDF-Expand-Label) are C10's; here the successor relation is recomputed "
                     "independently in the harness (crypto/hmac) and secrets are uninterpreted terms in the model",
                     "replay detector lives in pion/transport (C06: Rec/Window.v)",
                     "the trace leg serialises operations with synctest.Wait; goroutine interleavings inside one "
                     "operation are covered by the monitor-only concurrent leg, not by the model comparison",
                     "the model starts from an ESTABLISHED connection (both handshakes returned nil, the server's "
                     "NewSessionTicket flight acknowledged); establishment under loss is not a C20 clause - see leg "
                     "establishment_precondition in the evidence"])


def replay(chk, path):
    """bin/check C20 --replay <file>: re-execute the recorded step list against /repo (TestVerifC20Replay),
    then evaluate the monitors and the model comparison on the fresh trace."""
    import json
    import os
    body = json.load(open(path))
    case = body.get("replay", {}).get("case") or body.get("case") or body
    if "steps" not in case:
        print("replay file has no step list (concurrent-leg findings are re-run with: %s)" % body.get("replay", {}).get("rerun"))
        chk.finish(level="proof", rule="replay: nothing to re-execute")
    tmp = vlib.out_path("c20r_in")
    with open(tmp, "w") as f:
        json.dump(case, f)
    out_t = vlib.out_path("c20r")
    rc, o = vlib.go_test(".", "^TestVerifC20Replay$", {"VERIF_OUT": out_t, "VERIF_C20_REPLAY": tmp,
                                                      "VERIF_SEED": chk.seed, "VERIF_TIER": chk.tier}, tags=["c20"])
    traces = vlib.read_jsonl(out_t)
    vlib.cleanup(out_t)
    vlib.cleanup(tmp)
    site = SITE
    if rc != 0 or not traces:
        chk.broken("replay harness failed (%s)" % vlib.classify_go_failure(o), o)
        chk.finish(level="proof", rule="replay")
    tr = traces[0]
    same = [(a["op"], a["sent"], a["read"], a["done"], a["epochs"]) for a in tr["steps"] if a["op"] != "t" or a["sent"]] == \
           [(a["op"], a["sent"], a["read"], a["done"], a["epochs"]) for a in case["steps"] if a["op"] != "t" or a["sent"]]
    print("replayed %d steps; observable outputs %s the recording" % (len(tr["steps"]), "equal" if same else "DIFFER from"))
    m = monitor_trace(tr)
    if m:
        fsite, fsig = finding_key(tr, m)
        chk.finding(fsite, fsig, m[1], {"case": tr})
    ok_model, mout = vlib.coq_make(["theories/Ku/C20Run.vo"])
    why = modelable(tr)
    if ok_model and not why:
        bad, err = vlib.coq_mismatches("c20r", IMPORTS, "trace_case", "trace_ok", [cterm(tr)])
        if bad:
            k, pred = explain_mismatch(tr)
            chk.finding(site, {"monitor": "model-mismatch", "variant": tr["variant"]},
                        "step %d of the replay differs from Ku/C20KeyUpdate.v" % k,
                        {"case": tr, "first_differing_step": k, "model_predicts(sent,read,done,epochs)": pred},
                        no_input=m is None)
        chk.count("replay", len(tr["steps"]), [digest(tr)] if nontrivial_trace(tr) else [])
    chk.finish(level="proof", rule="replay of one recorded step list")
