"""C20 DTLS 1.3 key updates: theorems Properties/C20.v + correspondence of Ku/C20KeyUpdate.v with real
client/server pairs driven datagram by datagram in a synctest bubble (every step's emitted records,
reads, UpdateKeys completions and epochs compared with the model evaluated in Coq), plus
implementation-side monitors = the property's own statements on the serial and the concurrent runs."""
import collections

import vlib
from vlib import cN, clist, cbool

IMPORTS = "From DtlsV Require Import Lib.Bytes Rec.Window Rec.WindowRun Ku.C20KeyUpdate Ku.C20Run."
SIDE = {"client": "A", "server": "B", 0: "A", 1: "B"}


# ----------------------------------------------------------------- Coq terms

def pay_num(payload):
    try:
        return int(payload[1:5]) if payload.startswith("p") else 999999
    except ValueError:
        return 999999


def ckind(r):
    if r["kind"] == "app":
        return "(App %d)" % pay_num(r["payload"])
    if r["kind"] == "ku":
        return "(KU %d %s)" % (r["msg"], cbool(r["req"]))
    if r["kind"] == "ack":
        return "(Ack %s)" % clist(["(%d,%d)" % (e, q) for e, q in (r["acks"] or [])])
    return None


def crec(r):
    return "(rc %s %d %d %d %s)" % (SIDE[r["from"]], r["epoch"], r["elow"], r["seq"], ckind(r))


def cop(tr, st):
    s = SIDE[st["side"]] if st["side"] else "A"
    if st["op"] == "uk":
        return "(OpUpdate %s %s %d)" % (s, cbool(st["req"]), st["id"])
    if st["op"] == "w":
        return "(OpWrite %s %d)" % (s, st["id"])
    if st["op"] in ("d", "x"):
        return "(OpDeliver %s %s)" % (s, crec(tr["recs"][st["rec"]]))
    if st["op"] == "t":
        return "(OpTimer %s)" % s
    raise ValueError(st["op"])


def cobs(tr, st):
    sent = clist(["(%s,%d,%d,%s)" % (SIDE[tr["recs"][i]["from"]], tr["recs"][i]["epoch"], tr["recs"][i]["seq"],
                                      ckind(tr["recs"][i])) for i in st["sent"]])
    read = clist(["(%s,%d)" % (SIDE[a], p) for a, p in st["read"]])
    done = clist(["(%s,%d)" % (SIDE[a], i) for a, i in st["done"]])
    e = st["epochs"]
    return "(mkobs %s %s %s (%d,%d,%d,%d))" % (sent, read, done, e[0], e[1], e[2], e[3])


def modelable(tr):
    """every record of the run has a kind the model knows and every timer step has a side"""
    for r in tr["recs"]:
        if ckind(r) is None:
            return "record kind %s (datagram %d from %s)" % (r["kind"], r["dg"], r["from"])
    for st in tr["steps"]:
        if st["op"] == "t" and not st["side"]:
            return "timer step without emission but with output"
    return None


def cterm(tr):
    c = tr["cfg"]
    cfg = "(cfg %d%%nat %d %d %d %d %s %s)" % (c["w"], c["base"][0], c["base"][1], c["wseq"][0], c["wseq"][1],
                                              clist([cN(x) for x in c["pre"][0]]), clist([cN(x) for x in c["pre"][1]]))
    steps = clist(["(%s, %s)" % (cop(tr, st), cobs(tr, st)) for st in tr["steps"]])
    return "(%s, %s)" % (cfg, steps)


# ----------------------------------------------------------------- monitors (the property's own statements)

def monitor_trace(tr):
    """returns None or (monitor name, description) for a serial trace"""
    recs = tr["recs"]
    written = [collections.Counter(), collections.Counter()]   # payloads sealed in app records per sender
    readc = [collections.Counter(), collections.Counter()]
    last_epoch = [3, 3]
    delivered_to_peer = set()        # record indices that have been handed to their destination
    parked = [dict(), dict()]        # per receiver: payload -> early (harness-sealed) record that arrived, unread
    for k, st in enumerate(tr["steps"]):
        if st["errs"]:
            return "call-error", "step %d: %s" % (k, "; ".join(st["errs"]))
        e = st["epochs"]
        for i, w in ((0, e[0]), (1, e[2])):
            if w < last_epoch[i] or w > last_epoch[i] + 1:
                return "send-epoch", "step %d: write epoch of %s went %d -> %d" % (k, SIDE[i], last_epoch[i], w)
            last_epoch[i] = w
        for i in st["sent"]:
            r = recs[i]
            a = 0 if r["from"] == "client" else 1
            if r["epoch"] != (e[0], e[2])[a] and r["epoch"] != (e[0], e[2])[a] - 1:
                return "send-epoch", "step %d: %s emitted a record under epoch %d while its write epoch is %d" % (
                    k, SIDE[a], r["epoch"], (e[0], e[2])[a])
            if r["elow"] != r["epoch"] % 4:
                return "epoch-bits", "step %d: record of epoch %d carries epoch bits %d" % (k, r["epoch"], r["elow"])
            if r["kind"] == "app":
                written[a][pay_num(r["payload"])] += 1
        dst = None
        if st["op"] in ("d", "x"):
            dst = 0 if st["side"] == "client" else 1
        if st["op"] == "x":
            r = recs[st["rec"]]
            written[1 - dst][pay_num(r["payload"])] += 1
            parked[dst].setdefault(pay_num(r["payload"]), r)
        for a, p in st["read"]:
            readc[a][p] += 1
            if st["op"] not in ("d", "x") or a != dst:
                return "read-without-arrival", "step %d: %s read payload %d without a datagram arriving" % (k, SIDE[a], p)
            r = recs[st["rec"]]
            if not (r["kind"] == "app" and pay_num(r["payload"]) == p):
                # a parked early record may be released by the arrival that authorises its epoch
                r = parked[a].get(p)
                if r is None:
                    return "modified", "step %d: %s read payload %d, which no arrived record carries" % (k, SIDE[a], p)
            if readc[a][p] > written[1 - a][p]:
                return "delivered-twice", "step %d: %s read payload %d %d times, sealed %d times" % (
                    k, SIDE[a], p, readc[a][p], written[1 - a][p])
            ra = (e[1], e[3])[a]   # receive epoch AFTER the step
            if r["epoch"] > ra:
                return "unauthorised-epoch", "step %d: %s accepted a record of epoch %d with receive epoch %d" % (
                    k, SIDE[a], r["epoch"], ra)
        for a, cid in st["done"]:
            # UpdateKeys returns nil only in the step in which an ACK for one of the caller's KeyUpdate
            # records arrives, and the peer has been handed that record before
            ok = False
            if st["op"] == "d" and dst == a and recs[st["rec"]]["kind"] == "ack":
                for (ee, qq) in recs[st["rec"]]["acks"] or []:
                    for j in delivered_to_peer:
                        rj = recs[j]
                        if rj["kind"] == "ku" and SIDE[rj["from"]] == SIDE[a] and rj["epoch"] == ee and rj["seq"] == qq:
                            ok = True
            if not ok:
                return "update-before-ack", "step %d: UpdateKeys call %d of %s returned nil without an ACK of its " \
                                            "KeyUpdate arriving (op %s)" % (k, cid, SIDE[a], st["op"])
        if st["op"] == "d":
            delivered_to_peer.add(st["rec"])
    if tr["pending_calls"]:
        return "update-stranded", "%d UpdateKeys calls never returned although the network finally delivered " \
                                  "everything and 40 x 61 s passed" % tr["pending_calls"]
    if not all(tr["chain"]):
        return "successor-chain", "a generation's secret is not Expand-Label(previous, \"traffic upd\") %s" % tr["chain"]
    if not all(tr["agree"]):
        return "generation-agreement", "reader and writer disagree on a generation's secret %s" % tr["agree"]
    return None


def monitor_conc(c):
    """property statements on a concurrent run (no model replay)"""
    recs = c["recs"]
    if c["unopened"]:
        return "harness", "%d datagrams could not be opened with the sender's keys" % c["unopened"]
    if c["write_errs"]:
        return "call-error", "Write failed: %s" % c["write_errs"][0]
    sealed = [collections.Counter(), collections.Counter()]
    last = {"client": 3, "server": 3}
    for r in recs:
        if r["kind"] in ("unopenable", "plaintext", "unparsable"):
            continue
        if r["epoch"] < last[r["from"]] or r["epoch"] > last[r["from"]] + 1:
            return "send-epoch", "%s emitted epoch %d after epoch %d (datagram %d)" % (
                SIDE[r["from"]], r["epoch"], last[r["from"]], r["dg"])
        last[r["from"]] = r["epoch"]
        if r["elow"] != r["epoch"] % 4:
            return "epoch-bits", "record of epoch %d carries epoch bits %d" % (r["epoch"], r["elow"])
        if r["kind"] == "app":
            sealed[0 if r["from"] == "client" else 1][pay_num(r["payload"])] += 1
    wr = [collections.Counter(), collections.Counter()]
    for a, p in c["written"]:
        wr[a][p] += 1
    rd = [collections.Counter(), collections.Counter()]
    for a, p in c["reads"]:
        rd[a][p] += 1
    for a in (0, 1):
        for p, n in rd[a].items():
            if n > wr[1 - a][p] or n > sealed[1 - a][p]:
                return "delivered-twice-or-modified", "%s read payload %d %d times; the peer wrote it %d times" % (
                    SIDE[a], p, n, wr[1 - a][p])
    # every application record handed over at least once is read exactly once (holds are < 13 deliveries,
    # far inside the 64-record window, and every generation stays installed)
    arrived = [collections.Counter(), collections.Counter()]
    seen = set()
    for d in c["delivered"]:
        r = recs[d["rec"]]
        if r["kind"] == "app" and d["rec"] not in seen:
            seen.add(d["rec"])
            arrived[1 if r["from"] == "client" else 0][pay_num(r["payload"])] += 1
    for a in (0, 1):
        for p, n in arrived[a].items():
            if rd[a][p] != n:
                return "arrived-not-delivered", "%s was handed payload %d in %d records but read it %d times" % (
                    SIDE[a], p, n, rd[a][p])
    # UpdateKeys: nil only after the peer got a KeyUpdate record and an ACK naming it came back
    for call in c["calls"]:
        if call["err"] != "ok":
            return "call-error", "UpdateKeys at %s returned %s" % (SIDE[call["side"]], call["err"])
    if c["unreturned"]:
        return "update-stranded", "%d UpdateKeys calls never returned although the network healed" % c["unreturned"]
    for a in (0, 1):
        me = "client" if a == 0 else "server"
        times = sorted(x["t_ms"] for x in c["calls"] if x["side"] == a)
        got_ku = {}      # (epoch, seq) of own KeyUpdate records handed to the peer -> msg
        acked_at = {}    # msg -> time of the first ACK (handed to me) naming a record the peer had got
        for d in c["delivered"]:
            r = recs[d["rec"]]
            if r["from"] == me and r["kind"] == "ku":
                got_ku[(r["epoch"], r["seq"])] = r["msg"]
            if r["from"] != me and r["kind"] == "ack":
                for ee, qq in r["acks"] or []:
                    if (ee, qq) in got_ku:
                        acked_at.setdefault(got_ku[(ee, qq)], d["t_ms"])
        ack_times = sorted(acked_at.values())
        for n, tt in enumerate(times):
            if n >= len(ack_times) or ack_times[n] > tt:
                return "update-before-ack", "UpdateKeys return number %d of %s at t=%d ms precedes the arrival of the " \
                                            "ACK of its %d-th acknowledged KeyUpdate" % (n, SIDE[a], tt, n + 1)
    e = c["epochs"]
    if e[0] != e[3] or e[2] != e[1]:
        return "epochs-out-of-step", "after healing: write/read epochs client %d/%d server %d/%d" % (e[0], e[1], e[2], e[3])
    if not all(c["chain"]):
        return "successor-chain", "a generation's secret is not Expand-Label(previous, \"traffic upd\") %s" % c["chain"]
    if not all(c["agree"]):
        return "generation-agreement", "reader and writer disagree on a generation's secret %s" % c["agree"]
    return None


def run(chk):
    proved = chk.prove()
    out_t = vlib.out_path("c20t")
    env = {"VERIF_SEED": chk.seed, "VERIF_TIER": chk.tier}
    rc1, o1 = vlib.go_test(".", "^TestVerifC20Trace$", dict(env, VERIF_OUT=out_t), timeout=1800, tags=["c20"])
    traces = vlib.read_jsonl(out_t)
    vlib.cleanup(out_t)
    found_input = False
    for rc, o, nm in ((rc1, o1, "TestVerifC20Trace"),):
        if rc != 0:
            kind = vlib.classify_go_failure(o)
            if kind == "panic":
                chk.finding("post-handshake / record layer", {"monitor": "panic", "test": nm}, "panic in " + nm,
                            {"test": nm, "output": o[-3000:]})
                found_input = True
            else:
                chk.broken("correspondence harness %s no longer runs against /repo (%s)" % (nm, kind), o)
    chk.finish(level="proof", rule="wip")
