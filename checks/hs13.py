"""hs13: standalone driver for the DTLS 1.3 handshake-machinery legs of C02 / C17 / C13
(bin/check hs13 --tier quick). The property drivers call hs13lib.run_c02 / run_c17 / run_c13."""
import hs13lib


def run(chk):
    r = {"c02": hs13lib.run_c02(chk), "c17": hs13lib.run_c17(chk), "c13": hs13lib.run_c13(chk)}
    chk.cov["hs13_summary"] = r
    chk.finish(
        level="proof",
        rule="DTLS 1.3 handshake state machine: model Hs/Hs13.v, theorems Properties/C02hs13.v, C17hs13.v, C13hs13.v; "
             "real client+server in a synctest bubble over a scripted network, every record opened with its sender's keys; "
             "every trace replayed through the model. Non-trivial = a fault, a silence or a reversal; distinct by scenario.",
        assumptions=["unmodified datagrams (cryptographic checks are C03/C04); malformed flights/alerts not modelled",
                     "a record is named by the fragment it carries; ACKs compared as sets of acknowledged fragments",
                     "second delivery of the same datagram instance is inert (replay window, C06)",
                     "liveness theorems are instances for the regenerated flight structures of 5 variants with "
                     "single-datagram protected flights; fragmented variants (MTU 300/120) by trace replay only"])
