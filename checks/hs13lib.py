"""hs13: DTLS 1.3 handshake machinery legs of C02 / C17 / C13.
Coq model Hs/Hs13.v (+ Hs13Run.v trace acceptance, Hs13Live.v / Hs13Sound.v theorems, statements in
Properties/C02hs13.v, C17hs13.v, C13hs13.v); harness harness/overlay/root/zz_verif_gen_hs13_test.go
(runner, record opener, dumper of Gen/GeneratedHs13.v) and zz_verif_hs13_test.go (test entry points).
Entry points for the property drivers: run_c02(chk), run_c17(chk), run_c13(chk)."""
import re
import vlib
from vlib import clist, cbool

IMPORTS = "From DtlsV Require Import Gen.GeneratedHs13 Hs.Hs13 Hs.Hs13Run."
TAGS = ["c02", "gen", "hs13"]
RUN_TARGET = "theories/Hs/Hs13Run.vo"
SITE = "internal/handshake fsm13.go (DTLS 1.3 handshake state machine)"


# ---------------------------------------------------------------- traces -> Coq terms

def gident(variant):
    return "g13_" + variant.replace("-", "_")


def cfg_term(c):
    return "(mk_cfg g13_flags %s %d %s)" % (gident(c["variant"]), c["interval_ms"], cbool(not c["no_backoff"]))


def frag_term(f):
    return "(%d, %d, %d)" % tuple(f)


def rec_term(r):
    if r["k"] == "hs":
        return "H %d %d %d %d %d %d" % (r["e"], r["ht"], r["ms"], r["fo"], r["fl"], r["tl"])
    if r["k"] == "ack":
        if any(f[0] < 0 for f in r.get("ackfr") or []):
            return "H 99 0 0 0 0 0"     # acknowledges something that is not a handshake record of the peer
        # compared as the SET of acknowledged fragments (the model keeps it sorted, duplicate-free)
        return "A %d %s" % (r["e"], clist([frag_term(f) for f in sorted(set(tuple(f) for f in (r.get("ackfr") or [])))]))
    return "H 98 0 0 0 0 0"             # alert / application data / unreadable: never predicted by the model


def dgram_term(recs):
    return clist([rec_term(r) for r in recs])


def case_term(c):
    side_of, kidx = {}, {}
    counts = {"client": 0, "server": 0}
    outs = {"client": [], "server": []}
    moves = []
    for e in c["events"]:
        if e["ev"] == "emit":
            side_of[e["idx"]] = e["side"]
            kidx[e["idx"]] = counts[e["side"]]
            counts[e["side"]] += 1
            outs[e["side"]].append("(%d, %s)" % (e["t"], dgram_term(e.get("recs") or [])))
        elif e["ev"] == "deliver":
            moves.append("Deliver %s %d %d" % (cbool(side_of[e["idx"]] == "client"), kidx[e["idx"]], e["t"]))
    ce = c["cdone"] and c["cerr"] == "ok"
    se = c["sdone"] and c["serr"] == "ok"
    return "(%s, %s, %d, %s, %s, %s, %s)" % (cfg_term(c), clist(moves), c["tdone"], clist(outs["client"]),
                                             clist(outs["server"]), cbool(ce), cbool(se))


def accept(chk, name, cases, shard=24):
    """replay every trace through the Coq model; list of mismatching indices, or None if coqc failed"""
    terms = [case_term(c) for c in cases]
    bad, err = vlib.coq_mismatches(name, IMPORTS, "hs13_case", "hs13_ok", terms, shard=shard, scope="N_scope")
    if bad is None:
        chk.broken("correspondence evaluation failed in coqc (Hs/Hs13Run.v hs13_ok)", err)
        return None
    return bad


def diagnose(c, name="hs13diag"):
    """what the model emitted for one case (debugging aid)"""
    txt = ("From Coq Require Import List NArith ZArith String.\nImport ListNotations.\n" + IMPORTS +
           "\nOpen Scope N_scope.\nDefinition cs : hs13_case := %s.\n"
           "Eval vm_compute in hs13_diff cs.\nEval vm_compute in hs13_model_out cs.\n" % case_term(c))
    ok, out = vlib.coq_run(txt, name)
    return out
