"""hs13: DTLS 1.3 handshake machinery legs of C02 / C17 / C13.
Coq model Hs/Hs13.v (+ Hs13Run.v trace acceptance, Hs13Live.v / Hs13Sound.v theorems, statements in
Properties/C02hs13.v, C17hs13.v, C13hs13.v); harness harness/overlay/root/zz_verif_gen_hs13_test.go
(runner, record opener, dumper of Gen/GeneratedHs13.v) and zz_verif_hs13_test.go (test entry points).
Entry points for the property drivers: run_c02(chk), run_c17(chk), run_c13(chk)."""
import re
import vlib
from vlib import clist, cbool

IMPORTS = "From DtlsV Require Import Gen.GeneratedHs13 Hs.Hs13 Hs.Hs13Run."
TAGS = ["c02", "gen", "hs13"]
RUN_TARGET = "theories/Hs/Hs13Run.vo"
SITE = "internal/handshake fsm13.go (DTLS 1.3 handshake state machine)"
MAX_EVENTS = 6000
# the DTLS 1.3 analogue of F17: any stale handshake fragment (message_seq below the reassembly sequence), whatever its
# type, counts as a retransmission by the peer and makes the reply-only HelloRetryRequest flight be sent again
NOT_CH = "HelloRetryRequest sent in response to a datagram that is not a ClientHello"
SITE_NOT_CH = ("internal/handshake/fsm13.go transitionAfterACK / internal/fragmentbuffer pushHandshakeFragments "
               "(any stale handshake fragment counts as a peer retransmission)")
SIG_NOT_CH = {"monitor": NOT_CH, "version": 13}
# known (C17, not repaired): FragmentBuffer.pushHandshakeFragments flags a retransmission only for message_seq < current, so ONE
# identical fragment of the message being assembled or of a later one is "new data" every time it is repeated and
# `if !IsRetransmit { interval = initial }` pins the endpoint near the initial interval
REPEAT_FRAG = "backoff defeated by one repeated identical handshake fragment"
SITE_REPEAT = ("internal/fragmentbuffer pushHandshakeFragments / internal/handshake fsm13.go handleReceivedFlight "
               "(an identical fragment with message_seq >= current is new data every time)")
SIG_REPEAT = {"monitor": REPEAT_FRAG, "version": 13}


# ---------------------------------------------------------------- traces -> Coq terms

def gident(variant):
    return "g13_" + variant.replace("-", "_")


def cfg_term(c):
    t = "(mk_cfg g13_flags %s %d %s)" % (gident(c["variant"]), c["interval_ms"], cbool(not c["no_backoff"]))
    # dual-stack client: the negotiation phase precedes the state machine
    return "(dual_client %s)" % t if "dualc" in c["variant"] else t


def is_app(e):
    recs = e.get("recs") or []
    return bool(recs) and all(r["k"] == "app" for r in recs)


def frag_term(f):
    return "(%d, %d, %d)" % tuple(f)


def rec_term(r):
    if r["k"] == "hs":
        return "H %d %d %d %d %d %d" % (r["e"], r["ht"], r["ms"], r["fo"], r["fl"], r["tl"])
    if r["k"] == "ack":
        if any(f[0] < 0 for f in r.get("ackfr") or []):
            return "H 99 0 0 0 0 0"     # acknowledges something that is not a handshake record of the peer
        # compared as the SET of acknowledged fragments (the model keeps it sorted, duplicate-free)
        return "A %d %s" % (r["e"], clist([frag_term(f) for f in sorted(set(tuple(f) for f in (r.get("ackfr") or [])))]))
    return "H 98 0 0 0 0 0"             # alert / application data / unreadable: never predicted by the model


def dgram_term(recs):
    return clist([rec_term(r) for r in recs])


def case_term(c):
    side_of, kidx = {}, {}
    counts = {"client": 0, "server": 0}
    outs = {"client": [], "server": []}
    moves = []
    for e in c["events"]:
        if e["ev"] == "emit":
            side_of[e["idx"]] = e["side"]
            if is_app(e):
                continue          # written by the application, not by the handshake machinery: outside the model
            kidx[e["idx"]] = counts[e["side"]]
            counts[e["side"]] += 1
            outs[e["side"]].append("(%d, %s)" % (e["t"], dgram_term(e.get("recs") or [])))
        elif e["ev"] == "deliver":
            if e["idx"] not in kidx:
                continue          # application data: parked or handed to Read, no handshake event
            moves.append("Deliver %s %d %d" % (cbool(side_of[e["idx"]] == "client"), kidx[e["idx"]], e["t"]))
        elif e["ev"] == "inject":
            moves.append("Inject %s %s %d" % (cbool(e["side"] == "client"), dgram_term(e.get("recs") or []), e["t"]))
    ce = c["cdone"] and c["cerr"] == "ok"
    se = c["sdone"] and c["serr"] == "ok"
    return "(%s, %s, %d, %s, %s, %s, %s)" % (cfg_term(c), clist(moves), c["tdone"], clist(outs["client"]),
                                             clist(outs["server"]), cbool(ce), cbool(se))


def accept(chk, name, cases, shard=24):
    """replay every trace through the Coq model; list of mismatching indices, or None if coqc failed"""
    terms = [case_term(c) for c in cases]
    bad, err = vlib.coq_mismatches(name, IMPORTS, "hs13_case", "hs13_ok", terms, shard=shard, scope="N_scope")
    if bad is None:
        chk.broken("correspondence evaluation failed in coqc (Hs/Hs13Run.v hs13_ok)", err)
        return None
    return bad


def diagnose(c, name="hs13diag"):
    """what the model emitted for one case (debugging aid)"""
    txt = ("From Coq Require Import List NArith ZArith String.\nImport ListNotations.\n" + IMPORTS +
           "\nOpen Scope N_scope.\nDefinition cs : hs13_case := %s.\n"
           "Eval vm_compute in hs13_diff cs.\nEval vm_compute in hs13_model_out cs.\n" % case_term(c))
    ok, out = vlib.coq_run(txt, name)
    return out


# ---------------------------------------------------------------- implementation-side monitors

def established(c):
    return c["cdone"] and c["sdone"] and c["cerr"] == "ok" and c["serr"] == "ok"


def nontrivial(c):
    return (bool(c["mask"] and any(a != "pass" for a in c["mask"])) or bool(c.get("silence_to")) or bool(c.get("reverse_to"))
            or bool(c.get("inject")) or bool(c.get("server_writes")) or bool(c.get("forge")))


def case_key(c):
    return (c["variant"], tuple(c["mask"] or []), c["interval_ms"], c["no_backoff"], c.get("silence_from"),
            c.get("silence_until"), c.get("silence_to"), c.get("reverse_to"), c.get("server_writes") or 0,
            c.get("forge") or "", c.get("forge_at") or 0,
            tuple((i["at"], i["to"], i["ht"], i["ms"], i["fo"], i["fl"], i["tl"], i["seq"]) for i in (c.get("inject") or [])))


def replay_of(c):
    return {"how": "go test -tags verif -run TestVerifHs13Dbg with VERIF_DBG='variant|mask|interval_ms|nobackoff|silence_from|"
                   "silence_until_ms|silence_to' (scripted network: action per emitted datagram index pass/drop/dup/hold:k, "
                   "then reliable); see /verif/tools/hs13_dbg.sh",
            "VERIF_DBG": "%s|%s|%d|%d|%d|%d|%s" % (c["variant"], ",".join(c["mask"] or []), c["interval_ms"],
                                                 1 if c["no_backoff"] else 0, c.get("silence_from") or 0,
                                                 c.get("silence_until") or 0, c.get("silence_to") or ""),
            "reverse_to": c.get("reverse_to") or "",
            "VERIF_DBG_FORGE": ("%s:%d" % (c["forge"], c.get("forge_at") or 0)) if c.get("forge") else "",
            "VERIF_DBG_INJECT": ",".join("%d:%s:%d:%d:%d:%d:%d:%d" % (i["at"], i["to"], i["ht"], i["ms"], i["fo"], i["fl"], i["tl"], i["seq"])
                                         for i in (c.get("inject") or [])),
            "case": slim(c)}


def describe(c):
    d = "variant %s, mask %s, interval %d ms, backoff %s" % (c["variant"], c["mask"], c["interval_ms"], not c["no_backoff"])
    if c.get("silence_to"):
        d += ", silence to %s until %s ms from #%s" % (c["silence_to"], c.get("silence_until"), c.get("silence_from"))
    if c.get("reverse_to"):
        d += ", bursts to %s reversed" % c["reverse_to"]
    if c.get("server_writes"):
        d += ", server application writes %d records as soon as its handshake returns" % c["server_writes"]
    if c.get("forge"):
        d += ", forged second ClientHello (cookie %s) handed to the server at %d ms" % (c["forge"], c.get("forge_at") or 0)
    if c.get("inject"):
        i = c["inject"]
        d += ", %d forged epoch-0 handshake record(s) to the %s (type %d message_seq %d fragment %d+%d/%d) from %d ms" % (
            len(i), i[0]["to"], i[0]["ht"], i[0]["ms"], i[0]["fo"], i[0]["fl"], i[0]["tl"], i[0]["at"])
    return d


def slim(c):
    d = {k: c.get(k) for k in ("variant", "mask", "interval_ms", "no_backoff", "silence_from", "silence_until", "silence_to",
                               "reverse_to", "inject", "server_writes", "forge", "forge_at", "cdone", "sdone", "cerr", "serr", "tdone", "tfault", "data_ok", "mtu", "notes")}
    evs = []
    for e in c["events"][:160]:
        x = {k: e[k] for k in ("ev", "idx", "side", "t") if k in e}
        if e["ev"] in ("emit", "inject"):
            x["cause"] = e.get("cause", "")
            x["recs"] = [(r["k"], r["e"], r["ht"], r["ms"], r["fo"], r["fl"]) if r["k"] == "hs" else
                         (r["k"], r["e"], [tuple(f) for f in (r.get("ackfr") or [])]) for r in (e.get("recs") or [])]
        evs.append(x)
    d["events"] = evs
    return d


def monitor_liveness(c):
    """C02: both sides report success, data flows, within the time two reliable rounds need"""
    if not established(c):
        return "handshake did not complete: client=%s server=%s after %d ms" % (
            c["cerr"] if c["cdone"] else "pending", c["serr"] if c["sdone"] else "pending", c["tdone"])
    if not c["data_ok"]:
        return "handshake completed but application data does not flow both ways"
    start = max(c["tfault"], c.get("silence_until") or 0)
    if c["tdone"] - start > 2 * 60000 + 1000:
        return "completion took %d ms after the last fault (bound: 2 rounds of at most 60 s)" % (c["tdone"] - start)
    if any(r["k"] in ("alert", "other") for e in c["events"] if e["ev"] == "emit" for r in (e.get("recs") or [])):
        return "an alert or an unreadable record was emitted during an honest handshake"
    if c.get("notes"):
        return "harness note: %s" % c["notes"][0]
    return None


def timer_groups(c, side):
    """virtual times of the timer-caused emission groups of `side`, with the number of datagrams
    delivered to `side` so far at each"""
    out, ndel = [], 0
    for e in c["events"]:
        if e["ev"] in ("deliver", "inject") and e["side"] == side:
            ndel += 1
        elif e["ev"] == "emit" and e["side"] == side and e["cause"] == "timer":
            if not out or out[-1][0] != e["t"]:
                out.append((e["t"], ndel))
    return out


def flight_size(cases):
    """per variant: records of the largest flight (distinct fragments per side and flight)"""
    fl = {}
    for c in cases:
        d = fl.setdefault(c["variant"], {})
        for e in c["events"]:
            if e["ev"] != "emit":
                continue
            for r in e.get("recs") or []:
                if r["k"] != "hs":
                    continue
                if e["side"] == "client":
                    f = "F1" if (r["ht"] == 1 and r["ms"] == 0) else ("F3" if r["ht"] == 1 else "F5")
                else:
                    f = "F2" if r["ht"] == 6 else ("FN" if r["ht"] == 4 else "F4")
                d.setdefault(f, set()).add((r["ms"], r["fo"], r["fl"]))
    return {v: max([len(s) for s in d.values()] or [1]) for v, d in fl.items()}


def monitor_discipline(c, F):
    """C17 on the implementation trace"""
    for e in c["events"]:
        if e["ev"] == "emit" and e["cause"] == "timer" and any(r["k"] == "hs" and r["ht"] == 6 for r in e.get("recs") or []):
            return "HelloRetryRequest sent by the retransmission timer at %d ms" % e["t"]
    for side in ("client", "server"):
        g = timer_groups(c, side)
        for (t0, d0), (t1, d1), (t2, d2) in zip(g, g[1:], g[2:]):
            if d0 == d1 == d2 and t0 > 0:
                g1, g2 = t1 - t0, t2 - t1
                want = g1 if (c["no_backoff"] or g1 >= 60000) else min(2 * g1, 60000)
                if g2 != want:
                    return "%s retransmission gaps %d ms then %d ms (expected %d) with no input in between" % (side, g1, g2, want)
        for (t0, d0), (t1, d1) in zip(g, g[1:]):
            if d0 == d1 and t1 - t0 > max(60000, c["interval_ms"]):
                return "%s retransmission interval %d ms above the 60 s cap" % (side, t1 - t0)
        m = _monitor_backoff_floor(c, side) or _monitor_partial_ack(c, side)
        if m:
            return m
        nem = sum(1 for e in c["events"] if e["ev"] == "emit" and e["side"] == side)
        ndel = sum(1 for e in c["events"] if e["ev"] in ("deliver", "inject") and e["side"] == side)
        # the initial flight at time 0 is caused by neither a timer nor a delivery
        if nem > F + len(g) * F + ndel * (F + 1):
            return "%s emitted %d datagrams for %d timer expiries and %d received datagrams (flight size %d)" % (
                side, nem, len(g), ndel, F)
        # after completion: the server (it has sent its NewSessionTicket) and the client (it has acknowledged the
        # ticket) never send a handshake flight again; ACKs only in reaction to a delivery
        done = False
        for e in c["events"]:
            if e["ev"] != "emit" or e["side"] != side:
                continue
            recs = e.get("recs") or []
            if done:
                for r in recs:
                    if r["k"] == "hs" and r["ht"] != 4:
                        return "%s sent handshake type %d after completing (at %d ms)" % (side, r["ht"], e["t"])
                    if r["k"] == "ack" and e["cause"] == "timer":
                        return "%s sent an ACK on a timer after completing (at %d ms)" % (side, e["t"])
            if side == "server" and any(r["k"] == "hs" and r["ht"] == 4 for r in recs):
                done = True
            if side == "client" and any(r["k"] == "ack" and r["e"] == 3 and any(f[0] >= 0 for f in (r.get("ackfr") or [])) and
                                        _acks_nst(c, r) for r in recs):
                done = True
    return None


def _monitor_backoff_floor(c, side):
    """only NEW data restores the initial interval: after k consecutive timer expiries of `side` with nothing new
    delivered to it in between (only datagram instances seen before, or handshake records whose content it had already
    received), the next expiry comes no sooner than min(I*2^k, 60 s) later"""
    if c["no_backoff"]:
        return None
    I = c["interval_ms"]
    content = {}
    seen_idx, seen_rec = set(), set()
    k, tlast = 0, None
    nst_phase = False     # the NewSessionTicket has its own schedule (post_handshake.go), under the same interval rule
    for e in c["events"]:
        if e["ev"] == "emit":
            content[e["idx"]] = e.get("recs") or []
            if e["side"] != side:
                continue
            if e["cause"] == "timer":
                if e["t"] == 0 or (tlast is not None and e["t"] == tlast):
                    continue                # the initial flight is not an expiry
                if tlast is not None and k >= 1 and e["t"] - tlast < (min(I * 2 ** k, 60000) if I < 60000 else I):
                    if _repeated_injection(c, side):
                        return REPEAT_FRAG + " (%s retransmitted %d ms after its previous timer expiry although %d expiries had " \
                            "passed with nothing but copies of one fragment received; floor %d ms)" % (
                                side, e["t"] - tlast, k, min(I * 2 ** k, 60000))
                    floor = min(I * 2 ** k, 60000) if I < 60000 else I
                    return "%s retransmitted %d ms after its previous timer expiry although %d expiries had passed with nothing " \
                           "new received (floor %d ms for the configured %d ms): the interval was %s" % (
                               side, e["t"] - tlast, k, floor, I,
                               "shortened below the configured value" if I >= 60000 else "restored by stale data")
                k += 1
                tlast = e["t"]
            elif any(r["k"] == "hs" and r["ht"] == 4 for r in e.get("recs") or []):
                k, tlast = 0, None        # the NewSessionTicket starts its own schedule
                nst_phase = True
        elif e["ev"] in ("deliver", "inject") and e["side"] == side:
            if e["ev"] == "deliver":
                if e["idx"] in seen_idx and not any(r["k"] == "hs" and r["e"] == 0 for r in content.get(e["idx"], [])):
                    continue            # a replayed protected datagram is inert
                seen_idx.add(e["idx"])
            new = False
            for r in (content.get(e["idx"], []) if e["ev"] == "deliver" else (e.get("recs") or [])):
                if r["k"] == "hs":
                    key = (r["e"], r["ms"], r["fo"], r["fl"])
                    if key not in seen_rec:
                        new = True
                    seen_rec.add(key)
                else:
                    new = True          # an ACK (or anything else) is not a retransmission
            if new:
                k, tlast = 0, None
    return None


PARTIAL_ACK = "unacknowledged rest of a partially acknowledged flight is not retransmitted"


def _monitor_partial_ack(c, side):
    """an endpoint that awaits a reply keeps retransmitting its flight: after a PARTIAL acknowledgement the
    unacknowledged rest is still retransmitted (until it is acknowledged, or - client - a post-handshake message
    arrives). Judged on the protected records (epoch 2) of the side's last handshake flight."""
    content = {}
    flight = set()        # fragments of the protected handshake records the side has sent (its last flight)
    acked = set()
    t_partial = None
    resent_after = set()
    implicit = False
    for e in c["events"]:
        if e["ev"] == "emit":
            content[e["idx"]] = e.get("recs") or []
            if e["side"] == side:
                for r in e.get("recs") or []:
                    if r["k"] == "hs" and r["e"] == 2:
                        f = (r["ms"], r["fo"], r["fl"])
                        flight.add(f)
                        if t_partial is not None and e["t"] > t_partial:
                            resent_after.add(f)
        elif e["ev"] == "deliver" and e["side"] == side:
            for r in content.get(e["idx"], []):
                if r["k"] == "ack":
                    got = {tuple(f) for f in (r.get("ackfr") or [])} & flight
                    if got:
                        acked |= got
                        if t_partial is None and acked != flight:
                            t_partial = e["t"]
                elif r["k"] == "hs" and r["e"] >= 3 and side == "client":
                    implicit = True
    rest = flight - acked
    if t_partial is None or not rest or implicit:
        return None
    if established(c):
        return None
    # the handshake did not complete although the network became reliable: the rest must have been repeated
    if c["tdone"] - t_partial > 2 * 60000 and not (rest & resent_after):
        return PARTIAL_ACK + ": the %s got an ACK for %s of its flight at %d ms and never sent %s again in the following %d ms" % (
            side, sorted(acked), t_partial, sorted(rest), c["tdone"] - t_partial)
    return None


def _repeated_injection(c, side):
    seen = set()
    for i in c.get("inject") or []:
        key = (i["to"], i["ht"], i["ms"], i["fo"], i["fl"], i["tl"])
        if i["to"] == side and key in seen:
            return True
        seen.add(key)
    return False


def _acks_nst(c, r):
    nst = c.setdefault("_nst", None)
    if nst is None:
        nst = set()
        for e in c["events"]:
            if e["ev"] == "emit" and e["side"] == "server":
                for x in e.get("recs") or []:
                    if x["k"] == "hs" and x["ht"] == 4:
                        nst.add((x["ms"], x["fo"], x["fl"]))
        c["_nst"] = nst
    return any(tuple(f) in nst for f in (r.get("ackfr") or []))


HRR_NO_COOKIE = "HelloRetryRequest without a cookie although hello verification is on"
HRR_OTHER_COOKIE = "HelloRetryRequest with a different cookie within one connection"
NO_ECHO = "server left the cookie exchange although no ClientHello echoing the issued cookie had arrived"
RIGHT_REFUSED = "server did not answer a second ClientHello that echoes its cookie and repeats the first hello"
SITE_COOKIE = "internal/flight/flight13 flight0handler.go / flight2handler.go (HelloRetryRequest cookie exchange)"


def monitor_cookie(c):
    """C13 (DTLS 1.3) on the implementation trace. While hello verification is on (every variant but *-direct):
    every HelloRetryRequest carries a non-empty cookie, the same one throughout the connection; the server emits nothing
    but HelloRetryRequests (and alerts) until a COMPLETE second ClientHello has arrived whose cookie extension equals the
    issued cookie ("no cookie issued" never matches anything) and - for the forged family - whose hello is the first one;
    every HelloRetryRequest is a direct response to a delivered datagram that carries a ClientHello, never a timer."""
    verify_on = "direct" not in c["variant"]
    second = 1 if verify_on else 0
    # the fragments of every candidate second ClientHello of the trace (the real client's, and forged ones)
    need = {}

    def msg_id(source, r):
        return (source, r["tl"], r.get("ck") or "")

    for e in c["events"]:
        src = "client" if (e["ev"] == "emit" and e["side"] == "client") else ("forged" if e["ev"] == "inject" else None)
        if src:
            for r in e.get("recs") or []:
                if r["k"] == "hs" and r["ht"] == 1 and r["e"] == 0 and r["ms"] == second:
                    need.setdefault(msg_id(src, r), set()).add((r["fo"], r["fl"]))
    have = {}
    emitted = {}
    issued = None
    last_delivered = None
    forged_at = None
    answered_forged = False
    for e in c["events"]:
        if e["ev"] == "emit":
            emitted[e["idx"]] = e.get("recs") or []
            if e["side"] != "server":
                continue
            recs = e.get("recs") or []
            for r in recs:
                if r["k"] == "hs" and r["ht"] == 6 and r["e"] == 0:
                    ck = r.get("ck") or ""
                    if verify_on and ck in ("", "-"):
                        return HRR_NO_COOKIE + " (at %d ms)" % e["t"]
                    if issued is None:
                        issued = ck
                    elif ck != issued:
                        return HRR_OTHER_COOKIE + " (at %d ms)" % e["t"]
                elif r["k"] == "alert":
                    continue
                else:
                    # the server moves on: ServerHello flight (or anything else)
                    if forged_at is not None:
                        answered_forged = True
                    if verify_on:
                        echoed = [k for k, fr in need.items() if fr <= have.get(k, set())]
                        good = [k for k in echoed if issued not in (None, "", "-") and k[2] == issued and
                                not (k[0] == "forged" and c.get("forge") == "altered")]
                        if not good:
                            return NO_ECHO + " (at %d ms it emitted %s epoch %d type %s; issued cookie %s; complete second " \
                                "ClientHellos received so far carry %s)" % (
                                    e["t"], r["k"], r["e"], r.get("ht"), issued if issued else "none",
                                    [("forged " if k[0] == "forged" else "") + (k[2] or "?") for k in echoed] or "none")
                    else:
                        if not any(fr <= have.get(k, set()) for k, fr in need.items()):
                            return "server emitted %s (epoch %d, type %s) at %d ms before it had received a complete ClientHello" % (
                                r["k"], r["e"], r.get("ht"), e["t"])
                    return _right_control(c, answered_forged)
            hrr = [r for r in recs if r["k"] == "hs" and r["ht"] == 6]
            if hrr and e["cause"] == "timer":
                return "HelloRetryRequest sent by the retransmission timer at %d ms" % e["t"]
            if hrr and (last_delivered is None or not any(r["k"] == "hs" and r["ht"] == 1 for r in last_delivered)):
                return NOT_CH + " (at %d ms; the datagram carried %s)" % (
                    e["t"], [(r["k"], r["e"], r.get("ht"), r.get("ms"), r.get("fo"), r.get("fl")) for r in (last_delivered or [])])
        elif e["ev"] in ("deliver", "inject") and e["side"] == "server":
            src = "forged" if e["ev"] == "inject" else "client"
            last_delivered = (e.get("recs") or []) if e["ev"] == "inject" else emitted.get(e["idx"], [])
            if e["ev"] == "inject" and c.get("forge"):
                forged_at = e["t"]
            for r in last_delivered:
                if r["k"] == "hs" and r["ht"] == 1 and r["e"] == 0 and r["ms"] == second:
                    have.setdefault(msg_id(src, r), set()).add((r["fo"], r["fl"]))
    return _right_control(c, answered_forged)


def _right_control(c, answered_forged):
    """positive control of the forged family: the right cookie on the unchanged hello must be accepted"""
    if c.get("forge") == "right" and not answered_forged and not c.get("notes"):
        return RIGHT_REFUSED
    return None


# ---------------------------------------------------------------- cookie-value model (Hs/Hs13Cookie.v)

CK_IMPORTS = "From DtlsV Require Import Hs.Hs13Cookie."
CK_CLASS = {"absent": "None", "wrong": "(Some 3)", "trunc": "(Some 4)", "long": "(Some 5)", "right": "(Some 1)",
            "altered": "(Some 1)"}


def cookie_case_term(c):
    """the first two steps of a cookie-leg run as inputs/outputs of the cookie-value model, or None when the run has
    another shape (faults before the second hello, late forgery, hello verification off)"""
    if "direct" in c["variant"] or c.get("inject") or c.get("reverse_to"):
        return None
    forged = c.get("forge")
    if forged:
        if c.get("forge_at"):
            return None
    elif (c["mask"] and any(a != "pass" for a in c["mask"])) or c.get("silence_to") or c["interval_ms"] != 1000:
        return None
    outs = []           # server emissions grouped by the input that caused them
    issued = None
    phase = 0           # 0: before the first answer, 1: answered the first hello, 2: second hello seen
    cur = None
    share_ok = None
    for e in c["events"]:
        if e["ev"] == "emit" and e["side"] == "server":
            if cur is None:
                return None
            for r in e.get("recs") or []:
                if r["k"] == "hs" and r["ht"] == 6:
                    ck = r.get("ck") or "-"
                    if issued is None and ck != "-":
                        issued = ck
                    cls = "None" if ck == "-" else ("(Some 1)" if ck == issued else "(Some 9)")
                    cur.append("OHRR %s %s" % (cls, cbool(bool(r.get("grp")))))
                    if share_ok is None:
                        share_ok = not r.get("grp")
                elif r["k"] == "alert":
                    cur.append("OAlertC")
                elif r["k"] == "hs" and r["ht"] == 2 and r["fo"] == 0:
                    cur.append("OFlight4")
        elif e["ev"] in ("deliver", "inject") and e["side"] == "server":
            if e["ev"] == "inject":
                if phase < 2:
                    phase = 2
                    cur = []
                    outs.append(cur)
            elif phase == 0:
                if cur is None:
                    cur = []
                    outs.append(cur)
                phase = 0
            elif not forged and phase == 1 and cur is outs[0]:
                cur = []
                outs.append(cur)
                phase = 2
        elif e["ev"] == "deliver" and e["side"] == "client" and phase == 0 and outs and outs[0]:
            phase = 1
        if len(outs) == 2 and outs[1] and (outs[1][-1] in ("OAlertC",) or "OFlight4" in outs[1]):
            break
    if len(outs) != 2 or share_ok is None:
        return None
    ck2 = CK_CLASS[forged] if forged else "(Some 1)"
    same = cbool(forged != "altered")
    ins = "[ICH1 %s; ICH2 %s %s true]" % (cbool(share_ok), ck2, same)
    obs = clist([clist(sorted(set(o), key=o.index)) for o in outs])
    return "(true, %s, %s)" % (ins, obs)


def cookie_model_check(chk, cases, found):
    idx = [(i, cookie_case_term(c)) for i, c in enumerate(cases)]
    idx = [(i, t) for i, t in idx if t]
    if not idx:
        return 0, 0
    bad, err = vlib.coq_mismatches("hs13ck", CK_IMPORTS, "hs13ck_case", "hs13ck_ok", [t for _, t in idx], shard=400, scope="N_scope")
    if bad is None:
        chk.broken("correspondence evaluation failed in coqc (Hs/Hs13Cookie.v hs13ck_ok)", err)
        return len(idx), 0
    for b in bad[:1]:
        c = cases[idx[b][0]]
        m = monitor_cookie(c)
        chk.finding(SITE_COOKIE, {"monitor": "cookie-model-mismatch", "version": 13},
                    "first answer and reaction to the second ClientHello differ from the cookie-value model Hs/Hs13Cookie.v: %s [%s]%s" % (
                        idx[b][1], describe(c), (": " + m) if m else ""),
                    dict(replay_of(c), correspondence="Hs.Hs13Cookie.hs13ck_ok"), no_input=(m is None and not found))
    return len(idx), len(bad)


# ---------------------------------------------------------------- legs

def _prove(chk, prop, found, regenerate=True):
    """build Properties/<prop>.vo + the acceptance functions; returns True when the theorems check"""
    if regenerate:
        okg, detail = vlib.regenerate()
        if not okg:
            if not found:
                chk.broken("Gen/GeneratedHs13.v could not be regenerated from /repo", detail)
            return False
    bad = vlib.coq_audit()
    if bad:
        chk.broken("coq-audit: forbidden construct in development", "\n".join(bad))
        return False
    ok, out = vlib.coq_make(["theories/Properties/%s.vo" % prop, RUN_TARGET])
    if not ok:
        m = re.search(r'File "([^"]+)", line (\d+)', out)
        where = ("%s:%s" % (m.group(1), m.group(2))) if m else "?"
        chk.hs13_proof_error = (prop, where, out)
        return False
    ok2, theorems, atext = vlib.coq_assumptions(prop)
    closed = atext.count("Closed under the global context")
    axioms = sorted(set(re.findall(r"^([A-Za-z0-9_.']+)\s*:", atext, re.M)))
    chk.cov.setdefault("hs13_theorems", {})[prop] = {
        "theorems": theorems, "closed": closed, "axioms": axioms, "ok": ok2}
    chk.cov["obligations"] = chk.cov.get("obligations", 0) + len(theorems)
    chk.cov["discharged"] = chk.cov.get("discharged", 0) + (len(theorems) if ok2 and closed >= len(theorems) and not axioms else 0)
    return ok2 and not axioms


def _harness(chk, test, seed_off, what):
    out = vlib.out_path("hs13")
    rc, o = vlib.go_test(".", test, {"VERIF_SEED": chk.seed + seed_off, "VERIF_TIER": chk.tier, "VERIF_OUT": out},
                         tags=TAGS, timeout=3000)
    cases = vlib.read_jsonl(out)
    vlib.cleanup(out)
    found = False
    if rc != 0:
        kind = vlib.classify_go_failure(o)
        if kind == "panic":
            found = True
            chk.finding(SITE, {"family": "dtls13", "monitor": "panic"}, "panic during scripted DTLS 1.3 handshakes (%s)" % what,
                        {"output": o[-4000:]})
        else:
            chk.broken("correspondence harness %s no longer runs against /repo (%s)" % (test, kind), o)
    return cases, found


def _leg(chk, prop, leg, test, seed_off, monitor, monitor_name, rule, regenerate=True):
    cases, found = _harness(chk, test, seed_off, leg)
    F = flight_size(cases)
    reported = set()
    for c in cases:
        m = monitor(c, F.get(c["variant"], 1)) if monitor is monitor_discipline else monitor(c)
        if not m and monitor is not monitor_liveness and c["interval_ms"] < 10 ** 9 and not established(c) and not c.get("forge"):
            m = monitor_liveness(c)      # every scenario with a finite schedule must also complete
        if m:
            if m.startswith(NOT_CH):
                if NOT_CH in reported:
                    continue
                reported.add(NOT_CH)
                found = chk.finding(SITE_NOT_CH, SIG_NOT_CH,
                                    "%s [variant %s, injected %s, silence to %s until %s]" % (
                                        m, c["variant"], c.get("inject"), c.get("silence_to") or "-", c.get("silence_until")),
                                    replay_of(c)) or found
                continue
            cookie_rule = next((x for x in (HRR_NO_COOKIE, HRR_OTHER_COOKIE, NO_ECHO, RIGHT_REFUSED) if m.startswith(x)), None)
            if cookie_rule:
                if cookie_rule in reported:
                    continue
                reported.add(cookie_rule)
                found = chk.finding(SITE_COOKIE, {"monitor": cookie_rule, "version": 13}, "%s [%s]" % (m, describe(c)),
                                    replay_of(c)) or found
                continue
            if m.startswith(PARTIAL_ACK):
                if PARTIAL_ACK in reported:
                    continue
                reported.add(PARTIAL_ACK)
                found = chk.finding(SITE, {"family": "dtls13", "monitor": PARTIAL_ACK}, "%s [%s]" % (m, describe(c)),
                                    replay_of(c)) or found
                continue
            if m.startswith(REPEAT_FRAG):
                if REPEAT_FRAG in reported:
                    continue
                reported.add(REPEAT_FRAG)
                found = chk.finding(SITE_REPEAT, SIG_REPEAT,
                                    "%s [variant %s, %d copies of fragment %s every 400 ms to the %s]" % (
                                        m, c["variant"], len(c.get("inject") or []),
                                        {k: (c.get("inject") or [{}])[0].get(k) for k in ("ht", "ms", "fo", "fl", "tl")},
                                        (c.get("inject") or [{}])[0].get("to")), replay_of(c)) or found
                continue
            key = (c["variant"], re.split(r" at \d| gaps|: client=| \d+ ms", m)[0][:80], bool(c.get("inject")),
                   bool(c.get("server_writes")))
            if key in reported:
                continue
            reported.add(key)
            sig = {"family": "dtls13", "variant": c["variant"], "monitor": key[1]}
            if c.get("inject"):
                sig["injected"] = True
            if c.get("server_writes"):
                sig["server_writes"] = True
            found = chk.finding(SITE, sig, "%s [%s]" % (m, describe(c)), replay_of(c)) or found
    # a trace far longer than anything the unchanged tree produces is not replayed (the term would not fit in coqc):
    # it is judged by the monitors alone
    huge = [c for c in cases if len(c["events"]) > MAX_EVENTS]
    for c in huge[:1]:
        m = monitor_liveness(c) or ("%d events in one handshake (limit for replay %d)" % (len(c["events"]), MAX_EVENTS))
        found = chk.finding(SITE, {"family": "dtls13", "variant": c["variant"], "monitor": "trace too long to replay"},
                            "%s [%s]" % (m, describe(c)), dict(replay_of(c), events=len(c["events"]))) or found
    # a forged second ClientHello is judged by the cookie monitor alone: the model has no cookie bytes
    n_forged = sum(1 for c in cases if c.get("forge"))
    all_cases = cases
    cases = [c for c in cases if len(c["events"]) <= MAX_EVENTS and not c.get("forge")]
    proved = _prove(chk, prop, found, regenerate)
    n_ck = n_ck_bad = 0
    if monitor is monitor_cookie and (proved or getattr(chk, "hs13_proof_error", None) is None):
        okc, _ = vlib.coq_make(["theories/Hs/Hs13Cookie.vo"])
        if okc:
            n_ck, n_ck_bad = cookie_model_check(chk, all_cases, found)
    n_bad = 0
    if proved or getattr(chk, "hs13_proof_error", None) is None:
        okm, mo = vlib.coq_make([RUN_TARGET, "theories/Gen/GeneratedHs13.vo"])
        if okm:
            bad = accept(chk, leg, cases)
            n_bad = len(bad or [])
            judged = [(i, (monitor(cases[i], F.get(cases[i]["variant"], 1)) if monitor is monitor_discipline
                           else monitor(cases[i])) or monitor_liveness(cases[i])) for i in (bad or [])[:200]]
            judged.sort(key=lambda x: (x[1] is None, x[0]))      # a mismatch that a monitor also condemns comes first
            for i, m in judged[:1]:
                c = cases[i]
                chk.finding(SITE, {"family": "dtls13", "variant": c["variant"], "monitor": "model-mismatch"},
                            "DTLS 1.3 trace not accepted by the Hs/Hs13 model [%s]%s" % (describe(c), (": " + m) if m else ""),
                            dict(replay_of(c), correspondence="Hs.Hs13Run.hs13_ok", model_says=diagnose(c)[-1500:]),
                            no_input=(m is None and not found))
    if not proved and not found:
        err = getattr(chk, "hs13_proof_error", (prop, "?", ""))
        chk.broken("proof obligation Properties/%s.v no longer checks (%s)" % (prop, err[1]), err[2])
    nt = [c for c in all_cases if nontrivial(c)]
    chk.count(leg, len(all_cases), [case_key(c) for c in nt],
              samples=[{"variant": c["variant"], "mask": c["mask"], "interval_ms": c["interval_ms"], "backoff": not c["no_backoff"],
                        "silence": [c.get("silence_to"), c.get("silence_from"), c.get("silence_until")],
                        "tdone_ms": c["tdone"], "datagrams": sum(1 for e in c["events"] if e["ev"] == "emit")} for c in nt[-3:]])
    chk.cov["traces_validated_against_impl"] = chk.cov.get("traces_validated_against_impl", 0) + len(cases)
    vs = {}
    for c in cases:
        vs[c["variant"]] = vs.get(c["variant"], 0) + 1
    n_timer = sum(len(timer_groups(c, s)) for c in cases for s in ("client", "server"))
    chk.leg_info(leg, variants=vs, not_accepted_by_model=n_bad, forged_second_hellos=n_forged,
                 cookie_value_model_cases=n_ck, cookie_value_model_mismatches=n_ck_bad, monitor=monitor_name, rule=rule,
                 emitted_datagrams_predicted=sum(1 for c in cases for e in c["events"] if e["ev"] == "emit"),
                 timer_expiries_observed=n_timer, max_completion_ms=max([c["tdone"] for c in cases] or [0]),
                 reached_cap=sum(1 for c in cases for s in ("client", "server")
                                 if any(b - a == 60000 for (a, _), (b, _) in zip(timer_groups(c, s), timer_groups(c, s)[1:]))),
                 theorems="Properties/%s.v" % prop,
                 note="DTLS 1.3 handshake machinery decided by proof on Hs/Hs13.v; every emitted datagram of every trace "
                      "(records, ACK contents as sets, virtual time, sender) and establishment predicted by the model")
    return {"cases": len(cases), "mismatches": n_bad, "found": found, "proved": proved}


def run_c02(chk, regenerate=True):
    """C02, DTLS 1.3 leg: theorems Properties/C02hs13.v + replay of fault-mask traces + completion monitor.
    Does not call chk.prove / chk.finish."""
    return _leg(chk, "C02hs13", "hs13_masks", "^TestVerifHs13Masks$", 1302, monitor_liveness, "completion",
                "8 DTLS 1.3 variants (HelloRetryRequest for the cookie, HRR that changes the group, no HRR, client auth, "
                "MTU 300/120); masks = action per emitted datagram (pass/drop/dup/hold:k/late:ms): every single fault over the "
                "first 14 datagrams on every variant, every mask over the first 3 (thorough: 5) datagrams and every pair of "
                "drop/delay faults over the first 10 (14) on the two base variants, overtaken datagrams followed by a loss, seeded "
                "random longer masks; every trace replayed through the Coq model. Non-trivial = at least one fault.",
                regenerate=regenerate)


def run_c17(chk, regenerate=True):
    """C17, DTLS 1.3 leg: theorems Properties/C17hs13.v + replay of timed traces + discipline monitors."""
    return _leg(chk, "C17hs13", "hs13_timed", "^TestVerifHs13Timed$", 1317, monitor_discipline, "discipline",
                "initial interval 10 ms / 250 ms / 1 s / 40 s, backoff on/off; every datagram towards one side or both dropped "
                "from datagram #k on for up to 300 s (interval law up to the 60 s cap; the other side sees only stale flights: "
                "emission bound), bursts delivered in reverse order, fault masks under non-default timers; replayed with "
                "virtual timestamps. Non-trivial = a fault, a silence or a reversal.", regenerate=regenerate)


def run_c13(chk, regenerate=True):
    """C13, DTLS 1.3 leg: theorems Properties/C13hs13.v + replay of HelloRetryRequest-phase traces + cookie monitor."""
    return _leg(chk, "C13hs13", "hs13_cookie", "^TestVerifHs13Cookie$", 1313, monitor_cookie, "cookie-exchange",
                "every mask over the first 3 (thorough: 5) datagrams (ClientHello fragments, HelloRetryRequest, second "
                "ClientHello) on 7 variants, client cut off for up to 70 s (server sees repeated first ClientHellos only), "
                "intervals 10 ms / 250 ms / 1 s with and without backoff, reversed bursts, seeded random masks; forged stale "
                "non-ClientHello fragments (1-byte Finished / ClientKeyExchange fragment, message_seq 0) injected after the "
                "HelloRetryRequest, 1 or 3 more than InitialRetransmitInterval/2 apart and 3 closer than that.",
                regenerate=regenerate)
