"""rec13 - standalone driver for the DTLS 1.3 record-layer legs (Rec/Rec13.v): runs the C05, C06 and C09 legs of
checks/rec13lib.py under one check id (`bin/check rec13 --tier quick`). The legs are normally called from
checks/c05.py, c06.py and c09.py."""
import rec13lib


def run(chk):
    rec13lib.run_c05(chk)
    rec13lib.run_c06(chk)
    rec13lib.run_c09(chk)
    chk.finish(
        level="proof",
        rule="pure: exhaustive first bytes / random bodies for the unified header, record, datagram, inner plaintext, "
             "record-number reconstruction (edges of the 8/16-bit ranges and of uint64), mask, nonce; e2e: per "
             "suite/CID variant and KeyUpdate history, every single-bit flip of the header, body/tag bit flips, epoch "
             "re-labelling, truncation/extension, CID edits, replays, 8-bit/no-length/padded/odd-inner-type records, "
             "stale and future generations, far-future numbers, window edges, unprotected records; sessions with "
             "reordering/duplication/loss; send: every emitted record opened with the sender's secrets. "
             "Non-trivial = non-genuine step, distinct by (variant, scenario, step kind).")
