"""rec13 - DTLS 1.3 record layer legs of C05 / C06 / C09.

Model coq/theories/Rec/Rec13.v (unified header codec, record-number reconstruction, candidate
generations by epoch bits, per-epoch replay windows, receive path of conn.go for DTLS 1.3, send-side
record-number allocation), theorems Rec/Rec13Sound.v stated in Properties/C05rec13.v, C06rec13.v,
C09rec13.v, correspondence harness harness/overlay/root/zz_verif_rec13_*_test.go (+ the in-package
file under harness/overlay/pkgs/internal/ciphersuite).

    (call them AFTER chk.prove(): they add their theorems to chk.cov["obligations"/"discharged"/"theorems"])
    run_c05(chk)   record authenticity (forged / altered / re-labelled / truncated records are inert)
    run_c06(chk)   anti-replay, per-epoch windows across KeyUpdate generations, reconstruction
    run_c09(chk)   (key, nonce) uniqueness on the send side

Each is an extra leg for checks/c05.py, c06.py, c09.py: it builds and audits its own Properties
target, runs its part of the harness, evaluates the cases in Coq, runs the property's own monitor on
the implementation trace and reports through chk.finding / chk.broken / chk.count / chk.leg_info."""
import json
import os
import re
import sys

import vlib
from vlib import cN, clist, cbool, chex

IMPORTS = "From DtlsV Require Import Lib.Bytes Rec.Window Rec.Rec13 Rec.Rec13Run."
TARGETS = {
    "C05": "theories/Properties/C05rec13.vo",
    "C06": "theories/Properties/C06rec13.vo",
    "C09": "theories/Properties/C09rec13.vo",
}
SITE_RX = "conn.go DTLS 1.3 receive path (prepareCiphertextPacket / openCiphertextRecord / protectedReplayMarker)"
SITE_TX = "conn.go DTLS 1.3 send path (sealRecordContent / nextLocalSequenceNumber / commitLocalKeyUpdate)"
SITE_PURE = "pkg/protocol/recordlayer header_13.go recordlayer_13.go / conn.go reconstructSequenceNumber"
SITE_PLAIN = "conn.go prepareLegacyPacket / handleRecordContent (unprotected epoch-0 records after the DTLS 1.3 handshake)"
SIG_ALERT = {"monitor": "unprotected-fatal-alert-closes-established-connection", "version": "1.3"}
SIG_HS = {"monitor": "unprotected-post-handshake-message-answered-with-fatal-alert", "version": "1.3"}
SIG_ACK = {"monitor": "unprotected-ack-commits-key-update", "version": "1.3"}
SITE_RECON = "conn.go reconstructSequenceNumber (16-bit record number) under WithReplayProtectionWindow > 32767"
SIG_RECON = {"monitor": "in-window-record-dropped-beyond-half-sequence-range", "version": "1.3"}

_cache = {}
if hasattr(sys, "set_int_max_str_digits"):
    sys.set_int_max_str_digits(0)       # replay-window bitmaps of tens of thousands of bits


def env(chk, out):
    return {"VERIF_SEED": chk.seed, "VERIF_TIER": chk.tier, "VERIF_OUT": out}


def cnat(n):
    return "%d%%nat" % n if n < 3000 else "(N.to_nat %d)" % n


def copt(v):
    return "None" if v is None else "(Some %d)" % v


# ----------------------------------------------------------------- proofs

def prove(chk, prop):
    """build Properties/<prop>rec13.vo, audit, collect Print Assumptions; adds to chk.cov"""
    name = prop + "rec13"
    bad = [b for b in vlib.coq_audit() if "Rec13" in b or "rec13" in b]
    if bad:
        chk.broken("coq-audit: forbidden construct in the rec13 development", "\n".join(bad))
        return False
    ok, out = vlib.coq_make([TARGETS[prop], "theories/Rec/Rec13Run.vo"])
    if not ok:
        m = re.search(r'File "([^"]+)", line (\d+)', out)
        where = ("%s:%s" % (m.group(1), m.group(2))) if m else "?"
        chk.broken("proof obligation Properties/%s.v no longer checks (%s)" % (name, where), out)
        return False
    ok2, theorems, atext = vlib.coq_assumptions(name)
    closed = atext.count("Closed under the global context")
    axioms = sorted(set(re.findall(r"^([A-Za-z0-9_.']+)\s*:", atext, re.M)))
    chk.cov["obligations"] += len(theorems)
    chk.cov["discharged"] += len(theorems) if ok2 else 0
    chk.cov.setdefault("theorems", [])
    chk.cov["theorems"] = list(chk.cov["theorems"]) + theorems
    chk.leg_info("rec13-proof-" + prop, theorems=theorems, closed=closed, axioms=axioms,
                 checker_cmd="cd /verif/coq && make -j16 %s" % TARGETS[prop])
    if not ok2 or axioms or closed != len(theorems):
        chk.broken("Print Assumptions of Properties/%s.v: %d/%d closed, axioms %s" %
                   (name, closed, len(theorems), axioms), atext)
        return False
    return True


# ----------------------------------------------------------------- pure-function leg

PURE_KINDS = {
    "C05": {"hun", "hmar", "crec", "unpack", "inner", "mask", "low", "ack", "rrc", "cands", "hasgen", "queueable"},
    "C06": {"recon", "low", "cands", "hasgen", "queueable"},
    "C09": {"hmar", "mask", "nonce"},
}


def uterm(c):
    k, n, b, rn, rb, ok = c["k"], c["n"], c["b"], c["rn"], c["rb"], c["ok"]
    if k == "hun":
        if ok:
            return "(UHun %s %s true %s %d %s %d %s %d %s)" % (
                cnat(n[0]), chex(b[0]), chex(rb[0]), rn[0], cbool(rn[1]), rn[2], cbool(rn[3]), rn[4], cnat(rn[5]))
        return "(UHun %s %s false [] 0 false 0 false 0 0%%nat)" % (cnat(n[0]), chex(b[0]))
    if k == "hmar":
        return "(UHmar %s %d %s %d %s %d %s)" % (chex(b[0]), n[0], cbool(n[1]), n[2], cbool(n[3]), n[4], chex(rb[0]))
    if k == "crec":
        if ok:
            return "(UCrec %s %s true %s %d %s %d %s %d %s)" % (
                cnat(n[0]), chex(b[0]), chex(rb[0]), rn[0], cbool(rn[1]), rn[2], cbool(rn[3]), rn[4], chex(rb[1]))
        return "(UCrec %s %s false [] 0 false 0 false 0 [])" % (cnat(n[0]), chex(b[0]))
    if k == "unpack":
        return "(UUnpack %s %s %s %s %s)" % (cnat(n[0]), cbool(n[1]), chex(b[0]), cbool(ok), clist([chex(x) for x in rb]))
    if k == "inner":
        if ok:
            return "(UInner %s true %s %d %s)" % (chex(b[0]), chex(rb[0]), rn[0], cnat(rn[1]))
        return "(UInner %s false [] 0 0%%nat)" % chex(b[0])
    if k == "recon":
        return "(URecon %d %s %d %d)" % (n[0], cbool(n[1]), n[2], rn[0])
    if k == "queueable":
        return "(UQueueable %d %d %s %d)" % (n[0], n[1], cbool(ok), rn[0])
    if k == "ack":
        return "(UAck %s %s)" % (chex(b[0]), cbool(ok))
    if k == "rrc":
        return "(URrc %s %s)" % (chex(b[0]), cbool(ok))
    if k == "cands":
        return "(UCands %d %s %s)" % (n[0], vlib.cNlist(n[1:]), vlib.cNlist(rn))
    if k == "hasgen":
        return "(UHasgen %d %s %s)" % (n[0], vlib.cNlist(n[1:]), cbool(ok))
    if k == "mask":
        return "(UMask %d %s %d %d %d)" % (n[0], cbool(n[1]), n[2], n[3], rn[0])
    if k == "low":
        return "(ULow %d %s %d %s)" % (n[0], cbool(n[1]), n[2], cbool(ok))
    if k == "nonce":
        return "(UNonce %s %d %s %s)" % (chex(b[0]), n[0], cbool(ok), chex(rb[0]) if ok else "[]")
    return None


def pure_cases(chk):
    """run both pure harnesses once per process; returns list of cases or None"""
    if "pure" in _cache:
        return _cache["pure"]
    cases = []
    for pkg, test in ((".", "^TestVerifRec13Pure$"), ("./internal/ciphersuite", "^TestVerifRec13PureCS$")):
        out = vlib.out_path("rec13pure")
        rc, o = vlib.go_test(pkg, test, env(chk, out), tags=["rec13"], timeout=900)
        cs = vlib.read_jsonl(out)
        vlib.cleanup(out)
        if rc != 0:
            chk.broken("correspondence harness %s (%s) no longer runs against /repo (%s)" %
                       (test, pkg, vlib.classify_go_failure(o)), o)
            _cache["pure"] = None
            return None
        cases += cs
    _cache["pure"] = cases
    return cases


def run_pure(chk, prop):
    cases = pure_cases(chk)
    if cases is None:
        return
    leg = "rec13-pure"
    for c in cases:
        if c["k"].endswith("-panic"):
            chk.finding(SITE_PURE, {"monitor": "panic", "function": c["k"][:-6], "input": c["b"][0]},
                        "panic in %s on input %s" % (c["k"][:-6], c["b"][0]), {"case": c})
    sel = [c for c in cases if c["k"] in PURE_KINDS[prop]]
    terms = [uterm(c) for c in sel]
    bad, err = vlib.coq_mismatches("rec13u_" + prop.lower(), IMPORTS, "ucase", "unit_ok", terms, shard=600)
    if bad is None:
        chk.broken("rec13 pure-function correspondence evaluation failed in coqc", err)
        return
    for i in bad[:3]:
        c = sel[i]
        chk.finding(SITE_PURE, {"monitor": "model-mismatch", "function": c["k"]},
                    "real function and Rec/Rec13.v disagree on %s" % c["k"],
                    {"case": c, "correspondence": "Rec.Rec13Run.unit_ok", "term": terms[i]}, no_input=True)
    kinds = {}
    for c in sel:
        kinds[c["k"]] = kinds.get(c["k"], 0) + 1
    chk.count(leg, len(sel), [(c["k"], tuple(c["n"]), tuple(c["b"])) for c in sel],
              samples=[sel[0], sel[len(sel) // 2]] if sel else [])
    chk.leg_info(leg, **{"functions_" + prop: kinds})


# ----------------------------------------------------------------- end-to-end receive leg

def bitmap(bits):
    n = 0
    for j, w in enumerate(bits):
        n |= w << (64 * j)
    return n


def pstate_parts(st):
    wins = clist(["(%s, %d, %s)" % (cbool(w["m48"]), w["latest"], vlib.cNlist(w["bits"])) for w in st["wins"]])
    cur = None if st["cur"] < 0 else st["cur"]
    return st["epoch"], cur, sorted(st["old"]), wins, vlib.cNlist(st["high"])


def pstate_term(st):
    ep, cur, old, wins, high = pstate_parts(st)
    return "(%d, %s, %s, %s, %s, %s, %s)" % (ep, copt(cur), vlib.cNlist(old), wins, high, cnat(len(st["queue"])),
                                             cnat(len(st.get("early", []))))


def init_term(c):
    st = c["init"]
    ep, cur, old, wins, high = pstate_parts(st)
    return "(mk_state %s %d %s %s %s %s %s %s %s %s %s %s)" % (
        cnat(c["w"]), ep, copt(cur), vlib.cNlist(old), wins, high, clist([chex(q) for q in st["queue"]]),
        chex(st["cid"]), cbool(st["cidneg"]), cbool(st.get("rrc", False)), cbool(st.get("estab", False)),
        clist([chex(q) for q in st.get("early", [])]))


def op_term(o):
    k = o["op"]
    if k == "arrive":
        return "(Arrive %s)" % chex(o["hex"])
    if k == "install":
        return "(InstallRead %d)" % o["e"]
    if k == "remote":
        return "(SetRemoteEpoch %d)" % o["e"]
    if k == "cid":
        return "(SetExt %s %s %s)" % (chex(o.get("hex", "")), cbool(o.get("neg", False)), cbool(o.get("rrc", False)))
    if k == "estab":
        return "SetEstablished"
    return "Drain"


def obs_term(o):
    st = "None" if o["state"] is None else "(Some %s)" % pstate_term(o["state"])
    return "(%s, %s, %d, %s, %s)" % (clist([chex(p) for p in o["delivered"]]),
                                     clist(["(%d, %d)" % (a[0], a[1]) for a in o["alerts"]]),
                                     o["errs"], cbool(o["closed"]), st)


def e2e_term(c):
    log = clist(["(%d, %d, %s, %s, %s)" % (l["e"], l["q"], chex(l["aad"]), chex(l["ct"]), chex(l["inner"]))
                 for l in c["log"]])
    masks = clist(["(%d, %s, %d)" % (m[0], chex(m[1]), m[2]) for m in c["masks"]])
    steps = clist(["(%s, %s)" % (clist([op_term(o) for o in s["ops"]]), obs_term(s["obs"])) for s in c["steps"]])
    return "(mk_e2e %s %s %s %s %s)" % (cnat(c["w"]), init_term(c), log, masks, steps)


def e2e_cases(chk):
    if "e2e" in _cache:
        return _cache["e2e"]
    out = vlib.out_path("rec13e2e")
    rc, o = vlib.go_test(".", "^TestVerifRec13E2E$", env(chk, out), tags=["rec13"], timeout=3000)
    cases = vlib.read_jsonl(out)
    vlib.cleanup(out)
    if rc != 0:
        kind = vlib.classify_go_failure(o)
        if kind == "panic":
            chk.finding(SITE_RX, {"monitor": "panic"}, "panic in the DTLS 1.3 receive path under injected records",
                        {"output": o[-4000:]})
        else:
            chk.broken("correspondence harness TestVerifRec13E2E no longer runs against /repo (%s)" % kind, o)
        cases = None
    _cache["e2e"] = cases
    return cases


def e2e_mismatches(chk, cases):
    """indices of cases whose per-step observations differ from the model, with the first bad step"""
    if "e2e_bad" in _cache:
        return _cache["e2e_bad"]
    terms = [e2e_term(c) for c in cases]
    bad, err = vlib.coq_mismatches("rec13e", IMPORTS, "e2e_case", "e2e_ok", terms, shard=2, timeout=1500)
    if bad is None:
        chk.broken("rec13 end-to-end correspondence evaluation failed in coqc", err)
        _cache["e2e_bad"] = None
        return None
    res = []
    for i in bad[:3]:
        txt = ("From Coq Require Import List NArith ZArith String.\nImport ListNotations.\n" + IMPORTS +
               "\nOpen Scope N_scope.\nDefinition c := %s.\nDefinition r := Eval vm_compute in "
               "(match e2e_first_bad c with Some (i, _) => Some i | None => None end).\nPrint r.\n"
               "Definition m := Eval vm_compute in e2e_first_bad c.\nPrint m.\n" % terms[i])
        ok, out = vlib.coq_run(txt, "rec13dbg_%d_%d" % (os.getpid(), i), timeout=900)
        m = re.search(r"r\s*=\s*Some\s+(\d+)", out)
        res.append((i, int(m.group(1)) if m else -1, out[-1500:]))
    for i in bad[3:]:
        res.append((i, -1, ""))
    _cache["e2e_bad"] = res
    return res


def steps_of(c):
    return c["steps"]


def monitor_c05(c):
    """record authenticity on the implementation trace: (step index, text) or None.
    Non-authentic ciphertext records (mutants) must have no visible effect and must not touch the
    replay / record-number state; whatever Read returns was written by the peer."""
    written = set(c["written"])
    for i, s in enumerate(c["steps"]):
        o = s["obs"]
        for p in o["delivered"]:
            if p not in written:
                return i, "Read returned a payload the peer never wrote"
        if s["tag"].startswith("mutant:"):
            if o["delivered"]:
                return i, "altered record (%s) delivered a payload" % s["tag"]
            if o["alerts"] or o["errs"] or o["emitted"]:
                return i, "altered record (%s) had a visible effect: alerts=%s errs=%d emitted=%d" % (
                    s["tag"], o["alerts"], o["errs"], o["emitted"])
            if o["state"] is not None:
                prev = prev_state(c, i)
                if not same_except_queue(prev, o["state"]):
                    return i, "altered record (%s) changed replay / record-number / key state" % s["tag"]
        if (c["scen"].startswith("mutation") and s["tag"] == "genuine" and s["pl"] >= 0 and s["auth"] == 1 and i > 0
                and c["steps"][i - 1]["tag"].startswith("mutant:") and not c["steps"][i - 1]["obs"]["closed"]):
            # the genuine record behind its mutants is still accepted (the script keeps it inside the window)
            want = c["written"][s["pl"]] if s["pl"] < len(c["written"]) else None
            if want is not None and want not in delivered_before(c, i) and o["delivered"] != [want]:
                return i, "genuine record not delivered after its altered copies"
    return None


def delivered_before(c, i):
    out = set()
    for s in c["steps"][:i]:
        out.update(s["obs"]["delivered"])
    return out


def prev_state(c, i):
    st = c["init"]
    for s in c["steps"][:i]:
        if s["obs"]["state"] is not None:
            st = s["obs"]["state"]
    return st


def same_except_queue(a, b):
    return all(a[k] == b[k] for k in ("epoch", "cur", "old", "wins", "high", "closed", "cid", "cidneg", "rrc", "estab", "early")) and \
        b["queue"][:len(a["queue"])] == a["queue"] and len(b["queue"]) <= 100


def monitor_c06(c):
    """at-most-once delivery of every written payload over the whole trace; a record sealed under a
    generation the receiver has installed but not yet authorised (remote epoch not moved) is not delivered"""
    seen = {}
    for i, s in enumerate(c["steps"]):
        for p in s["obs"]["delivered"]:
            if p in seen:
                return i, "payload delivered twice (first at step %d)" % seen[p]
            seen[p] = i
        if s["tag"] == "craft:early-next-gen" and s["obs"]["delivered"]:
            return i, "record of a generation not yet authorised (epoch above the remote epoch) delivered"
    if c["scen"].startswith("early/"):
        # application records that overtook the client's Finished: the handshake completes and Read returns
        # each of them exactly once
        if c.get("note"):
            return len(c["steps"]) - 1, "application records ahead of the client's Finished: %s" % c["note"]
        for i, s in enumerate(c["steps"]):
            if s["tag"] == "craft:early-app":
                want = c["written"][s["pl"]]
                n = sum(st["obs"]["delivered"].count(want) for st in c["steps"])
                if n != 1:
                    return i, "application record that overtook the client's Finished delivered %d times" % n
    return None


def monitor_bigwindow(c):
    """K-C06-2: (index, inside_window, delivered) of the late record in a bigwindow scenario"""
    m = re.match(r"bigwindow/w(\d+)/behind(\d+)", c["scen"])
    if not m:
        return None
    w, behind = int(m.group(1)), int(m.group(2))
    for i, s in enumerate(c["steps"]):
        if s["tag"] == "late-in-window":
            return i, behind < w, bool(s["obs"]["delivered"]), w, behind
    return None


def shrink(c, idx):
    d = dict(c)
    keep = [i for i, s in enumerate(c["steps"]) if i <= idx and (i == idx or s["auth"] != 0)]
    d["steps"] = [c["steps"][i] for i in keep]
    return d


def plain_alert_steps(cases):
    out = []
    for ci, c in enumerate(cases):
        for i, s in enumerate(c["steps"]):
            if s["tag"] == "plain:alert-fatal-epoch0" and s["obs"]["closed"]:
                out.append((ci, i))
    return out


def run_e2e(chk, prop):
    cases = e2e_cases(chk)
    if cases is None:
        return
    leg = "rec13-e2e"
    found = False
    mon = monitor_c05 if prop == "C05" else monitor_c06
    for c in cases:
        m = mon(c)
        if m:
            found = True
            i, text = m
            chk.finding(SITE_RX, {"monitor": text.split(" (")[0], "variant": c["variant"], "version": "1.3"},
                        "%s [DTLS 1.3 %s, %s]" % (text, c["variant"], c["scen"]),
                        {"how": "establish `variant`, run the scenario, deliver steps[*].ops[0].hex in order to `side`",
                         "case": shrink(c, i)})
            break
    if prop == "C06":
        for c in cases:
            r = monitor_bigwindow(c)
            if r and r[1] and not r[2]:
                i, _, _, w, behind = r
                replay = {"how": "DTLS 1.3, WithReplayProtectionWindow(%d); hold one application record, let the newest "
                                 "record number of its epoch move %d ahead, deliver the held record" % (w, behind),
                          "note": c.get("note"), "case": shrink(c, i)}
                if behind >= 32767:
                    chk.finding(SITE_RECON, SIG_RECON,
                                "DTLS 1.3 with replay window %d: a genuine record %d behind the newest one - inside the "
                                "window, never seen - is dropped: its 16-bit wire number is rebuilt 65536 too high and "
                                "the record does not open [%s]" % (w, behind, c["variant"]), replay)
                else:
                    found = True
                    chk.finding(SITE_RX, {"monitor": "in-window record dropped", "version": "1.3"},
                                "genuine record %d behind the newest (window %d) not delivered [%s]" % (behind, w, c["variant"]),
                                replay)
    if prop == "C05":
        pa = plain_alert_steps(cases)
        if pa:
            ci, i = pa[0]
            c = cases[ci]
            chk.finding(SITE_PLAIN, SIG_ALERT,
                        "an unprotected (epoch 0, legacy header) fatal alert injected after the handshake closes an "
                        "established DTLS 1.3 connection [%s]: datagram %s" % (c["variant"], c["steps"][i]["ops"][0]["hex"]),
                        {"how": "establish DTLS 1.3, then deliver the 15-byte datagram to either side",
                         "datagram": c["steps"][i]["ops"][0]["hex"], "obs": c["steps"][i]["obs"], "variant": c["variant"]})
    bad = e2e_mismatches(chk, cases)
    if bad:
        for (ci, si, dbg) in bad[:1]:
            c = cases[ci]
            m = mon(c)
            chk.finding(SITE_RX, {"monitor": "model-mismatch", "variant": c["variant"], "version": "1.3"},
                        "per-step observations differ from Rec/Rec13.v [DTLS 1.3 %s, %s, side %s, step %d %s]" % (
                            c["variant"], c["scen"], c["side"], si, c["steps"][si]["tag"] if si >= 0 else "?"),
                        {"case": shrink(c, si) if si >= 0 else c, "model": dbg,
                         "correspondence": "Rec.Rec13Run.e2e_ok"}, no_input=(m is None and not found))
    if _cache.get("e2e_counted"):
        return
    _cache["e2e_counted"] = True
    nsteps = sum(len(c["steps"]) for c in cases)
    keys, tags = [], {}
    for c in cases:
        for s in c["steps"]:
            t = s["tag"].split(":")[0] + (":" + s["tag"].split(":")[1] if ":" in s["tag"] else "")
            tags[t.split(":")[0]] = tags.get(t.split(":")[0], 0) + 1
            if s["tag"] != "genuine":
                keys.append((c["variant"], c["scen"].split("/")[0], s["tag"]))
    chk.count(leg, nsteps, keys, samples=[{"variant": c["variant"], "scen": c["scen"], "step": c["steps"][-1]["tag"],
                                           "obs": {k: v for k, v in c["steps"][-1]["obs"].items() if k != "state"}}
                                          for c in cases[:2]])
    chk.cov["traces_validated_against_impl"] += len(cases)
    chk.leg_info(leg, variants=sorted({c["variant"] for c in cases}), step_kinds=tags, connections=len(cases),
                 scenarios=sorted({c["scen"].split("/")[0] for c in cases}))


# ----------------------------------------------------------------- unprotected records after the handshake

def run_plain(chk):
    """forged epoch-0 alert / ACK / KeyUpdate records against an established DTLS 1.3 connection"""
    out = vlib.out_path("rec13plain")
    rc, o = vlib.go_test(".", "^TestVerifRec13Plain$", env(chk, out), tags=["rec13"], timeout=1200)
    cases = vlib.read_jsonl(out)
    vlib.cleanup(out)
    leg = "rec13-unprotected"
    if rc != 0:
        chk.broken("harness TestVerifRec13Plain no longer runs against /repo (%s)" % vlib.classify_go_failure(o), o)
        return
    for c in cases:
        if c["control"]:
            if c["closed"] or c["alerts"] or c["uk_done"]:
                chk.broken("rec13 control run (no forged datagram) is not clean", json.dumps(c))
            continue
        replay = {"how": "establish DTLS 1.3 (%s); deliver `datagram` to the %s (attack %s)" % (c["variant"], c["victim"], c["attack"]),
                  "case": c}
        if c["attack"] == "alert" and c["closed"]:
            chk.finding(SITE_PLAIN, SIG_ALERT,
                        "an unprotected epoch-0 fatal alert (%s) closes an established DTLS 1.3 %s [%s]" % (
                            c["datagram"], c["victim"], c["variant"]), replay)
        if c["attack"] == "keyupdate" and [2, 10] in c["alerts"]:
            chk.finding(SITE_PLAIN, SIG_HS,
                        "an unprotected epoch-0 handshake record carrying KeyUpdate (%s) makes the DTLS 1.3 %s answer its "
                        "peer with a fatal unexpected_message alert [%s]" % (c["datagram"], c["victim"], c["variant"]), replay)
        if c["attack"] == "ack" and (c["uk_done"] and c["uk_err"] == "ok" or c["epoch_after"] != c["epoch_before"]):
            chk.finding(SITE_PLAIN, SIG_ACK,
                        "a forged unprotected ACK commits the pending KeyUpdate of the DTLS 1.3 %s: UpdateKeys returned %s, "
                        "sending epoch %d -> %d, the peer read %d payload(s) afterwards [%s]" % (
                            c["victim"], c["uk_err"], c["epoch_before"], c["epoch_after"], c["peer_read"], c["variant"]), replay)
    attacks = [c for c in cases if not c["control"]]
    chk.count(leg, len(cases), [(c["variant"], c["attack"], c["victim"]) for c in attacks],
              samples=[{k: c[k] for k in ("attack", "victim", "variant", "datagram", "closed", "alerts", "uk_done")} for c in attacks[:3]])
    chk.leg_info(leg, attacks=sorted({c["attack"] for c in cases}), variants=sorted({c["variant"] for c in cases}))


# ----------------------------------------------------------------- send side

def monitor_c09(c):
    """(index, text) or None: record-number uniqueness / monotonicity / header form on one sender's emissions"""
    seen, last = {}, {}
    for i, r in enumerate(c["recs"]):
        k = (r["e"], r["q"])
        if k in seen:
            return i, "record number (epoch %d, seq %d) emitted twice (records %d and %d)" % (r["e"], r["q"], seen[k], i)
        seen[k] = i
        if r["e"] in last and r["q"] <= last[r["e"]]:
            return i, "record numbers of epoch %d not increasing in emission order (%d after %d)" % (r["e"], r["q"], last[r["e"]])
        last[r["e"]] = r["q"]
        if r["q"] > 2 ** 48 - 1:
            return i, "record number above 2^48-1"
        if not r["plain"] and not (r["s16"] and r["l"] and r["c"] == c["use_cid"]):
            return i, "unexpected unified-header form (S=%s L=%s C=%s)" % (r["s16"], r["l"], r["c"])
    if c["unopenable"]:
        return len(c["recs"]), "%d emitted record(s) cannot be opened with the sender's own write keys" % c["unopenable"]
    return None


def send_term(c):
    ops, obs, inst = [], [], set()
    for r in c["recs"]:
        if r["plain"]:
            continue
        if r["e"] not in inst:
            inst.add(r["e"])
            ops.append("SInstallWrite %d" % r["e"])
        ops.append("SWriteAt %d %d [0]" % (r["e"], r["type"] if r["type"] > 0 else 23))
        obs.append("(%d, %d)" % (r["e"], r["q"]))
    return "(%s, %s)" % (clist(ops), clist(obs))


def run_send(chk):
    out = vlib.out_path("rec13send")
    rc, o = vlib.go_test(".", "^TestVerifRec13Send$", env(chk, out), tags=["rec13"], timeout=2400)
    cases = vlib.read_jsonl(out)
    vlib.cleanup(out)
    leg = "rec13-send"
    found = False
    if rc != 0:
        kind = vlib.classify_go_failure(o)
        if kind == "panic":
            found = True
            chk.finding(SITE_TX, {"monitor": "panic"}, "panic on the DTLS 1.3 send path", {"output": o[-4000:]})
        else:
            chk.broken("harness TestVerifRec13Send no longer runs against /repo (%s)" % kind, o)
            return
    for c in cases:
        m = monitor_c09(c)
        if m:
            found = True
            i, text = m
            chk.finding(SITE_TX, {"monitor": text.split(" (")[0], "version": "1.3"},
                        "%s [DTLS 1.3 %s, %s, %s]" % (text, c["variant"], c["side"], c["scen"]),
                        {"how": "run the session (seed, scenario), open every datagram `side` wrote with its own write secrets",
                         "case": {k: v for k, v in c.items() if k != "recs"}, "records": c["recs"][max(0, i - 5):i + 1]})
            break
    terms = [send_term(c) for c in cases]
    bad, err = vlib.coq_mismatches("rec13s", IMPORTS, "send_case", "send_ok", terms, shard=8)
    if bad is None:
        chk.broken("rec13 send-side correspondence evaluation failed in coqc", err)
    else:
        for i in bad[:1]:
            c = cases[i]
            chk.finding(SITE_TX, {"monitor": "model-mismatch", "variant": c["variant"], "version": "1.3"},
                        "record numbers on the wire differ from the allocation model Rec/Rec13.v send_record "
                        "[DTLS 1.3 %s, %s]" % (c["variant"], c["side"]),
                        {"case": c, "correspondence": "Rec.Rec13Run.send_ok"}, no_input=(monitor_c09(c) is None and not found))
    nrec = sum(len(c["recs"]) for c in cases)
    epochs = sorted({r["e"] for c in cases for r in c["recs"]})
    chk.count(leg, nrec, [(c["variant"], c["side"], c["scen"]) for c in cases if len({r["e"] for r in c["recs"]}) > 2],
              samples=[{"variant": c["variant"], "side": c["side"], "scen": c["scen"], "records": len(c["recs"]),
                        "epochs": sorted({r["e"] for r in c["recs"]})} for c in cases[:3]])
    chk.cov["traces_validated_against_impl"] += len(cases)
    chk.leg_info(leg, sessions=len(cases) // 2, records=nrec, epochs_seen=epochs, variants=sorted({c["variant"] for c in cases}))


# ----------------------------------------------------------------- entry points

ASSUME_AEAD = ("rec13/int_ctxt: the AEAD of a DTLS 1.3 generation opens only (record number, additional data, ciphertext) "
               "tuples sealed under that generation (premise `ideal` of the C05rec13 theorems); the record-number mask "
               "function is unconstrained")


def run_c05(chk, prove_it=True):
    if prove_it:
        prove(chk, "C05")
    run_pure(chk, "C05")
    run_e2e(chk, "C05")
    run_plain(chk)
    chk.assumptions.append(ASSUME_AEAD)
    chk.assumptions.append("rec13: the reassembly buffer's capacity decision (C12) is a parameter of the receive model; "
                           "what the handshake layer does with accepted handshake/ACK records is C20's model")


def run_c06(chk, prove_it=True):
    if prove_it:
        prove(chk, "C06")
    run_pure(chk, "C06")
    run_e2e(chk, "C06")
    chk.assumptions.append("rec13: AEAD correctness (open(seal x) = x) and output length are premises of the "
                           "C06_13_genuine_* theorems; uint64 record numbers below 2^63")


def run_c09(chk, prove_it=True):
    if prove_it:
        prove(chk, "C09")
    run_pure(chk, "C09")
    run_send(chk)
    chk.assumptions.append("rec13: distinct generations have distinct AEAD keys (premise of C09_13_key_nonce_unique); "
                           "fewer than 2^64 emission attempts")
