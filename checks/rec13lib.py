"""rec13 - DTLS 1.3 record layer legs of C05 / C06 / C09.

Model coq/theories/Rec/Rec13.v (unified header codec, record-number reconstruction, candidate
generations by epoch bits, per-epoch replay windows, receive path of conn.go for DTLS 1.3, send-side
record-number allocation), theorems Rec/Rec13Sound.v stated in Properties/C05rec13.v, C06rec13.v,
C09rec13.v, correspondence harness harness/overlay/root/zz_verif_rec13_*_test.go (+ the in-package
file under harness/overlay/pkgs/internal/ciphersuite).

    run_c05(chk)   record authenticity (forged / altered / re-labelled / truncated records are inert)
    run_c06(chk)   anti-replay, per-epoch windows across KeyUpdate generations, reconstruction
    run_c09(chk)   (key, nonce) uniqueness on the send side

Each is an extra leg for checks/c05.py, c06.py, c09.py: it builds and audits its own Properties
target, runs its part of the harness, evaluates the cases in Coq, runs the property's own monitor on
the implementation trace and reports through chk.finding / chk.broken / chk.count / chk.leg_info."""
import json
import os
import re

import vlib
from vlib import cN, clist, cbool, chex

IMPORTS = "From DtlsV Require Import Lib.Bytes Rec.Window Rec.Rec13 Rec.Rec13Run."
TARGETS = {
    "C05": "theories/Properties/C05rec13.vo",
    "C06": "theories/Properties/C06rec13.vo",
    "C09": "theories/Properties/C09rec13.vo",
}
SITE_RX = "conn.go DTLS 1.3 receive path (prepareCiphertextPacket / openCiphertextRecord / protectedReplayMarker)"
SITE_TX = "conn.go DTLS 1.3 send path (sealRecordContent / nextLocalSequenceNumber / commitLocalKeyUpdate)"
SITE_PURE = "pkg/protocol/recordlayer header_13.go recordlayer_13.go / conn.go reconstructSequenceNumber"

_cache = {}


def env(chk, out):
    return {"VERIF_SEED": chk.seed, "VERIF_TIER": chk.tier, "VERIF_OUT": out}


def cnat(n):
    return "%d%%nat" % n


def copt(v):
    return "None" if v is None else "(Some %d)" % v


# ----------------------------------------------------------------- proofs

def prove(chk, prop):
    """build Properties/<prop>rec13.vo, audit, collect Print Assumptions; adds to chk.cov"""
    name = prop + "rec13"
    bad = [b for b in vlib.coq_audit() if "Rec13" in b or "rec13" in b]
    if bad:
        chk.broken("coq-audit: forbidden construct in the rec13 development", "\n".join(bad))
        return False
    ok, out = vlib.coq_make([TARGETS[prop], "theories/Rec/Rec13Run.vo"])
    if not ok:
        m = re.search(r'File "([^"]+)", line (\d+)', out)
        where = ("%s:%s" % (m.group(1), m.group(2))) if m else "?"
        chk.broken("proof obligation Properties/%s.v no longer checks (%s)" % (name, where), out)
        return False
    ok2, theorems, atext = vlib.coq_assumptions(name)
    closed = atext.count("Closed under the global context")
    axioms = sorted(set(re.findall(r"^([A-Za-z0-9_.']+)\s*:", atext, re.M)))
    chk.cov["obligations"] += len(theorems)
    chk.cov["discharged"] += len(theorems) if ok2 else 0
    chk.cov.setdefault("theorems", [])
    chk.cov["theorems"] = list(chk.cov["theorems"]) + theorems
    chk.leg_info("rec13-proof-" + prop, theorems=theorems, closed=closed, axioms=axioms,
                 checker_cmd="cd /verif/coq && make -j16 %s" % TARGETS[prop])
    if not ok2 or axioms or closed != len(theorems):
        chk.broken("Print Assumptions of Properties/%s.v: %d/%d closed, axioms %s" %
                   (name, closed, len(theorems), axioms), atext)
        return False
    return True


# ----------------------------------------------------------------- pure-function leg

PURE_KINDS = {
    "C05": {"hun", "hmar", "crec", "unpack", "inner", "mask", "low", "ack", "rrc", "cands", "hasgen", "queueable"},
    "C06": {"recon", "low", "cands", "hasgen", "queueable"},
    "C09": {"hmar", "mask", "nonce"},
}


def uterm(c):
    k, n, b, rn, rb, ok = c["k"], c["n"], c["b"], c["rn"], c["rb"], c["ok"]
    if k == "hun":
        if ok:
            return "(UHun %s %s true %s %d %s %d %s %d %s)" % (
                cnat(n[0]), chex(b[0]), chex(rb[0]), rn[0], cbool(rn[1]), rn[2], cbool(rn[3]), rn[4], cnat(rn[5]))
        return "(UHun %s %s false [] 0 false 0 false 0 0%%nat)" % (cnat(n[0]), chex(b[0]))
    if k == "hmar":
        return "(UHmar %s %d %s %d %s %d %s)" % (chex(b[0]), n[0], cbool(n[1]), n[2], cbool(n[3]), n[4], chex(rb[0]))
    if k == "crec":
        if ok:
            return "(UCrec %s %s true %s %d %s %d %s %d %s)" % (
                cnat(n[0]), chex(b[0]), chex(rb[0]), rn[0], cbool(rn[1]), rn[2], cbool(rn[3]), rn[4], chex(rb[1]))
        return "(UCrec %s %s false [] 0 false 0 false 0 [])" % (cnat(n[0]), chex(b[0]))
    if k == "unpack":
        return "(UUnpack %s %s %s %s %s)" % (cnat(n[0]), cbool(n[1]), chex(b[0]), cbool(ok), clist([chex(x) for x in rb]))
    if k == "inner":
        if ok:
            return "(UInner %s true %s %d %s)" % (chex(b[0]), chex(rb[0]), rn[0], cnat(rn[1]))
        return "(UInner %s false [] 0 0%%nat)" % chex(b[0])
    if k == "recon":
        return "(URecon %d %s %d %d)" % (n[0], cbool(n[1]), n[2], rn[0])
    if k == "queueable":
        return "(UQueueable %d %d %s %d)" % (n[0], n[1], cbool(ok), rn[0])
    if k == "ack":
        return "(UAck %s %s)" % (chex(b[0]), cbool(ok))
    if k == "rrc":
        return "(URrc %s %s)" % (chex(b[0]), cbool(ok))
    if k == "cands":
        return "(UCands %d %s %s)" % (n[0], vlib.cNlist(n[1:]), vlib.cNlist(rn))
    if k == "hasgen":
        return "(UHasgen %d %s %s)" % (n[0], vlib.cNlist(n[1:]), cbool(ok))
    if k == "mask":
        return "(UMask %d %s %d %d %d)" % (n[0], cbool(n[1]), n[2], n[3], rn[0])
    if k == "low":
        return "(ULow %d %s %d %s)" % (n[0], cbool(n[1]), n[2], cbool(ok))
    if k == "nonce":
        return "(UNonce %s %d %s %s)" % (chex(b[0]), n[0], cbool(ok), chex(rb[0]) if ok else "[]")
    return None


def pure_cases(chk):
    """run both pure harnesses once per process; returns list of cases or None"""
    if "pure" in _cache:
        return _cache["pure"]
    cases = []
    for pkg, test in ((".", "^TestVerifRec13Pure$"), ("./internal/ciphersuite", "^TestVerifRec13PureCS$")):
        out = vlib.out_path("rec13pure")
        rc, o = vlib.go_test(pkg, test, env(chk, out), tags=["rec13"], timeout=900)
        cs = vlib.read_jsonl(out)
        vlib.cleanup(out)
        if rc != 0:
            chk.broken("correspondence harness %s (%s) no longer runs against /repo (%s)" %
                       (test, pkg, vlib.classify_go_failure(o)), o)
            _cache["pure"] = None
            return None
        cases += cs
    _cache["pure"] = cases
    return cases


def run_pure(chk, prop):
    cases = pure_cases(chk)
    if cases is None:
        return
    leg = "rec13-pure"
    for c in cases:
        if c["k"].endswith("-panic"):
            chk.finding(SITE_PURE, {"monitor": "panic", "function": c["k"][:-6], "input": c["b"][0]},
                        "panic in %s on input %s" % (c["k"][:-6], c["b"][0]), {"case": c})
    sel = [c for c in cases if c["k"] in PURE_KINDS[prop]]
    terms = [uterm(c) for c in sel]
    bad, err = vlib.coq_mismatches("rec13u_" + prop.lower(), IMPORTS, "ucase", "unit_ok", terms, shard=600)
    if bad is None:
        chk.broken("rec13 pure-function correspondence evaluation failed in coqc", err)
        return
    for i in bad[:3]:
        c = sel[i]
        chk.finding(SITE_PURE, {"monitor": "model-mismatch", "function": c["k"]},
                    "real function and Rec/Rec13.v disagree on %s" % c["k"],
                    {"case": c, "correspondence": "Rec.Rec13Run.unit_ok", "term": terms[i]}, no_input=True)
    kinds = {}
    for c in sel:
        kinds[c["k"]] = kinds.get(c["k"], 0) + 1
    chk.count(leg, len(sel), [(c["k"], tuple(c["n"]), tuple(c["b"])) for c in sel],
              samples=[sel[0], sel[len(sel) // 2]] if sel else [])
    chk.leg_info(leg, functions=kinds)
