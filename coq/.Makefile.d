theories/Lib/Bytes.vo theories/Lib/Bytes.glob theories/Lib/Bytes.v.beautified theories/Lib/Bytes.required_vo: theories/Lib/Bytes.v 
theories/Lib/Bytes.vio: theories/Lib/Bytes.v 
theories/Lib/Bytes.vos theories/Lib/Bytes.vok theories/Lib/Bytes.required_vos: theories/Lib/Bytes.v 
theories/Rec/Window.vo theories/Rec/Window.glob theories/Rec/Window.v.beautified theories/Rec/Window.required_vo: theories/Rec/Window.v theories/Lib/Bytes.vo
theories/Rec/Window.vio: theories/Rec/Window.v theories/Lib/Bytes.vio
theories/Rec/Window.vos theories/Rec/Window.vok theories/Rec/Window.required_vos: theories/Rec/Window.v theories/Lib/Bytes.vos
theories/Rec/WindowSound.vo theories/Rec/WindowSound.glob theories/Rec/WindowSound.v.beautified theories/Rec/WindowSound.required_vo: theories/Rec/WindowSound.v theories/Lib/Bytes.vo theories/Rec/Window.vo
theories/Rec/WindowSound.vio: theories/Rec/WindowSound.v theories/Lib/Bytes.vio theories/Rec/Window.vio
theories/Rec/WindowSound.vos theories/Rec/WindowSound.vok theories/Rec/WindowSound.required_vos: theories/Rec/WindowSound.v theories/Lib/Bytes.vos theories/Rec/Window.vos
