(* C18 - wire codec combinators (definitions only; proofs in C18CombSound.v).

   A *prefix* codec ([codec A]) reads a value from the front of a byte string and returns the
   unread remainder; a *whole-input* codec ([wcodec A]) is handed exactly the bytes that belong
   to it (the body of a length-prefixed vector, the content of a record, the argument of a Go
   [Unmarshal]).  [wf] is the value domain on which encode/decode round-trips and into which
   every decoder maps. *)
From DtlsV Require Import Lib.Bytes.
Open Scope N_scope.

Record codec (A : Type) : Type := Codec {
  wf  : A -> bool;
  enc : A -> option bytes;
  dec : bytes -> option (A * bytes) }.
Arguments Codec {A}. Arguments wf {A}. Arguments enc {A}. Arguments dec {A}.

Record wcodec (A : Type) : Type := WCodec {
  wwf  : A -> bool;
  wenc : A -> option bytes;
  wdec : bytes -> option A }.
Arguments WCodec {A}. Arguments wwf {A}. Arguments wenc {A}. Arguments wdec {A}.

(* ------------------------------------------------------------------ the properties *)

(* round trip + "bytes beyond the encoding are never consumed" *)
Definition sound {A} (c : codec A) : Prop :=
  forall a rest, wf c a = true ->
    exists e, enc c a = Some e /\ dec c (e ++ rest) = Some (a, rest).

(* the decoder only produces values of the domain, returns a suffix of its input, and the
   re-encoding of what it produced is never longer than what it consumed *)
Definition dec_ok {A} (c : codec A) : Prop :=
  forall b a r, bytes_ok b = true -> dec c b = Some (a, r) ->
    wf c a = true /\ exists e p, enc c a = Some e /\ b = p ++ r /\ (length e <= length p)%nat.

(* re-encoding an accepted input is a fixed point of decode-then-encode *)
Definition fixpoint {A} (c : codec A) : Prop :=
  forall b a r, bytes_ok b = true -> dec c b = Some (a, r) ->
    exists e, enc c a = Some e /\ dec c (e ++ r) = Some (a, r).

(* every proper prefix of an encoding is rejected (self-delimiting formats) *)
Definition trunc {A} (c : codec A) : Prop :=
  forall a e k, wf c a = true -> enc c a = Some e -> (k < length e)%nat ->
    dec c (firstn k e) = None.

(* encodings are non-empty (needed to iterate a codec to the end of the input) *)
Definition nonempty {A} (c : codec A) : Prop :=
  forall a e, wf c a = true -> enc c a = Some e -> e <> [].

Definition wsound {A} (w : wcodec A) : Prop :=
  forall a, wwf w a = true -> exists e, wenc w a = Some e /\ wdec w e = Some a.

Definition wdec_ok {A} (w : wcodec A) : Prop :=
  forall b a, bytes_ok b = true -> wdec w b = Some a ->
    wwf w a = true /\ exists e, wenc w a = Some e /\ (length e <= length b)%nat.

(* weaker than [wdec_ok]: only "decoded values are in the domain" (enough for the fixed point;
   the length clause of [wdec_ok] is what lets a codec sit inside a length-prefixed vector) *)
Definition wdec_wf {A} (w : wcodec A) : Prop :=
  forall b a, bytes_ok b = true -> wdec w b = Some a -> wwf w a = true.

Definition wfixpoint {A} (w : wcodec A) : Prop :=
  forall b a, bytes_ok b = true -> wdec w b = Some a ->
    exists e, wenc w a = Some e /\ wdec w e = Some a.

(* conditional byte-level fixed point, for Go decoders that accept values their own Marshal
   refuses: whenever a decoded value re-encodes at all, the re-encoding decodes again to a value
   with the same encoding, and is not longer than the input *)
Definition wrefix {A} (w : wcodec A) : Prop :=
  forall b a e, bytes_ok b = true -> wdec w b = Some a -> wenc w a = Some e ->
    (length e <= length b)%nat /\ exists a', wdec w e = Some a' /\ wenc w a' = Some e.

Definition wtrunc {A} (w : wcodec A) : Prop :=
  forall a e k, wwf w a = true -> wenc w a = Some e -> (k < length e)%nat ->
    wdec w (firstn k e) = None.

(* trailing bytes are ignored (Go decoders that stop reading after the last declared field) *)
Definition wlenient {A} (w : wcodec A) : Prop :=
  forall a rest, wwf w a = true -> exists e, wenc w a = Some e /\ wdec w (e ++ rest) = Some a.

(* ------------------------------------------------------------------ prefix combinators *)

(* k-byte big-endian unsigned integer *)
Definition c_u (k : nat) : codec N :=
  {| wf n := n <? 256 ^ N.of_nat k;
     enc n := Some (be_enc k n);
     dec b := if (length b <? k)%nat then None
              else Some (be_dec (firstn k b), skipn k b) |}.

(* exactly n raw bytes *)
Definition c_bytes (n : nat) : codec bytes :=
  {| wf a := (length a =? n)%nat && bytes_ok a;
     enc a := Some a;
     dec b := if (length b <? n)%nat then None else Some (firstn n b, skipn n b) |}.

(* a literal *)
Definition c_const (v : bytes) : codec unit :=
  {| wf _ := true;
     enc _ := Some v;
     dec b := if bytes_eqb (firstn (length v) b) v then Some (tt, skipn (length v) b) else None |}.

(* dependent sequence: the layout of the second part may depend on the first value *)
Definition c_bind {A B} (c1 : codec A) (c2 : A -> codec B) : codec (A * B) :=
  {| wf x := wf c1 (fst x) && wf (c2 (fst x)) (snd x);
     enc x := match enc c1 (fst x), enc (c2 (fst x)) (snd x) with
              | Some e1, Some e2 => Some (e1 ++ e2)
              | _, _ => None
              end;
     dec b := match dec c1 b with
              | Some (a, r) =>
                  match dec (c2 a) r with
                  | Some (x, r') => Some ((a, x), r')
                  | None => None
                  end
              | None => None
              end |}.

Definition c_seq {A B} (c1 : codec A) (c2 : codec B) : codec (A * B) := c_bind c1 (fun _ => c2).

(* change of representation; [f] may be lossy (the decoder forgets), [g] injects back *)
Definition c_map {A B} (f : A -> B) (g : B -> A) (wfB : B -> bool) (c : codec A) : codec B :=
  {| wf y := wfB y && wf c (g y);
     enc y := enc c (g y);
     dec b := match dec c b with Some (a, r) => Some (f a, r) | None => None end |}.

(* extra checks: [pe] by the encoder, [pd] by the decoder *)
Definition c_guard {A} (pe pd : A -> bool) (c : codec A) : codec A :=
  {| wf a := wf c a && pe a && pd a;
     enc a := if pe a then enc c a else None;
     dec b := match dec c b with
              | Some (a, r) => if pd a then Some (a, r) else None
              | None => None
              end |}.

(* vector with a k-byte length prefix whose body is decoded as a whole *)
Definition c_vec {A} (k : nat) (w : wcodec A) : codec A :=
  {| wf a := wwf w a && match wenc w a with
                        | Some e => len e <? 256 ^ N.of_nat k
                        | None => false
                        end;
     enc a := match wenc w a with
              | Some e => if len e <? 256 ^ N.of_nat k then Some (be_enc k (len e) ++ e) else None
              | None => None
              end;
     dec b := if (length b <? k)%nat then None
              else let n := be_dec (firstn k b) in
                   let b' := skipn k b in
                   if len b' <? n then None
                   else match wdec w (take n b') with
                        | Some a => Some (a, drop n b')
                        | None => None
                        end |}.

(* exactly n bytes decoded as a whole (length known from the context / an earlier field) *)
Definition c_sized {A} (n : N) (w : wcodec A) : codec A :=
  {| wf a := wwf w a && match wenc w a with Some e => len e =? n | None => false end;
     enc a := match wenc w a with
              | Some e => if len e =? n then Some e else None
              | None => None
              end;
     dec b := if len b <? n then None
              else match wdec w (take n b) with
                   | Some a => Some (a, drop n b)
                   | None => None
                   end |}.

(* ------------------------------------------------------------------ whole-input combinators *)

(* all the bytes there are *)
Definition w_rest : wcodec bytes :=
  {| wwf a := bytes_ok a; wenc a := Some a; wdec b := Some b |}.

(* a prefix codec that must consume everything *)
Definition w_exact {A} (c : codec A) : wcodec A :=
  {| wwf := wf c; wenc := enc c;
     wdec b := match dec c b with Some (a, []) => Some a | _ => None end |}.

(* a prefix codec whose leftover is ignored *)
Definition w_lenient {A} (c : codec A) : wcodec A :=
  {| wwf := wf c; wenc := enc c;
     wdec b := match dec c b with Some (a, _) => Some a | None => None end |}.

(* prefix part, then the rest decoded as a whole; layout of the rest may depend on the prefix *)
Definition w_bind {A B} (c : codec A) (w : A -> wcodec B) : wcodec (A * B) :=
  {| wwf x := wf c (fst x) && wwf (w (fst x)) (snd x);
     wenc x := match enc c (fst x), wenc (w (fst x)) (snd x) with
               | Some e1, Some e2 => Some (e1 ++ e2)
               | _, _ => None
               end;
     wdec b := match dec c b with
               | Some (a, r) =>
                   match wdec (w a) r with Some x => Some (a, x) | None => None end
               | None => None
               end |}.

Definition w_seq {A B} (c : codec A) (w : wcodec B) : wcodec (A * B) := w_bind c (fun _ => w).

Definition w_map {A B} (f : A -> B) (g : B -> A) (wfB : B -> bool) (w : wcodec A) : wcodec B :=
  {| wwf y := wfB y && wwf w (g y);
     wenc y := wenc w (g y);
     wdec b := match wdec w b with Some a => Some (f a) | None => None end |}.

Definition w_guard {A} (pe pd : A -> bool) (w : wcodec A) : wcodec A :=
  {| wwf a := wwf w a && pe a && pd a;
     wenc a := if pe a then wenc w a else None;
     wdec b := match wdec w b with
               | Some a => if pd a then Some a else None
               | None => None
               end |}.

(* repeat a prefix codec until the input is exhausted *)
Fixpoint list_enc {A} (c : codec A) (l : list A) : option bytes :=
  match l with
  | [] => Some []
  | a :: l' => match enc c a, list_enc c l' with
               | Some e, Some es => Some (e ++ es)
               | _, _ => None
               end
  end.

Fixpoint list_dec {A} (c : codec A) (fuel : nat) (b : bytes) : option (list A) :=
  match b with
  | [] => Some []
  | _ :: _ =>
      match fuel with
      | O => None
      | S fuel' =>
          match dec c b with
          | Some (a, r) =>
              if (length r <? length b)%nat then
                match list_dec c fuel' r with Some l => Some (a :: l) | None => None end
              else None
          | None => None
          end
      end
  end.

Definition w_list {A} (c : codec A) : wcodec (list A) :=
  {| wwf l := forallb (wf c) l;
     wenc l := list_enc c l;
     wdec b := list_dec c (length b) b |}.

(* helpers used by models *)
Definition omap {A B} (f : A -> B) (o : option A) : option B :=
  match o with Some a => Some (f a) | None => None end.
Definition obind {A B} (o : option A) (f : A -> option B) : option B :=
  match o with Some a => f a | None => None end.
