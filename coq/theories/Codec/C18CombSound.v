(* C18 - one soundness proof per combinator of C18Comb.v.  Stdlib + lia only. *)
From DtlsV Require Import Lib.Bytes Codec.C18Comb.
From Coq Require Import ZifyN ZifyNat ZifyBool.
Open Scope N_scope.

(* ------------------------------------------------------------------ list helpers *)

Lemma firstn_app_len {A} (l1 l2 : list A) k : length l1 = k -> firstn k (l1 ++ l2) = l1.
Proof.
  intro H. subst k. rewrite firstn_app, Nat.sub_diag. cbn [firstn].
  rewrite firstn_all. apply app_nil_r.
Qed.

Lemma skipn_app_len {A} (l1 l2 : list A) k : length l1 = k -> skipn k (l1 ++ l2) = l2.
Proof. intro H. subst k. rewrite skipn_app, Nat.sub_diag, skipn_all. reflexivity. Qed.

Lemma bytes_ok_split b k : bytes_ok b = true ->
  bytes_ok (firstn k b) = true /\ bytes_ok (skipn k b) = true.
Proof.
  intro H. rewrite <- (firstn_skipn k b) in H. rewrite bytes_ok_app in H.
  apply andb_prop in H. exact H.
Qed.

Lemma bytes_ok_app_inv p r : bytes_ok (p ++ r) = true -> bytes_ok p = true /\ bytes_ok r = true.
Proof. rewrite bytes_ok_app. intro H. apply andb_prop in H. exact H. Qed.

Lemma firstn_app_ge {A} (l1 l2 : list A) k : (length l1 <= k)%nat ->
  firstn k (l1 ++ l2) = l1 ++ firstn (k - length l1) l2.
Proof.
  intro H. rewrite firstn_app. f_equal. apply firstn_all2. exact H.
Qed.

Lemma firstn_app_lt {A} (l1 l2 : list A) k : (k <= length l1)%nat ->
  firstn k (l1 ++ l2) = firstn k l1.
Proof.
  intro H. rewrite firstn_app. replace (k - length l1)%nat with O by lia.
  cbn [firstn]. apply app_nil_r.
Qed.

(* ------------------------------------------------------------------ derived properties *)

Theorem fixpoint_of {A} (c : codec A) : sound c -> dec_ok c -> fixpoint c.
Proof.
  intros S D b a r Hb Hd. destruct (D b a r Hb Hd) as [Hwf _].
  exact (S a r Hwf).
Qed.

Theorem wfixpoint_of {A} (w : wcodec A) : wsound w -> wdec_ok w -> wfixpoint w.
Proof.
  intros S D b a Hb Hd. destruct (D b a Hb Hd) as [Hwf _]. exact (S a Hwf).
Qed.

Lemma wdec_wf_of {A} (w : wcodec A) : wdec_ok w -> wdec_wf w.
Proof. intros D b a Hb Hd. exact (proj1 (D b a Hb Hd)). Qed.

Theorem wfixpoint_of_wf {A} (w : wcodec A) : wsound w -> wdec_wf w -> wfixpoint w.
Proof. intros S D b a Hb Hd. exact (S a (D b a Hb Hd)). Qed.

Theorem wrefix_of {A} (w : wcodec A) : wsound w -> wdec_ok w -> wrefix w.
Proof.
  intros S D b a e Hb Hd He. destruct (D b a Hb Hd) as [W [e' [E' L]]].
  rewrite He in E'. inversion E'; subst e'. split; [exact L|].
  destruct (S a W) as [e2 [E2 D2]]. rewrite He in E2. inversion E2; subst e2.
  exists a. split; [exact D2|exact He].
Qed.

(* a decoder-side value that the encoder-side check [pe] refuses breaks the unconditional fixed
   point but not the conditional one *)
Theorem wrefix_guard {A} pe pd (w : wcodec A) : wsound w -> wdec_ok w -> wrefix (w_guard pe pd w).
Proof.
  intros S D b a e Hb Hd He. unfold w_guard in *; cbn [wwf wenc wdec] in *.
  destruct (wdec w b) as [a0|] eqn:E0; [|discriminate].
  destruct (pd a0) eqn:Pd; [|discriminate]. inversion Hd; subst a0; clear Hd.
  destruct (pe a) eqn:Pe; [|discriminate].
  destruct (wrefix_of w S D b a e Hb E0 He) as [L [a' [D' E']]]. split; [exact L|].
  destruct (D b a Hb E0) as [W _]. destruct (S a W) as [e2 [E2 D2]].
  rewrite He in E2. inversion E2; subst e2.
  exists a. rewrite D2, Pd, Pe. split; [reflexivity|exact He].
Qed.

(* the byte-level reading: the re-encoding is reproduced by decode-then-encode *)
Corollary wfixpoint_bytes {A} (w : wcodec A) : wfixpoint w ->
  forall b a, bytes_ok b = true -> wdec w b = Some a ->
    exists e, wenc w a = Some e /\ obind (wdec w e) (wenc w) = Some e.
Proof.
  intros F b a Hb Hd. destruct (F b a Hb Hd) as [e [E D]]. exists e. split; [exact E|].
  rewrite D. exact E.
Qed.

(* ------------------------------------------------------------------ c_u *)

Lemma sound_u k : sound (c_u k).
Proof.
  intros a rest Hwf. unfold c_u in *; cbn [wf enc dec] in *. exists (be_enc k a).
  split; [reflexivity|].
  rewrite app_length, be_enc_length.
  destruct (Nat.ltb_spec (k + length rest) k) as [Hlt|_]; [lia|].
  rewrite firstn_app_len, skipn_app_len by apply be_enc_length.
  apply N.ltb_lt in Hwf. rewrite be_dec_enc by exact Hwf. reflexivity.
Qed.

Lemma decok_u k : dec_ok (c_u k).
Proof.
  intros b a r Hb H. unfold c_u in *; cbn [wf enc dec] in *.
  destruct (Nat.ltb_spec (length b) k) as [|Hge]; [discriminate|].
  inversion H; subst; clear H.
  assert (Hlen : length (firstn k b) = k) by (rewrite firstn_length; lia).
  destruct (bytes_ok_split b k Hb) as [Hok _].
  pose proof (be_dec_bound _ Hok) as Hbd. rewrite Hlen in Hbd.
  pose proof (be_enc_dec _ Hok) as Hed. rewrite Hlen in Hed.
  split; [apply N.ltb_lt; exact Hbd|].
  exists (firstn k b), (firstn k b). rewrite Hed.
  split; [reflexivity|]. split; [symmetry; apply firstn_skipn|lia].
Qed.

Lemma trunc_u k : trunc (c_u k).
Proof.
  intros a e j _ He Hj. unfold c_u in *; cbn [wf enc dec] in *.
  inversion He; subst; clear He. rewrite be_enc_length in Hj.
  rewrite firstn_length, be_enc_length.
  destruct (Nat.ltb_spec (Nat.min j k) k) as [|Hge]; [reflexivity|lia].
Qed.

Lemma nonempty_u k : (0 < k)%nat -> nonempty (c_u k).
Proof.
  intros Hk a e _ He. unfold c_u in He; cbn [enc] in He. inversion He; subst.
  intro Hn. apply (f_equal (@length N)) in Hn. rewrite be_enc_length in Hn. cbn in Hn. lia.
Qed.

(* ------------------------------------------------------------------ c_bytes *)

Lemma sound_bytes n : sound (c_bytes n).
Proof.
  intros a rest Hwf. unfold c_bytes in *; cbn [wf enc dec] in *. exists a.
  split; [reflexivity|]. apply andb_prop in Hwf. destruct Hwf as [Hl _].
  apply Nat.eqb_eq in Hl. rewrite app_length.
  destruct (Nat.ltb_spec (length a + length rest) n) as [Hlt|_]; [lia|].
  rewrite firstn_app_len, skipn_app_len by exact Hl. reflexivity.
Qed.

Lemma decok_bytes n : dec_ok (c_bytes n).
Proof.
  intros b a r Hb H. unfold c_bytes in *; cbn [wf enc dec] in *.
  destruct (Nat.ltb_spec (length b) n) as [|Hge]; [discriminate|].
  inversion H; subst; clear H.
  assert (Hlen : length (firstn n b) = n) by (rewrite firstn_length; lia).
  destruct (bytes_ok_split b n Hb) as [Hok _].
  split; [rewrite Hlen, Nat.eqb_refl, Hok; reflexivity|].
  exists (firstn n b), (firstn n b).
  split; [reflexivity|]. split; [symmetry; apply firstn_skipn|lia].
Qed.

Lemma trunc_bytes n : trunc (c_bytes n).
Proof.
  intros a e j Hwf He Hj. unfold c_bytes in *; cbn [wf enc dec] in *.
  inversion He; subst; clear He. apply andb_prop in Hwf. destruct Hwf as [Hl _].
  apply Nat.eqb_eq in Hl. rewrite firstn_length.
  destruct (Nat.ltb_spec (Nat.min j (length e)) n) as [|Hge]; [reflexivity|lia].
Qed.

Lemma nonempty_bytes n : (0 < n)%nat -> nonempty (c_bytes n).
Proof.
  intros Hn a e Hwf He. unfold c_bytes in *; cbn [wf enc] in *. inversion He; subst.
  apply andb_prop in Hwf. destruct Hwf as [Hl _]. apply Nat.eqb_eq in Hl.
  intro Hnil. subst e. cbn in Hl. lia.
Qed.

(* ------------------------------------------------------------------ c_const *)

Lemma sound_const v : sound (c_const v).
Proof.
  intros [] rest _. unfold c_const; cbn [wf enc dec]. exists v. split; [reflexivity|].
  rewrite firstn_app_len, skipn_app_len by reflexivity. rewrite bytes_eqb_refl. reflexivity.
Qed.

Lemma decok_const v : dec_ok (c_const v).
Proof.
  intros b [] r Hb H. unfold c_const in *; cbn [wf enc dec] in *.
  destruct (bytes_eqb (firstn (length v) b) v) eqn:E; [|discriminate].
  apply bytes_eqb_eq in E. inversion H; subst r; clear H.
  split; [reflexivity|]. exists v, v. split; [reflexivity|].
  split; [|lia]. rewrite <- E at 1. symmetry. apply firstn_skipn.
Qed.

Lemma trunc_const v : trunc (c_const v).
Proof.
  intros [] e j _ He Hj. unfold c_const in *; cbn [wf enc dec] in *.
  inversion He; subst e; clear He.
  destruct (bytes_eqb (firstn (length v) (firstn j v)) v) eqn:E; [|reflexivity].
  apply bytes_eqb_eq in E. apply (f_equal (@length N)) in E.
  rewrite !firstn_length in E. lia.
Qed.

(* ------------------------------------------------------------------ c_bind / c_seq *)

Lemma sound_bind {A B} (c1 : codec A) (c2 : A -> codec B) :
  sound c1 -> (forall a, wf c1 a = true -> sound (c2 a)) -> sound (c_bind c1 c2).
Proof.
  intros S1 S2 [a x] rest Hwf. unfold c_bind in *; cbn [wf enc dec fst snd] in *.
  apply andb_prop in Hwf. destruct Hwf as [W1 W2].
  destruct (S2 a W1 x rest W2) as [e2 [E2 D2]].
  destruct (S1 a (e2 ++ rest) W1) as [e1 [E1 D1]].
  exists (e1 ++ e2). rewrite E1, E2. split; [reflexivity|].
  rewrite <- app_assoc, D1, D2. reflexivity.
Qed.

Lemma decok_bind {A B} (c1 : codec A) (c2 : A -> codec B) :
  dec_ok c1 -> (forall a, wf c1 a = true -> dec_ok (c2 a)) -> dec_ok (c_bind c1 c2).
Proof.
  intros D1 D2 b [a x] r Hb H. unfold c_bind in *; cbn [wf enc dec fst snd] in *.
  destruct (dec c1 b) as [[a' r1]|] eqn:E1; [|discriminate].
  destruct (dec (c2 a') r1) as [[x' r2]|] eqn:E2; [|discriminate].
  inversion H; subst; clear H.
  destruct (D1 _ _ _ Hb E1) as [W1 [e1 [p1 [En1 [Hb1 L1]]]]].
  subst b. destruct (bytes_ok_app_inv _ _ Hb) as [_ Hr1].
  destruct (D2 a W1 _ _ _ Hr1 E2) as [W2 [e2 [p2 [En2 [Hb2 L2]]]]].
  subst r1. split; [rewrite W1, W2; reflexivity|].
  exists (e1 ++ e2), (p1 ++ p2). rewrite En1, En2.
  split; [reflexivity|]. split; [apply app_assoc|]. rewrite !app_length. lia.
Qed.

Lemma trunc_bind {A B} (c1 : codec A) (c2 : A -> codec B) :
  sound c1 -> trunc c1 -> (forall a, wf c1 a = true -> trunc (c2 a)) -> trunc (c_bind c1 c2).
Proof.
  intros S1 T1 T2 [a x] e k Hwf He Hk. unfold c_bind in *; cbn [wf enc dec fst snd] in *.
  apply andb_prop in Hwf. destruct Hwf as [W1 W2].
  destruct (enc c1 a) as [e1|] eqn:E1; [|discriminate].
  destruct (enc (c2 a) x) as [e2|] eqn:E2; [|discriminate].
  inversion He; subst e; clear He. rewrite app_length in Hk.
  destruct (Nat.lt_ge_cases k (length e1)) as [Hlt|Hge].
  - rewrite firstn_app_lt by lia. rewrite (T1 a e1 k W1 E1 Hlt). reflexivity.
  - rewrite firstn_app_ge by exact Hge.
    destruct (S1 a (firstn (k - length e1) e2) W1) as [e1' [E1' D1]].
    rewrite E1 in E1'. inversion E1'; subst e1'; clear E1'. rewrite D1.
    rewrite (T2 a W1 x e2 (k - length e1)%nat W2 E2) by lia. reflexivity.
Qed.

Lemma nonempty_bind_l {A B} (c1 : codec A) (c2 : A -> codec B) :
  nonempty c1 -> nonempty (c_bind c1 c2).
Proof.
  intros N1 [a x] e Hwf He. unfold c_bind in *; cbn [wf enc fst snd] in *.
  apply andb_prop in Hwf. destruct Hwf as [W1 _].
  destruct (enc c1 a) as [e1|] eqn:E1; [|discriminate].
  destruct (enc (c2 a) x) as [e2|]; [|discriminate].
  inversion He; subst e. intro Hn. apply app_eq_nil in Hn. destruct Hn as [Hn _].
  exact (N1 a e1 W1 E1 Hn).
Qed.

Lemma sound_seq {A B} (c1 : codec A) (c2 : codec B) : sound c1 -> sound c2 -> sound (c_seq c1 c2).
Proof. intros S1 S2. apply sound_bind; [exact S1|intros _ _; exact S2]. Qed.
Lemma decok_seq {A B} (c1 : codec A) (c2 : codec B) : dec_ok c1 -> dec_ok c2 -> dec_ok (c_seq c1 c2).
Proof. intros D1 D2. apply decok_bind; [exact D1|intros _ _; exact D2]. Qed.
Lemma trunc_seq {A B} (c1 : codec A) (c2 : codec B) :
  sound c1 -> trunc c1 -> trunc c2 -> trunc (c_seq c1 c2).
Proof. intros S1 T1 T2. apply trunc_bind; [exact S1|exact T1|intros _ _; exact T2]. Qed.
Lemma nonempty_seq_l {A B} (c1 : codec A) (c2 : codec B) : nonempty c1 -> nonempty (c_seq c1 c2).
Proof. apply nonempty_bind_l. Qed.

(* ------------------------------------------------------------------ c_map *)

Lemma sound_map {A B} (f : A -> B) (g : B -> A) wfB (c : codec A) :
  (forall y, wfB y = true -> wf c (g y) = true -> f (g y) = y) ->
  sound c -> sound (c_map f g wfB c).
Proof.
  intros Hfg S y rest Hwf. unfold c_map in *; cbn [wf enc dec] in *.
  apply andb_prop in Hwf. destruct Hwf as [WB WA].
  destruct (S (g y) rest WA) as [e [E D]]. exists e. split; [exact E|].
  rewrite D, (Hfg y WB WA). reflexivity.
Qed.

Lemma decok_map {A B} (f : A -> B) (g : B -> A) wfB (c : codec A) :
  (forall a e, wf c a = true -> enc c a = Some e ->
     wfB (f a) = true /\ wf c (g (f a)) = true /\
     exists e', enc c (g (f a)) = Some e' /\ (length e' <= length e)%nat) ->
  dec_ok c -> dec_ok (c_map f g wfB c).
Proof.
  intros Hgf D b y r Hb H. unfold c_map in *; cbn [wf enc dec] in *.
  destruct (dec c b) as [[a r']|] eqn:E; [|discriminate].
  inversion H; subst; clear H.
  destruct (D _ _ _ Hb E) as [W [e [p [En [Hbp L]]]]].
  destruct (Hgf a e W En) as [WB [WA [e' [En' L']]]].
  split; [rewrite WB, WA; reflexivity|].
  exists e', p. split; [exact En'|]. split; [exact Hbp|lia].
Qed.

Lemma decok_map_iso {A B} (f : A -> B) (g : B -> A) wfB (c : codec A) :
  (forall a, wf c a = true -> wfB (f a) = true /\ g (f a) = a) ->
  dec_ok c -> dec_ok (c_map f g wfB c).
Proof.
  intros Hiso. apply decok_map. intros a e W En. destruct (Hiso a W) as [WB G].
  rewrite G. split; [exact WB|]. split; [exact W|]. exists e. split; [exact En|lia].
Qed.

Lemma trunc_map {A B} (f : A -> B) (g : B -> A) wfB (c : codec A) :
  trunc c -> trunc (c_map f g wfB c).
Proof.
  intros T y e k Hwf He Hk. unfold c_map in *; cbn [wf enc dec] in *.
  apply andb_prop in Hwf. destruct Hwf as [_ WA].
  rewrite (T (g y) e k WA He Hk). reflexivity.
Qed.

Lemma nonempty_map {A B} (f : A -> B) (g : B -> A) wfB (c : codec A) :
  nonempty c -> nonempty (c_map f g wfB c).
Proof.
  intros Nc y e Hwf He. unfold c_map in *; cbn [wf enc] in *.
  apply andb_prop in Hwf. destruct Hwf as [_ WA]. exact (Nc (g y) e WA He).
Qed.

(* ------------------------------------------------------------------ c_guard *)

Lemma sound_guard {A} pe pd (c : codec A) : sound c -> sound (c_guard pe pd c).
Proof.
  intros S a rest Hwf. unfold c_guard in *; cbn [wf enc dec] in *.
  apply andb_prop in Hwf. destruct Hwf as [Hwf Pd]. apply andb_prop in Hwf. destruct Hwf as [W Pe].
  destruct (S a rest W) as [e [E D]]. exists e. rewrite Pe, D, Pd. split; [exact E|reflexivity].
Qed.

Lemma decok_guard {A} pe pd (c : codec A) :
  (forall a, wf c a = true -> pd a = true -> pe a = true) ->
  dec_ok c -> dec_ok (c_guard pe pd c).
Proof.
  intros Hpe D b a r Hb H. unfold c_guard in *; cbn [wf enc dec] in *.
  destruct (dec c b) as [[a' r']|] eqn:E; [|discriminate].
  destruct (pd a') eqn:Pd; [|discriminate]. inversion H; subst; clear H.
  destruct (D _ _ _ Hb E) as [W [e [p [En [Hbp L]]]]].
  rewrite W, Pd, (Hpe a W Pd). split; [reflexivity|].
  exists e, p. split; [exact En|]. split; [exact Hbp|exact L].
Qed.

Lemma trunc_guard {A} pe pd (c : codec A) : trunc c -> trunc (c_guard pe pd c).
Proof.
  intros T a e k Hwf He Hk. unfold c_guard in *; cbn [wf enc dec] in *.
  apply andb_prop in Hwf. destruct Hwf as [Hwf _]. apply andb_prop in Hwf. destruct Hwf as [W Pe].
  rewrite Pe in He. rewrite (T a e k W He Hk). reflexivity.
Qed.

Lemma nonempty_guard {A} pe pd (c : codec A) : nonempty c -> nonempty (c_guard pe pd c).
Proof.
  intros Nc a e Hwf He. unfold c_guard in *; cbn [wf enc] in *.
  apply andb_prop in Hwf. destruct Hwf as [Hwf _]. apply andb_prop in Hwf. destruct Hwf as [W Pe].
  rewrite Pe in He. exact (Nc a e W He).
Qed.

(* ------------------------------------------------------------------ c_vec *)

Lemma len_length (l : bytes) : len l = N.of_nat (length l).
Proof. reflexivity. Qed.

Lemma sound_vec {A} k (w : wcodec A) : wsound w -> sound (c_vec k w).
Proof.
  intros S a rest Hwf. unfold c_vec in *; cbn [wf enc dec] in *.
  apply andb_prop in Hwf. destruct Hwf as [W HL].
  destruct (S a W) as [e [E D]]. rewrite E in *. rewrite HL.
  exists (be_enc k (len e) ++ e). split; [reflexivity|].
  rewrite <- app_assoc, app_length, be_enc_length.
  destruct (Nat.ltb_spec (k + length (e ++ rest)) k) as [Hlt|_]; [lia|].
  rewrite firstn_app_len, skipn_app_len by apply be_enc_length.
  apply N.ltb_lt in HL. rewrite be_dec_enc by exact HL.
  rewrite len_app. destruct (N.ltb_spec (len e + len rest) (len e)) as [Hlt|_]; [lia|].
  rewrite take_app_exact, drop_app_exact, D. reflexivity.
Qed.

Lemma decok_vec {A} k (w : wcodec A) : wdec_ok w -> dec_ok (c_vec k w).
Proof.
  intros D b a r Hb H. unfold c_vec in *; cbn [wf enc dec] in *.
  destruct (Nat.ltb_spec (length b) k) as [|Hge]; [discriminate|].
  set (n := be_dec (firstn k b)) in *. set (b' := skipn k b) in *.
  destruct (N.ltb_spec (len b') n) as [|Hn]; [discriminate|].
  destruct (wdec w (take n b')) as [a'|] eqn:E; [|discriminate].
  inversion H; subst a' r; clear H.
  assert (Hlen : length (firstn k b) = k) by (rewrite firstn_length; lia).
  destruct (bytes_ok_split b k Hb) as [Hok Hok'].
  pose proof (be_dec_bound _ Hok) as Hbd. rewrite Hlen in Hbd. fold n in Hbd.
  assert (Htk : bytes_ok (take n b') = true) by (apply (bytes_ok_split b' (N.to_nat n) Hok')).
  destruct (D _ _ Htk E) as [W [e [En L]]].
  assert (Hlt : len (take n b') = n) by (apply len_take; exact Hn).
  assert (Hle : len e <= n) by (unfold len in *; lia).
  rewrite W, En.
  destruct (N.ltb_spec (len e) (256 ^ N.of_nat k)) as [_|Hbad]; [|lia].
  split; [reflexivity|].
  exists (be_enc k (len e) ++ e), (firstn k b ++ take n b').
  split; [reflexivity|]. split.
  - rewrite <- app_assoc. unfold b'. rewrite take_drop. symmetry. apply firstn_skipn.
  - rewrite !app_length, be_enc_length, Hlen. unfold len in *. lia.
Qed.

Lemma trunc_vec {A} k (w : wcodec A) : trunc (c_vec k w).
Proof.
  intros a e j Hwf He Hj. unfold c_vec in *; cbn [wf enc dec] in *.
  destruct (wenc w a) as [eb|]; [|discriminate].
  destruct (len eb <? 256 ^ N.of_nat k) eqn:HL; [|discriminate].
  inversion He; subst e; clear He. rewrite app_length, be_enc_length in Hj.
  destruct (Nat.lt_ge_cases j k) as [Hlt|Hge].
  - rewrite firstn_length, app_length, be_enc_length.
    destruct (Nat.ltb_spec (Nat.min j (k + length eb)) k) as [|Hbad]; [reflexivity|lia].
  - rewrite firstn_app_ge by (rewrite be_enc_length; exact Hge). rewrite be_enc_length.
    rewrite app_length, be_enc_length.
    destruct (Nat.ltb_spec (k + length (firstn (j - k) eb)) k) as [Hbad|_]; [lia|].
    rewrite firstn_app_len, skipn_app_len by apply be_enc_length.
    apply N.ltb_lt in HL. rewrite be_dec_enc by exact HL.
    destruct (N.ltb_spec (len (firstn (j - k) eb)) (len eb)) as [_|Hbad]; [reflexivity|].
    unfold len in Hbad. rewrite firstn_length in Hbad. lia.
Qed.

Lemma nonempty_vec {A} k (w : wcodec A) : (0 < k)%nat -> nonempty (c_vec k w).
Proof.
  intros Hk a e _ He. unfold c_vec in He; cbn [enc] in He.
  destruct (wenc w a) as [eb|]; [|discriminate].
  destruct (len eb <? 256 ^ N.of_nat k); [|discriminate].
  inversion He; subst e. intro Hn. apply (f_equal (@length N)) in Hn.
  rewrite app_length, be_enc_length in Hn. cbn in Hn. lia.
Qed.

(* ------------------------------------------------------------------ c_sized *)

Lemma sound_sized {A} n (w : wcodec A) : wsound w -> sound (c_sized n w).
Proof.
  intros S a rest Hwf. unfold c_sized in *; cbn [wf enc dec] in *.
  apply andb_prop in Hwf. destruct Hwf as [W HL].
  destruct (S a W) as [e [E D]]. rewrite E in *. rewrite HL. apply N.eqb_eq in HL. subst n.
  exists e. split; [reflexivity|]. rewrite len_app.
  destruct (N.ltb_spec (len e + len rest) (len e)) as [Hlt|_]; [lia|].
  rewrite take_app_exact, drop_app_exact, D. reflexivity.
Qed.

Lemma trunc_sized {A} n (w : wcodec A) : trunc (c_sized n w).
Proof.
  intros a e j Hwf He Hj. unfold c_sized in *; cbn [wf enc dec] in *.
  destruct (wenc w a) as [eb|]; [|discriminate].
  destruct (N.eqb_spec (len eb) n) as [HL|]; [|discriminate].
  inversion He; subst e; clear He.
  destruct (N.ltb_spec (len (firstn j eb)) n) as [_|Hbad]; [reflexivity|].
  unfold len in *. rewrite firstn_length in Hbad. lia.
Qed.

(* ------------------------------------------------------------------ whole-input codecs *)

Lemma wsound_rest : wsound w_rest.
Proof. intros a _. exists a. split; reflexivity. Qed.
Lemma wdecok_rest : wdec_ok w_rest.
Proof.
  intros b a Hb H. cbn in *. inversion H; subst. split; [exact Hb|]. exists a. split; [reflexivity|lia].
Qed.

Lemma wsound_exact {A} (c : codec A) : sound c -> wsound (w_exact c).
Proof.
  intros S a W. unfold w_exact in *; cbn [wwf wenc wdec] in *.
  destruct (S a [] W) as [e [E D]]. exists e. rewrite app_nil_r in D. rewrite D.
  split; [exact E|reflexivity].
Qed.
Lemma wdecok_exact {A} (c : codec A) : dec_ok c -> wdec_ok (w_exact c).
Proof.
  intros D b a Hb H. unfold w_exact in *; cbn [wwf wenc wdec] in *.
  destruct (dec c b) as [[a' [|x r]]|] eqn:E; try discriminate.
  inversion H; subst; clear H.
  destruct (D _ _ _ Hb E) as [W [e [p [En [Hbp L]]]]].
  split; [exact W|]. exists e. split; [exact En|]. subst b. rewrite app_nil_r. exact L.
Qed.
Lemma wtrunc_exact {A} (c : codec A) : trunc c -> wtrunc (w_exact c).
Proof.
  intros T a e k W E Hk. unfold w_exact in *; cbn [wwf wenc wdec] in *.
  rewrite (T a e k W E Hk). reflexivity.
Qed.

Lemma wsound_lenient {A} (c : codec A) : sound c -> wsound (w_lenient c).
Proof.
  intros S a W. unfold w_lenient in *; cbn [wwf wenc wdec] in *.
  destruct (S a [] W) as [e [E D]]. exists e. rewrite app_nil_r in D. rewrite D.
  split; [exact E|reflexivity].
Qed.
Lemma wlenient_lenient {A} (c : codec A) : sound c -> wlenient (w_lenient c).
Proof.
  intros S a rest W. unfold w_lenient in *; cbn [wwf wenc wdec] in *.
  destruct (S a rest W) as [e [E D]]. exists e. rewrite D. split; [exact E|reflexivity].
Qed.
Lemma wdecok_lenient {A} (c : codec A) : dec_ok c -> wdec_ok (w_lenient c).
Proof.
  intros D b a Hb H. unfold w_lenient in *; cbn [wwf wenc wdec] in *.
  destruct (dec c b) as [[a' r]|] eqn:E; try discriminate.
  inversion H; subst; clear H.
  destruct (D _ _ _ Hb E) as [W [e [p [En [Hbp L]]]]].
  split; [exact W|]. exists e. split; [exact En|]. subst b. rewrite app_length. lia.
Qed.
Lemma wtrunc_lenient {A} (c : codec A) : trunc c -> wtrunc (w_lenient c).
Proof.
  intros T a e k W E Hk. unfold w_lenient in *; cbn [wwf wenc wdec] in *.
  rewrite (T a e k W E Hk). reflexivity.
Qed.

Lemma wsound_bind {A B} (c : codec A) (w : A -> wcodec B) :
  sound c -> (forall a, wf c a = true -> wsound (w a)) -> wsound (w_bind c w).
Proof.
  intros S1 S2 [a x] Hwf. unfold w_bind in *; cbn [wwf wenc wdec fst snd] in *.
  apply andb_prop in Hwf. destruct Hwf as [W1 W2].
  destruct (S2 a W1 x W2) as [e2 [E2 D2]].
  destruct (S1 a e2 W1) as [e1 [E1 D1]].
  exists (e1 ++ e2). rewrite E1, E2, D1, D2. split; reflexivity.
Qed.

Lemma wlenient_bind {A B} (c : codec A) (w : A -> wcodec B) :
  sound c -> (forall a, wf c a = true -> wlenient (w a)) -> wlenient (w_bind c w).
Proof.
  intros S1 S2 [a x] rest Hwf. unfold w_bind in *; cbn [wwf wenc wdec fst snd] in *.
  apply andb_prop in Hwf. destruct Hwf as [W1 W2].
  destruct (S2 a W1 x rest W2) as [e2 [E2 D2]].
  destruct (S1 a (e2 ++ rest) W1) as [e1 [E1 D1]].
  exists (e1 ++ e2). rewrite E1, E2, <- app_assoc, D1, D2. split; reflexivity.
Qed.

Lemma wdecok_bind {A B} (c : codec A) (w : A -> wcodec B) :
  dec_ok c -> (forall a, wf c a = true -> wdec_ok (w a)) -> wdec_ok (w_bind c w).
Proof.
  intros D1 D2 b [a x] Hb H. unfold w_bind in *; cbn [wwf wenc wdec fst snd] in *.
  destruct (dec c b) as [[a' r1]|] eqn:E1; [|discriminate].
  destruct (wdec (w a') r1) as [x'|] eqn:E2; [|discriminate].
  inversion H; subst; clear H.
  destruct (D1 _ _ _ Hb E1) as [W1 [e1 [p1 [En1 [Hb1 L1]]]]].
  subst b. destruct (bytes_ok_app_inv _ _ Hb) as [_ Hr1].
  destruct (D2 a W1 _ _ Hr1 E2) as [W2 [e2 [En2 L2]]].
  rewrite W1, W2, En1, En2. split; [reflexivity|].
  exists (e1 ++ e2). split; [reflexivity|]. rewrite !app_length. lia.
Qed.

Lemma wdecwf_bind {A B} (c : codec A) (w : A -> wcodec B) :
  dec_ok c -> (forall a, wf c a = true -> wdec_wf (w a)) -> wdec_wf (w_bind c w).
Proof.
  intros D1 D2 b [a x] Hb H. unfold w_bind in *; cbn [wwf wenc wdec fst snd] in *.
  destruct (dec c b) as [[a' r1]|] eqn:E1; [|discriminate].
  destruct (wdec (w a') r1) as [x'|] eqn:E2; [|discriminate].
  inversion H; subst; clear H.
  destruct (D1 _ _ _ Hb E1) as [W1 [e1 [p1 [En1 [Hb1 L1]]]]].
  subst b. destruct (bytes_ok_app_inv _ _ Hb) as [_ Hr1].
  rewrite W1, (D2 a W1 _ _ Hr1 E2). reflexivity.
Qed.

Lemma wtrunc_bind {A B} (c : codec A) (w : A -> wcodec B) :
  sound c -> trunc c -> (forall a, wf c a = true -> wtrunc (w a)) -> wtrunc (w_bind c w).
Proof.
  intros S1 T1 T2 [a x] e k Hwf He Hk. unfold w_bind in *; cbn [wwf wenc wdec fst snd] in *.
  apply andb_prop in Hwf. destruct Hwf as [W1 W2].
  destruct (enc c a) as [e1|] eqn:E1; [|discriminate].
  destruct (wenc (w a) x) as [e2|] eqn:E2; [|discriminate].
  inversion He; subst e; clear He. rewrite app_length in Hk.
  destruct (Nat.lt_ge_cases k (length e1)) as [Hlt|Hge].
  - rewrite firstn_app_lt by lia. rewrite (T1 a e1 k W1 E1 Hlt). reflexivity.
  - rewrite firstn_app_ge by exact Hge.
    destruct (S1 a (firstn (k - length e1) e2) W1) as [e1' [E1' D1]].
    rewrite E1 in E1'. inversion E1'; subst e1'; clear E1'. rewrite D1.
    rewrite (T2 a W1 x e2 (k - length e1)%nat W2 E2) by lia. reflexivity.
Qed.

Lemma wsound_map {A B} (f : A -> B) (g : B -> A) wfB (w : wcodec A) :
  (forall y, wfB y = true -> wwf w (g y) = true -> f (g y) = y) ->
  wsound w -> wsound (w_map f g wfB w).
Proof.
  intros Hfg S y Hwf. unfold w_map in *; cbn [wwf wenc wdec] in *.
  apply andb_prop in Hwf. destruct Hwf as [WB WA].
  destruct (S (g y) WA) as [e [E D]]. exists e. split; [exact E|].
  rewrite D, (Hfg y WB WA). reflexivity.
Qed.

Lemma wdecok_map {A B} (f : A -> B) (g : B -> A) wfB (w : wcodec A) :
  (forall a e, wwf w a = true -> wenc w a = Some e ->
     wfB (f a) = true /\ wwf w (g (f a)) = true /\
     exists e', wenc w (g (f a)) = Some e' /\ (length e' <= length e)%nat) ->
  wdec_ok w -> wdec_ok (w_map f g wfB w).
Proof.
  intros Hgf D b y Hb H. unfold w_map in *; cbn [wwf wenc wdec] in *.
  destruct (wdec w b) as [a|] eqn:E; [|discriminate].
  inversion H; subst; clear H.
  destruct (D _ _ Hb E) as [W [e [En L]]].
  destruct (Hgf a e W En) as [WB [WA [e' [En' L']]]].
  split; [rewrite WB, WA; reflexivity|].
  exists e'. split; [exact En'|lia].
Qed.

Lemma wdecok_map_iso {A B} (f : A -> B) (g : B -> A) wfB (w : wcodec A) :
  (forall a, wwf w a = true -> wfB (f a) = true /\ g (f a) = a) ->
  wdec_ok w -> wdec_ok (w_map f g wfB w).
Proof.
  intros Hiso. apply wdecok_map. intros a e W En. destruct (Hiso a W) as [WB G].
  rewrite G. split; [exact WB|]. split; [exact W|]. exists e. split; [exact En|lia].
Qed.

Lemma wtrunc_map {A B} (f : A -> B) (g : B -> A) wfB (w : wcodec A) :
  wtrunc w -> wtrunc (w_map f g wfB w).
Proof.
  intros T y e k Hwf He Hk. unfold w_map in *; cbn [wwf wenc wdec] in *.
  apply andb_prop in Hwf. destruct Hwf as [_ WA].
  rewrite (T (g y) e k WA He Hk). reflexivity.
Qed.

Lemma wlenient_map {A B} (f : A -> B) (g : B -> A) wfB (w : wcodec A) :
  (forall y, wfB y = true -> wwf w (g y) = true -> f (g y) = y) ->
  wlenient w -> wlenient (w_map f g wfB w).
Proof.
  intros Hfg S y rest Hwf. unfold w_map in *; cbn [wwf wenc wdec] in *.
  apply andb_prop in Hwf. destruct Hwf as [WB WA].
  destruct (S (g y) rest WA) as [e [E D]]. exists e. split; [exact E|].
  rewrite D, (Hfg y WB WA). reflexivity.
Qed.

Lemma wsound_guard {A} pe pd (w : wcodec A) : wsound w -> wsound (w_guard pe pd w).
Proof.
  intros S a Hwf. unfold w_guard in *; cbn [wwf wenc wdec] in *.
  apply andb_prop in Hwf. destruct Hwf as [Hwf Pd]. apply andb_prop in Hwf. destruct Hwf as [W Pe].
  destruct (S a W) as [e [E D]]. exists e. rewrite Pe, D, Pd. split; [exact E|reflexivity].
Qed.

Lemma wdecok_guard {A} pe pd (w : wcodec A) :
  (forall a, wwf w a = true -> pd a = true -> pe a = true) ->
  wdec_ok w -> wdec_ok (w_guard pe pd w).
Proof.
  intros Hpe D b a Hb H. unfold w_guard in *; cbn [wwf wenc wdec] in *.
  destruct (wdec w b) as [a'|] eqn:E; [|discriminate].
  destruct (pd a') eqn:Pd; [|discriminate]. inversion H; subst; clear H.
  destruct (D _ _ Hb E) as [W [e [En L]]].
  rewrite W, Pd, (Hpe a W Pd). split; [reflexivity|].
  exists e. split; [exact En|exact L].
Qed.

Lemma wtrunc_guard {A} pe pd (w : wcodec A) : wtrunc w -> wtrunc (w_guard pe pd w).
Proof.
  intros T a e k Hwf He Hk. unfold w_guard in *; cbn [wwf wenc wdec] in *.
  apply andb_prop in Hwf. destruct Hwf as [Hwf _]. apply andb_prop in Hwf. destruct Hwf as [W Pe].
  rewrite Pe in He. rewrite (T a e k W He Hk). reflexivity.
Qed.

(* ------------------------------------------------------------------ w_list *)

Lemma list_enc_total {A} (c : codec A) : sound c ->
  forall l, forallb (wf c) l = true -> exists e, list_enc c l = Some e.
Proof.
  intros S l. induction l as [|a l IH]; intro Hwf; cbn [list_enc forallb] in *.
  - exists []. reflexivity.
  - apply andb_prop in Hwf. destruct Hwf as [W Wl].
    destruct (S a [] W) as [e [E _]]. destruct (IH Wl) as [es Es].
    exists (e ++ es). rewrite E, Es. reflexivity.
Qed.

Lemma list_dec_enc {A} (c : codec A) : sound c -> nonempty c ->
  forall l e, forallb (wf c) l = true -> list_enc c l = Some e ->
  forall fuel, (length e <= fuel)%nat -> list_dec c fuel e = Some l.
Proof.
  intros S Nc l. induction l as [|a l IH]; intros e Hwf He fuel Hf; cbn [list_enc forallb] in *.
  - inversion He; subst. destruct fuel; reflexivity.
  - apply andb_prop in Hwf. destruct Hwf as [W Wl].
    destruct (enc c a) as [e1|] eqn:E1; [|discriminate].
    destruct (list_enc c l) as [es|] eqn:Es; [|discriminate].
    inversion He; subst e; clear He.
    pose proof (Nc a e1 W E1) as Hne.
    assert (Hl1 : (0 < length e1)%nat) by (destruct e1; [congruence|cbn; lia]).
    rewrite app_length in Hf.
    destruct fuel as [|fuel]; [lia|].
    remember (e1 ++ es) as b eqn:Hb. destruct b as [|y b0].
    { symmetry in Hb. apply app_eq_nil in Hb. destruct Hb; congruence. }
    cbn [list_dec]. rewrite Hb.
    destruct (S a es W) as [e1' [E1' D1]]. rewrite E1 in E1'. inversion E1'; subst e1'; clear E1'.
    rewrite D1. rewrite app_length.
    destruct (Nat.ltb_spec (length es) (length e1 + length es)) as [_|Hbad]; [|lia].
    rewrite (IH es Wl eq_refl fuel) by lia. reflexivity.
Qed.

Lemma wsound_list {A} (c : codec A) : sound c -> nonempty c -> wsound (w_list c).
Proof.
  intros S Nc l Hwf. unfold w_list in *; cbn [wwf wenc wdec] in *.
  destruct (list_enc_total c S l Hwf) as [e E]. exists e. split; [exact E|].
  apply (list_dec_enc c S Nc l e Hwf E). lia.
Qed.

Lemma list_dec_ok {A} (c : codec A) : dec_ok c ->
  forall fuel b l, bytes_ok b = true -> list_dec c fuel b = Some l ->
    forallb (wf c) l = true /\ exists e, list_enc c l = Some e /\ (length e <= length b)%nat.
Proof.
  intros D fuel. induction fuel as [|fuel IH]; intros b l Hb H.
  - destruct b; cbn [list_dec] in H; [|discriminate]. inversion H; subst.
    split; [reflexivity|]. exists []. split; [reflexivity|cbn; lia].
  - destruct b as [|y b0].
    { cbn [list_dec] in H. inversion H; subst. split; [reflexivity|]. exists []. split; [reflexivity|cbn; lia]. }
    cbn [list_dec] in H. set (b := y :: b0) in *.
    destruct (dec c b) as [[a r]|] eqn:E; [|discriminate].
    destruct (Nat.ltb_spec (length r) (length b)) as [Hlt|]; [|discriminate].
    destruct (list_dec c fuel r) as [l'|] eqn:El; [|discriminate].
    inversion H; subst l; clear H.
    destruct (D _ _ _ Hb E) as [W [e1 [p [En [Hbp L]]]]].
    assert (Hr : bytes_ok r = true) by (rewrite Hbp in Hb; apply (bytes_ok_app_inv _ _ Hb)).
    destruct (IH r l' Hr El) as [Wl [es [Es Ls]]].
    cbn [forallb list_enc]. rewrite W, Wl, En, Es. split; [reflexivity|].
    exists (e1 ++ es). split; [reflexivity|]. rewrite Hbp, !app_length. lia.
Qed.

Lemma wdecok_list {A} (c : codec A) : dec_ok c -> wdec_ok (w_list c).
Proof.
  intros D b l Hb H. unfold w_list in *; cbn [wwf wenc wdec] in *.
  exact (list_dec_ok c D (length b) b l Hb H).
Qed.
