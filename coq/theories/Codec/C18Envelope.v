(* C18 - the WHOLE type switch of Handshake.Unmarshal / Marshal (pkg/protocol/handshake/handshake.go),
   including the message types whose decoder depends on a context: ClientHello (1), ServerHello (2,
   DTLS 1.2 / 1.3 / HelloRetryRequest chosen by random and extension types), NewSessionTicket (4),
   EncryptedExtensions (8), ServerKeyExchange (12, key-exchange algorithm of the envelope) and
   CertificateRequest (13).  C18Hs.v has the envelope over the nine context-free types only; here the
   same envelope is written once over an arbitrary message switch and instantiated with the full
   one.  Definitions only. *)
From DtlsV Require Import Lib.Bytes Gen.Generated Codec.C18Comb Codec.C18Rec Codec.C18Hs Codec.C18Ext
  Codec.C18Kx Codec.C18Hello.
Open Scope N_scope.

(* ------------------------------------------------------------------ the envelope over any switch *)

Section Envelope.
  Variable M : Type.
  Variable mtype : M -> N.
  Variable menc : M -> option bytes.
  Variable mdec : N -> N -> bytes -> option M.      (* key-exchange context, type byte, body *)
  Variable mwf : N -> M -> bool.

  (* Handshake.Unmarshal: header; len(data)-12 must equal Length and FragmentLength (the fragment
     offset is not looked at); then the switch on data[0] *)
  Definition env_unmarshal (kx : N) (b : bytes) : option (hshdr * M) :=
    match dec c_hs_header b with
    | Some (h, body) =>
        if negb (len body =? hh_len h) then None
        else if negb (hh_len h =? hh_flen h) then None
        else match mdec kx (hh_type h) body with
             | Some m => Some (h, m)
             | None => None
             end
    | None => None
    end.

  (* Handshake.Marshal: refuses FragmentOffset <> 0; Length := FragmentLength := len(body),
     Type := Message.Type() *)
  Definition env_marshal (x : hshdr * M) : option bytes :=
    let '(h, m) := x in
    if negb (hh_foff h =? 0) then None
    else match menc m with
         | Some body =>
             match enc c_hs_header (mk_hshdr (mtype m) (len body) (hh_mseq h) 0 (len body)) with
             | Some he => Some (he ++ body)
             | None => None
             end
         | None => None
         end.

  Definition env_wf (kx : N) (x : hshdr * M) : bool :=
    let '(h, m) := x in
    (hh_type h =? mtype m) && (hh_mseq h <? 65536) && (hh_foff h =? 0) && mwf kx m &&
    match menc m with
    | Some body => (hh_len h =? len body) && (hh_flen h =? len body) && (len body <? 16777216)
    | None => false
    end.

  Definition w_env (kx : N) : wcodec (hshdr * M) :=
    {| wwf := env_wf kx; wenc := env_marshal; wdec := env_unmarshal kx |}.
End Envelope.

(* ------------------------------------------------------------------ the full switch *)

Definition nst : Type := ((N * (N * (bytes * bytes))) * list extv)%type.

Inductive hsmsgx : Type :=
| XBase (m : hsmsg)                                  (* the nine types of C18Hs.v *)
| XClientHello (x : ch_fixed * list extv)
| XServerHello (x : sh_fixed * list extv)
| XNewSessionTicket (x : nst)
| XEncryptedExtensions (x : list extv)
| XServerKeyExchange (x : ske)
| XCertificateRequest (x : certreq).

Definition msgx_type (m : hsmsgx) : N :=
  match m with
  | XBase m => msg_type m
  | XClientHello _ => 1
  | XServerHello _ => 2
  | XNewSessionTicket _ => 4
  | XEncryptedExtensions _ => 8
  | XServerKeyExchange _ => 12
  | XCertificateRequest _ => 13
  end.

Definition msgx_enc (m : hsmsgx) : option bytes :=
  match m with
  | XBase m => msg_enc m
  | XClientHello x => wenc w_client_hello x
  | XServerHello x => wenc w_server_hello x
  | XNewSessionTicket x => wenc w_new_session_ticket x
  | XEncryptedExtensions x => wenc w_encrypted_extensions x
  | XServerKeyExchange x => ske_enc x
  | XCertificateRequest x => wenc w_certreq x
  end.

Definition msgx_wf (kx : N) (m : hsmsgx) : bool :=
  match m with
  | XBase m => msg_wf kx m
  | XClientHello x => wwf w_client_hello x
  | XServerHello x => wwf w_server_hello x
  | XNewSessionTicket x => wwf w_new_session_ticket x
  | XEncryptedExtensions x => wwf w_encrypted_extensions x
  | XServerKeyExchange x => ske_wf kx x
  | XCertificateRequest x => wwf w_certreq x
  end.

(* the switch of Handshake.Unmarshal, in the order of the source; type 0 (HelloRequest) and every
   type without a case: ErrNotImplemented *)
Definition msgx_dec (kx : N) (ty : N) (b : bytes) : option hsmsgx :=
  if ty =? 0 then None
  else if ty =? 1 then omap XClientHello (wdec w_client_hello b)
  else if ty =? 2 then omap XServerHello (wdec w_server_hello b)
  else if ty =? 4 then omap XNewSessionTicket (wdec w_new_session_ticket b)
  else if ty =? 8 then omap XEncryptedExtensions (wdec w_encrypted_extensions b)
  else if ty =? 12 then omap XServerKeyExchange (ske_dec kx b)
  else if ty =? 13 then omap XCertificateRequest (wdec w_certreq b)
  else omap XBase (msg_dec kx ty b).

(* the type bytes Handshake.Unmarshal has a case for (HelloRequest returns an error at once) *)
Definition hs_types : list N := [1; 2; 3; 4; 8; 9; 10; 11; 12; 13; 14; 15; 16; 20; 24].

Definition hsx : Type := (hshdr * hsmsgx)%type.
Definition hsx_unmarshal : N -> bytes -> option hsx := env_unmarshal hsmsgx msgx_dec.
Definition hsx_marshal : hsx -> option bytes := env_marshal hsmsgx msgx_type msgx_enc.
Definition hsx_wf : N -> hsx -> bool := env_wf hsmsgx msgx_type msgx_enc msgx_wf.
Definition w_hsx (kx : N) : wcodec hsx := w_env hsmsgx msgx_type msgx_enc msgx_dec msgx_wf kx.

(* ------------------------------------------------------------------ internal/negotiation canonicalize *)

(* canonicalize(message, fresh): raw := message.Marshal(); fresh.Unmarshal(raw) - what a hello hook
   handed back is replaced by what its own encoding decodes to (validatedClientHello,
   validatedServerHello, FinalizeClientHello, FinalizeServerHello) *)
Definition canonicalize {A} (w : wcodec A) (x : A) : option A :=
  match wenc w x with
  | Some raw => wdec w raw
  | None => None
  end.
