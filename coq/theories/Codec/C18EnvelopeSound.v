(* C18 - theorems about the full handshake envelope of C18Envelope.v: proved once for an arbitrary
   message switch, then instantiated with the switch of Handshake.Unmarshal. *)
From DtlsV Require Import Lib.Bytes Gen.Generated Codec.C18Comb Codec.C18CombSound
  Codec.C18Rec Codec.C18RecSound Codec.C18Ext Codec.C18ExtSound Codec.C18Hs Codec.C18HsSound
  Codec.C18Kx Codec.C18KxSound Codec.C18Hello Codec.C18HelloSound Codec.C18Envelope.
From Coq Require Import ZifyN ZifyNat ZifyBool.
Open Scope N_scope.

Lemma dec_u_length k b n r : dec (c_u k) b = Some (n, r) -> (k <= length b)%nat /\ length r = (length b - k)%nat.
Proof.
  cbn [dec c_u]. destruct (Nat.ltb_spec (length b) k) as [|Hk]; [discriminate|].
  intro H. inversion H; subst. split; [exact Hk|apply skipn_length].
Qed.

(* the handshake header decoder consumes exactly 12 bytes *)
Lemma hs_header_dec_length b h body : dec c_hs_header b = Some (h, body) ->
  (12 <= length b)%nat /\ length body = (length b - 12)%nat.
Proof.
  unfold c_hs_header, c_seq. cbn [dec c_bind].
  destruct (dec (c_u 1) b) as [[t r1]|] eqn:E1; [|discriminate].
  destruct (dec (c_u 3) r1) as [[l r2]|] eqn:E2; [|discriminate].
  destruct (dec (c_u 2) r2) as [[ms r3]|] eqn:E3; [|discriminate].
  destruct (dec (c_u 3) r3) as [[fo r4]|] eqn:E4; [|discriminate].
  destruct (dec (c_u 3) r4) as [[fl r5]|] eqn:E5; [|discriminate].
  intro H. inversion H; subst.
  apply dec_u_length in E1, E2, E3, E4, E5. lia.
Qed.

Section EnvelopeSound.
  Variable M : Type.
  Variable mtype : M -> N.
  Variable menc : M -> option bytes.
  Variable mdec : N -> N -> bytes -> option M.
  Variable mwf : N -> M -> bool.

  Hypothesis m_roundtrip : forall kx m, mwf kx m = true ->
    exists e, menc m = Some e /\ mdec kx (mtype m) e = Some m.
  Hypothesis m_type_byte : forall m, mtype m < 256.

  Notation unm := (env_unmarshal M mdec).
  Notation mar := (env_marshal M mtype menc).
  Notation ewf := (env_wf M mtype menc mwf).

  Lemma env_wf_inv kx h m : ewf kx (h, m) = true ->
    exists body ms, menc m = Some body /\ len body < 16777216 /\ ms < 65536 /\ mwf kx m = true /\
                    h = mk_hshdr (mtype m) (len body) ms 0 (len body).
  Proof.
    unfold env_wf. intro W.
    destruct (menc m) as [body|] eqn:Eb; [|rewrite andb_false_r in W; discriminate].
    repeat (apply andb_prop in W; destruct W as [W ?]).
    repeat match goal with Hx : _ && _ = true |- _ => apply andb_prop in Hx; destruct Hx end.
    repeat match goal with Hx : (_ =? _) = true |- _ => apply N.eqb_eq in Hx end.
    destruct h as [t [l [ms [fo fl]]]].
    unfold hh_type, hh_len, hh_mseq, hh_foff, hh_flen in *; cbn [fst snd] in *. subst.
    exists body, ms. repeat split; try assumption; lia.
  Qed.

  (* Unmarshal (Marshal x) = x on the whole domain *)
  Theorem env_roundtrip kx : wsound (w_env M mtype menc mdec mwf kx).
  Proof.
    intros [h m] W. cbn [wwf wenc wdec w_env] in *.
    destruct (env_wf_inv _ _ _ W) as (body & ms & Eb & Lb & Lms & Wm & ->).
    destruct (m_roundtrip kx m Wm) as [e' [E' Dm]]. rewrite Eb in E'. inversion E'; subst e'.
    unfold env_marshal, mk_hshdr, hh_foff, hh_mseq. cbn [fst snd N.eqb negb]. rewrite Eb.
    assert (Wh : wf c_hs_header (mk_hshdr (mtype m) (len body) ms 0 (len body)) = true).
    { apply hs_header_wf. pose proof (m_type_byte m). lia. }
    destruct (sound_hs_header _ body Wh) as [he [Eh Dh]]. unfold mk_hshdr in Eh. rewrite Eh.
    exists (he ++ body). split; [reflexivity|].
    unfold env_unmarshal. rewrite Dh. unfold mk_hshdr, hh_len, hh_flen, hh_type; cbn [fst snd].
    rewrite N.eqb_refl. cbn [negb]. rewrite Dm. reflexivity.
  Qed.

  (* truncating an encoded handshake message is always rejected, whatever the body decoder does
     with short input: the envelope carries the length *)
  Theorem env_trunc kx : wtrunc (w_env M mtype menc mdec mwf kx).
  Proof.
    intros [h m] e k W He Hk. cbn [wwf wenc wdec w_env] in *.
    destruct (env_wf_inv _ _ _ W) as (body & ms & Eb & Lb & Lms & Wm & ->).
    unfold env_marshal, mk_hshdr, hh_foff, hh_mseq in He. cbn [fst snd N.eqb negb] in He. rewrite Eb in He.
    assert (Wh : wf c_hs_header (mk_hshdr (mtype m) (len body) ms 0 (len body)) = true).
    { apply hs_header_wf. pose proof (m_type_byte m). lia. }
    fold (mk_hshdr (mtype m) (len body) ms 0 (len body)) in He.
    destruct (enc c_hs_header (mk_hshdr (mtype m) (len body) ms 0 (len body))) as [he|] eqn:Ehe; [|discriminate].
    inversion He; subst e; clear He. rewrite app_length in Hk.
    unfold env_unmarshal.
    destruct (Nat.lt_ge_cases k (length he)) as [Hlt|Hge].
    - rewrite firstn_app_lt by lia. rewrite (trunc_hs_header _ _ _ Wh Ehe Hlt). reflexivity.
    - rewrite firstn_app_ge by exact Hge.
      destruct (sound_hs_header _ (firstn (k - length he) body) Wh) as [he' [Ehe' Dhe]].
      rewrite Ehe in Ehe'. inversion Ehe'; subst he'. rewrite Dhe.
      unfold mk_hshdr, hh_len; cbn [fst snd].
      destruct (N.eqb_spec (len (firstn (k - length he) body)) (len body)) as [Hbad|]; [|reflexivity].
      unfold len in Hbad. rewrite firstn_length in Hbad. lia.
  Qed.

  (* what Unmarshal accepts is cut exactly as its header declares: 12 bytes of header, then
     Length = FragmentLength bytes handed to the decoder the type byte selects, nothing more, nothing
     less; the message handed back is the one that decoder produced from exactly these bytes *)
  Theorem env_unmarshal_exact kx b h m : bytes_ok b = true -> unm kx b = Some (h, m) ->
    exists he body, b = he ++ body /\ length he = 12%nat /\ len body = hh_len h /\
                    hh_flen h = hh_len h /\ mdec kx (hh_type h) body = Some m /\
                    dec c_hs_header b = Some (h, body).
  Proof.
    intros Hb Hd. unfold env_unmarshal in Hd.
    destruct (dec c_hs_header b) as [[h0 body]|] eqn:Eh; [|discriminate].
    destruct (N.eqb_spec (len body) (hh_len h0)) as [Hl|]; [|discriminate]. cbn [negb] in Hd.
    destruct (N.eqb_spec (hh_len h0) (hh_flen h0)) as [Hfl|]; [|discriminate]. cbn [negb] in Hd.
    destruct (mdec kx (hh_type h0) body) as [m0|] eqn:Em; [|discriminate].
    inversion Hd; subst h0 m0; clear Hd.
    destruct (decok_hs_header _ _ _ Hb Eh) as [Wh [he0 [p [Ehe0 [Hbp Lp]]]]].
    destruct (hs_header_dec_length _ _ _ Eh) as [L12 Lbody].
    exists p, body. split; [exact Hbp|]. split.
    { rewrite Hbp, app_length in Lbody, L12. lia. }
    split; [exact Hl|]. split; [symmetry; exact Hfl|]. split; [exact Em|reflexivity].
  Qed.

  (* a datagram slice whose length differs from 12 + Length is refused *)
  Corollary env_length_honoured kx b h m : bytes_ok b = true -> unm kx b = Some (h, m) ->
    len b = 12 + hh_len h.
  Proof.
    intros Hb Hd. destruct (env_unmarshal_exact _ _ _ _ Hb Hd) as (he & body & -> & L & Lb & _).
    unfold len in *. rewrite app_length. lia.
  Qed.
  (* conditional byte-level fixed point of the envelope, for the type bytes [P] whose body decoder
     has one: what Unmarshal accepted and Marshal re-encodes is not longer than the input, decodes
     again, and re-encodes to itself *)
  Variable P : N -> bool.
  Hypothesis m_dec_type : forall kx ty b m, mdec kx ty b = Some m -> mtype m = ty.
  Hypothesis m_refix : forall kx ty b m e, P ty = true -> bytes_ok b = true ->
    mdec kx ty b = Some m -> menc m = Some e ->
    (length e <= length b)%nat /\ exists m', mdec kx ty e = Some m' /\ menc m' = Some e /\ mtype m' = ty.

  Theorem env_refix kx b x e : bytes_ok b = true -> unm kx b = Some x -> P (hh_type (fst x)) = true ->
    mar x = Some e ->
    (length e <= length b)%nat /\ exists x', unm kx e = Some x' /\ mar x' = Some e.
  Proof.
    destruct x as [h m]. cbn [fst]. intros Hb Hd HP He. unfold env_unmarshal in Hd.
    destruct (dec c_hs_header b) as [[h0 body]|] eqn:Eh; [|discriminate].
    destruct (N.eqb_spec (len body) (hh_len h0)) as [Hl|]; [|discriminate]. cbn [negb] in Hd.
    destruct (N.eqb_spec (hh_len h0) (hh_flen h0)) as [Hfl|]; [|discriminate]. cbn [negb] in Hd.
    destruct (mdec kx (hh_type h0) body) as [m0|] eqn:Em; [|discriminate].
    inversion Hd; subst h0 m0; clear Hd.
    destruct (decok_hs_header _ _ _ Hb Eh) as [Wh [he0 [p [Ehe0 [Hbp Lp]]]]].
    assert (Hbody : bytes_ok body = true) by (rewrite Hbp in Hb; apply (bytes_ok_app_inv _ _ Hb)).
    unfold env_marshal in He.
    destruct (N.eqb_spec (hh_foff h) 0) as [Hfo|]; [|discriminate]. cbn [negb] in He.
    destruct (menc m) as [body'|] eqn:Eb; [|discriminate].
    destruct (m_refix _ _ _ _ _ HP Hbody Em Eb) as [Lb [m' [Dm' [Em' Tm']]]].
    destruct h as [t [l [ms [fo fl]]]].
    unfold hh_type, hh_len, hh_mseq, hh_foff, hh_flen in *; cbn [fst snd] in *.
    pose proof (proj1 (hs_header_wf t l ms fo fl) Wh) as (H1 & H2 & H3 & H4 & H5).
    assert (Hlb : len body' < 16777216) by (unfold len in *; lia).
    pose proof (m_dec_type _ _ _ _ Em) as Tm.
    assert (Wh' : wf c_hs_header (mk_hshdr (mtype m) (len body') ms 0 (len body')) = true).
    { apply hs_header_wf. rewrite Tm. lia. }
    destruct (sound_hs_header _ body' Wh') as [he [Ehe Dhe]]. rewrite Ehe in He.
    inversion He; subst e; clear He.
    pose proof (hs_header_enc_len _ _ Ehe) as Lhe. pose proof (hs_header_enc_len _ _ Ehe0) as Lhe0.
    split.
    { rewrite Hbp, !app_length. lia. }
    exists (mk_hshdr (mtype m) (len body') ms 0 (len body'), m'). split.
    - unfold env_unmarshal. rewrite Dhe. unfold mk_hshdr, hh_len, hh_flen, hh_type; cbn [fst snd].
      rewrite N.eqb_refl. cbn [negb]. rewrite Tm, Dm'. reflexivity.
    - unfold env_marshal, mk_hshdr, hh_foff, hh_mseq; cbn [fst snd N.eqb negb]. rewrite Em'.
      rewrite Tm', <- Tm. fold (mk_hshdr (mtype m) (len body') ms 0 (len body')). rewrite Ehe. reflexivity.
  Qed.
End EnvelopeSound.

(* ------------------------------------------------------------------ the full switch *)

Lemma msgx_roundtrip kx m : msgx_wf kx m = true ->
  exists e, msgx_enc m = Some e /\ msgx_dec kx (msgx_type m) e = Some m.
Proof.
  destruct m as [m|x|x|x|x|x|x]; cbn [msgx_wf msgx_enc msgx_type]; intro W.
  - destruct (msg_roundtrip kx m W) as [e [E D]]. exists e. split; [exact E|].
    unfold msgx_dec.
    assert (T : negb (memN (msg_type m) [0; 1; 2; 4; 8; 12; 13]) = true) by (destruct m; reflexivity).
    destruct m; cbn [msg_type N.eqb Pos.eqb]; cbn [msg_type] in D; rewrite D; reflexivity.
  - destruct (proj1 client_hello_ok x W) as [e [E D]]. exists e. split; [exact E|].
    unfold msgx_dec. cbn [N.eqb Pos.eqb]. rewrite D. reflexivity.
  - destruct (server_hello_roundtrip x W) as [e [E D]]. exists e. split; [exact E|].
    unfold msgx_dec. cbn [N.eqb Pos.eqb]. rewrite D. reflexivity.
  - destruct (proj1 new_session_ticket_ok x W) as [e [E D]]. exists e. split; [exact E|].
    unfold msgx_dec. cbn [N.eqb Pos.eqb]. rewrite D. reflexivity.
  - destruct (proj1 encrypted_extensions_ok x W) as [e [E D]]. exists e. split; [exact E|].
    unfold msgx_dec. cbn [N.eqb Pos.eqb]. rewrite D. reflexivity.
  - destruct (ske_roundtrip kx x W) as [e [E D]]. cbn [wenc wdec w_ske] in *. exists e. split; [exact E|].
    unfold msgx_dec. cbn [N.eqb Pos.eqb]. rewrite D. reflexivity.
  - destruct (certreq_roundtrip x W) as [e [E D]]. exists e. split; [exact E|].
    unfold msgx_dec. cbn [N.eqb Pos.eqb]. rewrite D. reflexivity.
Qed.

Lemma msgx_type_byte m : msgx_type m < 256.
Proof. destruct m as [m| | | | | |]; cbn [msgx_type]; [pose proof (msg_type_byte m)|..]; lia. Qed.

(* the decoder selected by a type byte produces a message of that type *)
Lemma msgx_dec_type kx ty b m : msgx_dec kx ty b = Some m -> msgx_type m = ty.
Proof.
  unfold msgx_dec.
  repeat match goal with
         | |- context [if ?x =? ?y then _ else _] => destruct (N.eqb_spec x y) as [->|]
         end; try discriminate;
    match goal with |- omap _ ?o = _ -> _ => destruct o as [v|] eqn:E; [|discriminate] end;
    cbn [omap]; intro Hx; inversion Hx; subst m; try reflexivity.
  cbn [msgx_type]. exact (msg_dec_type _ _ _ _ E).
Qed.

(* exactly the type bytes of the switch are implemented *)
Lemma msgx_dec_unknown kx ty b : memN ty hs_types = false -> msgx_dec kx ty b = None.
Proof.
  intro H. unfold msgx_dec, msg_dec.
  repeat match goal with
         | |- context [if ?x =? ?y then _ else _] => destruct (N.eqb_spec x y) as [->|]
         end; try reflexivity; vm_compute in H; discriminate.
Qed.

(* the switch, case by case: which decoder sees the body, and with which context *)
Lemma msgx_dispatch kx b :
  msgx_dec kx 1 b = omap XClientHello (wdec w_client_hello b) /\
  msgx_dec kx 2 b = omap XServerHello (sh_dec b) /\
  msgx_dec kx 4 b = omap XNewSessionTicket (wdec w_new_session_ticket b) /\
  msgx_dec kx 8 b = omap XEncryptedExtensions (wdec w_encrypted_extensions b) /\
  msgx_dec kx 12 b = omap XServerKeyExchange (ske_dec kx b) /\
  msgx_dec kx 13 b = omap XCertificateRequest (cr_dec b) /\
  msgx_dec kx 16 b = omap (fun x => XBase (MClientKeyExchange x)) (cke_dec kx b) /\
  (forall ty, memN ty [3; 9; 10; 11; 14; 15; 20; 24] = true ->
              msgx_dec kx ty b = omap XBase (msg_dec 0 ty b)).
Proof.
  repeat split.
  - unfold msgx_dec, msg_dec. cbn [N.eqb Pos.eqb]. destruct (cke_dec kx b); reflexivity.
  - intros ty. unfold memN, existsb.
    repeat match goal with
           | |- (?x =? ?y) || _ = true -> _ => destruct (N.eqb_spec x y) as [->|]; [reflexivity|cbn [orb]]
           end.
    discriminate.
Qed.

Theorem hsx_roundtrip kx : wsound (w_hsx kx).
Proof. exact (env_roundtrip _ _ _ _ _ msgx_roundtrip msgx_type_byte kx). Qed.

Theorem hsx_trunc kx : wtrunc (w_hsx kx).
Proof. exact (env_trunc _ _ _ _ _ msgx_roundtrip msgx_type_byte kx). Qed.

Theorem hsx_unmarshal_exact kx b h m : bytes_ok b = true -> hsx_unmarshal kx b = Some (h, m) ->
  exists he body, b = he ++ body /\ length he = 12%nat /\ len body = hh_len h /\ hh_flen h = hh_len h /\
                  msgx_dec kx (hh_type h) body = Some m /\ msgx_type m = hh_type h /\
                  memN (hh_type h) hs_types = true.
Proof.
  intros Hb Hd.
  destruct (env_unmarshal_exact _ _ _ _ _ msgx_roundtrip msgx_type_byte kx b h m Hb Hd) as (he & body & E & L & Lb & Fl & Dm & _).
  exists he, body. repeat split; try assumption.
  - exact (msgx_dec_type _ _ _ _ Dm).
  - destruct (memN (hh_type h) hs_types) eqn:Hm; [reflexivity|].
    rewrite (msgx_dec_unknown kx _ body Hm) in Dm. discriminate.
Qed.

Theorem hsx_length_honoured kx b h m : bytes_ok b = true -> hsx_unmarshal kx b = Some (h, m) ->
  len b = 12 + hh_len h.
Proof. exact (env_length_honoured _ _ _ _ _ msgx_roundtrip msgx_type_byte kx b h m). Qed.

(* the full envelope agrees with the one of C18Hs.v on the nine context-free types *)
Lemma msgx_dec_base kx ty b m : msg_dec kx ty b = Some m -> msgx_dec kx ty b = Some (XBase m).
Proof.
  intro H. pose proof (msg_dec_type _ _ _ _ H) as T. subst ty.
  unfold msgx_dec. destruct m; cbn [msg_type N.eqb Pos.eqb] in *; rewrite H; reflexivity.
Qed.

Theorem hsx_extends_hs kx b x : hs_unmarshal kx b = Some x ->
  hsx_unmarshal kx b = Some (fst x, XBase (snd x)).
Proof.
  unfold hs_unmarshal, hsx_unmarshal, env_unmarshal.
  destruct (dec c_hs_header b) as [[h body]|]; [|discriminate].
  destruct (negb (len body =? hh_len h)); [discriminate|].
  destruct (negb (hh_len h =? hh_flen h)); [discriminate|].
  destruct (msg_dec kx (hh_type h) body) as [m|] eqn:E; [|discriminate].
  intro Hx. inversion Hx; subst x. cbn [fst snd]. rewrite (msgx_dec_base _ _ _ _ E). reflexivity.
Qed.

(* the types whose body decoder has a byte-level fixed point proved: everything but ServerHello (no
   length bound proved for its re-encoding), ServerKeyExchange (refuted below) and
   CertificateRequest *)
Definition refix_type (ty : N) : bool := negb (memN ty [2; 12; 13]).

Lemma msgx_refix kx ty b m e : refix_type ty = true -> bytes_ok b = true ->
  msgx_dec kx ty b = Some m -> msgx_enc m = Some e ->
  (length e <= length b)%nat /\
  exists m', msgx_dec kx ty e = Some m' /\ msgx_enc m' = Some e /\ msgx_type m' = ty.
Proof.
  intros HP Hb. unfold msgx_dec.
  repeat match goal with
         | |- context [if ?x =? ?y then _ else _] => destruct (N.eqb_spec x y) as [->|]
         end; try discriminate; try (vm_compute in HP; discriminate);
    match goal with |- omap _ ?o = _ -> _ => destruct o as [v|] eqn:E; [|discriminate] end;
    cbn [omap]; intro Hx; inversion Hx; subst m; clear Hx; cbn [msgx_enc]; intro He.
  - destruct (wrefix_of _ (proj1 client_hello_ok) (proj1 (proj2 client_hello_ok)) _ _ _ Hb E He) as [L [a' [D' E']]].
    split; [exact L|]. eexists. rewrite D'. cbn [omap]. split; [reflexivity|]. cbn [msgx_enc msgx_type]. split; [exact E'|reflexivity].
  - destruct (wrefix_of _ (proj1 new_session_ticket_ok) (proj1 (proj2 new_session_ticket_ok)) _ _ _ Hb E He) as [L [a' [D' E']]].
    split; [exact L|]. eexists. rewrite D'. cbn [omap]. split; [reflexivity|]. cbn [msgx_enc msgx_type]. split; [exact E'|reflexivity].
  - destruct (wrefix_of _ (proj1 encrypted_extensions_ok) (proj1 (proj2 encrypted_extensions_ok)) _ _ _ Hb E He) as [L [a' [D' E']]].
    split; [exact L|]. eexists. rewrite D'. cbn [omap]. split; [reflexivity|]. cbn [msgx_enc msgx_type]. split; [exact E'|reflexivity].
  - destruct (msg_refix _ _ _ _ _ Hb E He) as [L [m' [D' [E' T']]]].
    split; [exact L|]. exists (XBase m'). rewrite D'. cbn [omap msgx_enc msgx_type]. repeat split; assumption.
Qed.

(* PARTIAL (named so): the byte-level fixed point of the full envelope for every type but ServerHello,
   ServerKeyExchange and CertificateRequest *)
Theorem hsx_refix_partial kx b x e : bytes_ok b = true -> hsx_unmarshal kx b = Some x ->
  refix_type (hh_type (fst x)) = true -> hsx_marshal x = Some e ->
  (length e <= length b)%nat /\ exists x', hsx_unmarshal kx e = Some x' /\ hsx_marshal x' = Some e.
Proof.
  exact (env_refix _ _ _ _ _ msgx_roundtrip msgx_type_byte refix_type msgx_dec_type msgx_refix kx b x e).
Qed.

(* REFUTED for the full switch: "what Unmarshal accepts re-encodes to a fixed point" - inherited
   from ServerKeyExchange (a zero-length public key is accepted, Marshal drops the ECDHE part, the
   result is refused), now through the envelope *)
Theorem hsx_fixpoint_refuted :
  exists b x e, bytes_ok b = true /\ hsx_unmarshal 4 b = Some x /\ hsx_marshal x = Some e /\
                hsx_unmarshal 4 e = None.
Proof.
  exists [12; 0; 0; 4; 0; 7; 0; 0; 0; 0; 0; 4; 3; 0; 29; 0]. eexists. eexists. split; [reflexivity|].
  split; [vm_compute; reflexivity|]. split; [vm_compute; reflexivity|]. vm_compute. reflexivity.
Qed.

(* ------------------------------------------------------------------ canonicalize *)

(* a hello inside the codec's domain is its own canonical form *)
Lemma canonicalize_id {A} (w : wcodec A) : wsound w -> forall x, wwf w x = true -> canonicalize w x = Some x.
Proof. intros S x W. unfold canonicalize. destruct (S x W) as [e [E D]]. rewrite E. exact D. Qed.

(* whatever canonicalize returns is a fixed point of canonicalize, and its encoding is a fixed point
   of decode-then-encode: the handshake continues with a value that means what its bytes say *)
Lemma canonicalize_idem {A} (w : wcodec A) : wfixpoint w -> forall x raw c,
  wenc w x = Some raw -> bytes_ok raw = true -> canonicalize w x = Some c ->
  canonicalize w c = Some c /\ exists e, wenc w c = Some e /\ wdec w e = Some c.
Proof.
  intros F x raw c E Hb H. unfold canonicalize in H. rewrite E in H.
  destruct (F raw c Hb H) as [e [Ee De]]. split.
  - unfold canonicalize. rewrite Ee. exact De.
  - exists e. split; assumption.
Qed.

Theorem canonicalize_hello :
  (forall x, wwf w_client_hello x = true -> canonicalize w_client_hello x = Some x) /\
  (forall x, wwf w_server_hello x = true -> canonicalize w_server_hello x = Some x) /\
  (forall x raw c, wenc w_client_hello x = Some raw -> bytes_ok raw = true ->
     canonicalize w_client_hello x = Some c ->
     canonicalize w_client_hello c = Some c /\ exists e, wenc w_client_hello c = Some e /\ wdec w_client_hello e = Some c) /\
  (forall x raw c, wenc w_server_hello x = Some raw -> bytes_ok raw = true ->
     canonicalize w_server_hello x = Some c ->
     canonicalize w_server_hello c = Some c /\ exists e, wenc w_server_hello c = Some e /\ wdec w_server_hello e = Some c).
Proof.
  split; [exact (canonicalize_id _ (proj1 client_hello_ok))|].
  split; [exact (canonicalize_id _ server_hello_roundtrip)|].
  split; [exact (canonicalize_idem _ (proj2 (proj2 client_hello_ok)))|].
  exact (canonicalize_idem _ server_hello_fixpoint).
Qed.
