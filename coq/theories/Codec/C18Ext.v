(* C18 group 3 - models of the extension list framing (extension/raw.go) and of the extension
   payload codecs of /repo/pkg/protocol/extension, extension/dtls12, extension/dtls13.
   Every payload decoder is handed exactly the extension_data bytes, hence whole-input codecs.
   Definitions only. *)
From DtlsV Require Import Lib.Bytes Codec.C18Comb.
Open Scope N_scope.

(* ------------------------------------------------------------------ helpers *)

Definition nonnil {A} (l : list A) : bool := match l with [] => false | _ => true end.

(* same check on both sides: the Go Marshal and Unmarshal both refuse the value *)
Definition w_check {A} (p : A -> bool) (w : wcodec A) : wcodec A := w_guard p p w.
Definition c_check {A} (p : A -> bool) (c : codec A) : codec A := c_guard p p c.

(* a list codec that must produce exactly one element *)
Definition is_single {A} (l : list A) : bool := match l with [_] => true | _ => false end.
Definition w_single {A} (d : A) (w : wcodec (list A)) : wcodec A :=
  w_map (hd d) (fun a => [a]) (fun _ => true) (w_guard (fun _ => true) is_single w).

Fixpoint nodupb (l : list bytes) : bool :=
  match l with
  | [] => true
  | x :: l' => negb (existsb (bytes_eqb x) l') && nodupb l'
  end.
Fixpoint nodupN (l : list N) : bool :=
  match l with
  | [] => true
  | x :: l' => negb (existsb (N.eqb x) l') && nodupN l'
  end.

(* opaque<1..2^(8k)-1> and opaque<0..> *)
Definition c_opaque (k : nat) : codec bytes := c_vec k w_rest.
Definition c_opaque1 (k : nat) : codec bytes := c_vec k (w_check nonnil w_rest).

(* ------------------------------------------------------------------ extension/raw.go *)

(* ParseList / MarshalRawList: Extension extensions<0..2^16-1>; each extension_type, opaque
   extension_data<0..2^16-1>; the declared total must equal what is there *)
Definition c_raw_ext : codec (N * bytes) := c_seq (c_u 2) (c_opaque 2).
Definition w_ext_list : wcodec (list (N * bytes)) := w_exact (c_vec 2 (w_list c_raw_ext)).

(* ------------------------------------------------------------------ extension/*.go *)

Definition w_empty : wcodec unit := w_exact (c_const []).          (* requireEmptyPayload *)
Definition w_raw_payload : wcodec bytes := w_rest.                  (* Raw.UnmarshalData *)

Definition w_connection_id : wcodec bytes := w_exact (c_opaque 1).

(* server_name (ClientHello): ServerName server_name_list<1..2^16-1> of (name_type, opaque<1..2^16-1>).
   The decoder keeps the one host_name (type 0) entry - exactly one must be there, and it must
   not end in '.' - and silently drops entries of other name types. *)
Definition c_sni_entry : codec (N * bytes) := c_seq (c_u 1) (c_opaque1 2).
Definition w_sni_list : wcodec (list (N * bytes)) :=
  w_exact (c_vec 2 (w_check nonnil (w_list c_sni_entry))).
Definition host_names (l : list (N * bytes)) : list bytes :=
  map snd (filter (fun e => fst e =? 0) l).
Definition no_trailing_dot (n : bytes) : bool := negb (last n 0 =? 46).
Definition sni_ok (l : list (N * bytes)) : bool :=
  match host_names l with [n] => no_trailing_dot n | _ => false end.
Definition w_sni : wcodec bytes :=
  w_map (fun l => hd [] (host_names l)) (fun n => [(0, n)]) (fun n => nonnil n && no_trailing_dot n)
        (w_guard (fun _ => true) sni_ok w_sni_list).

(* ProtocolName protocol_name_list<2..2^16-1>, each opaque<1..255> *)
Definition w_alpn_list : wcodec (list bytes) :=
  w_exact (c_vec 2 (w_check nonnil (w_list (c_opaque1 1)))).
Definition w_alpn_offer : wcodec (list bytes) := w_alpn_list.
Definition w_alpn_selection : wcodec bytes := w_single [] w_alpn_list.

(* SRTPProtectionProfiles<2..2^16-1>, opaque srtp_mki<0..255> *)
Definition w_srtp : wcodec (list N * bytes) :=
  w_exact (c_seq (c_vec 2 (w_check nonnil (w_list (c_u 2)))) (c_opaque 1)).
Definition w_srtp_offer : wcodec (list N * bytes) := w_srtp.
Definition w_srtp_selection : wcodec (N * bytes) :=
  w_map (fun x => (hd 0 (fst x), snd x)) (fun y => ([fst y], snd y)) (fun _ => true)
        (w_guard (fun _ => true) (fun x => is_single (fst x)) w_srtp).

(* uint16 list<2..2^16-2>: supported_groups, signature_algorithms, signature_algorithms_cert *)
Definition w_u16_list : wcodec (list N) := w_exact (c_vec 2 (w_check nonnil (w_list (c_u 2)))).

(* ------------------------------------------------------------------ extension/dtls12 *)

Definition w_renegotiation_info : wcodec N := w_exact (c_u 1).
(* ec_point_format_list<1..255>; only "uncompressed" (0) survives decoding *)
Definition is_uncompressed (x : N) : bool := x =? 0.
Definition w_point_formats : wcodec (list N) :=
  w_exact (c_vec 1 (w_map (filter is_uncompressed) (fun l => l) (forallb is_uncompressed) (w_list (c_u 1)))).

(* ------------------------------------------------------------------ extension/dtls13 *)

Definition cookie_ok (b : bytes) : bool := nonnil b && (len b <=? 65533).
Definition w_cookie : wcodec bytes := w_exact (c_vec 2 (w_check cookie_ok w_rest)).

Definition w_max_early_data : wcodec N := w_exact (c_u 4).

Definition w_psk_modes : wcodec (list N) := w_exact (c_vec 1 (w_check nonnil (w_list (c_u 1)))).

Definition w_offered_versions : wcodec (list (N * N)) :=
  w_exact (c_vec 1 (w_check nonnil (w_list (c_seq (c_u 1) (c_u 1))))).
Definition w_selected_version : wcodec (N * N) := w_exact (c_seq (c_u 1) (c_u 1)).

(* DistinguishedName authorities<3..2^16-1>, each opaque<1..2^16-1> *)
Definition w_cert_authorities : wcodec (list bytes) :=
  w_exact (c_vec 2 (w_check nonnil (w_list (c_opaque1 2)))).

(* OIDFilter filters<0..2^16-1>: opaque oid<1..255>, opaque values<0..2^16-1>; oids distinct *)
Definition c_oid_filter : codec (bytes * bytes) := c_seq (c_opaque1 1) (c_opaque 2).
Definition oids_distinct (l : list (bytes * bytes)) : bool := nodupb (map fst l).
Definition w_oid_filters : wcodec (list (bytes * bytes)) :=
  w_exact (c_vec 2 (w_check oids_distinct (w_list c_oid_filter))).

(* KeyShareEntry: group, opaque key_exchange<1..2^16-1>; groups distinct *)
Definition c_ks_entry : codec (N * bytes) := c_seq (c_u 2) (c_opaque1 2).
Definition groups_distinct (l : list (N * bytes)) : bool := nodupN (map fst l).
Definition w_ks_entries : wcodec (list (N * bytes)) := w_check groups_distinct (w_list c_ks_entry).
Definition w_client_key_share : wcodec (list (N * bytes)) := w_exact (c_vec 2 w_ks_entries).
Definition w_server_key_share : wcodec (N * bytes) := w_single (0, []) w_ks_entries.
Definition w_retry_key_share : wcodec N := w_exact (c_u 2).

(* OfferedPsks: identities<7..2^16-1> of (opaque identity<1..2^16-1>, uint32 age),
   binders<33..2^16-1> of opaque<32..255>; as many binders as identities *)
Definition c_psk_identity : codec (bytes * N) := c_seq (c_opaque1 2) (c_u 4).
Definition binder_ok (b : bytes) : bool := 32 <=? len b.
Definition c_psk_binder : codec bytes := c_vec 1 (w_check binder_ok w_rest).
Definition psk_counts_ok (x : list (bytes * N) * list bytes) : bool :=
  (length (fst x) =? length (snd x))%nat.
Definition w_offered_psks : wcodec (list (bytes * N) * list bytes) :=
  w_check psk_counts_ok
    (w_exact (c_seq (c_vec 2 (w_check nonnil (w_list c_psk_identity)))
                    (c_vec 2 (w_check nonnil (w_list c_psk_binder))))).
Definition w_selected_psk : wcodec N := w_exact (c_u 2).
