(* C18 group 3 - theorems about the extension codec models of C18Ext.v: every one of them
   round-trips on its domain, re-encodes every accepted input to a fixed point, and (being
   length-prefixed and exact) rejects every truncation of an encoding. *)
From DtlsV Require Import Lib.Bytes Codec.C18Comb Codec.C18CombSound Codec.C18Ext.
From Coq Require Import ZifyN ZifyNat ZifyBool.
Open Scope N_scope.

(* ------------------------------------------------------------------ automation *)

Ltac ext_unfold :=
  unfold c_opaque, c_opaque1, w_check, c_check, c_raw_ext, c_oid_filter, c_ks_entry, c_sni_entry,
    c_psk_identity, c_psk_binder, w_ks_entries in *.

Ltac ext_step :=
  match goal with
  | |- sound (c_seq _ _) => apply sound_seq
  | |- sound (c_u _) => apply sound_u
  | |- sound (c_bytes _) => apply sound_bytes
  | |- sound (c_const _) => apply sound_const
  | |- sound (c_vec _ _) => apply sound_vec
  | |- sound (c_guard _ _ _) => apply sound_guard
  | |- dec_ok (c_seq _ _) => apply decok_seq
  | |- dec_ok (c_u _) => apply decok_u
  | |- dec_ok (c_bytes _) => apply decok_bytes
  | |- dec_ok (c_const _) => apply decok_const
  | |- dec_ok (c_vec _ _) => apply decok_vec
  | |- dec_ok (c_guard ?p ?p _) => apply decok_guard; [intros ? _ Hp; exact Hp|]
  | |- trunc (c_seq _ _) => apply trunc_seq
  | |- trunc (c_u _) => apply trunc_u
  | |- trunc (c_bytes _) => apply trunc_bytes
  | |- trunc (c_const _) => apply trunc_const
  | |- trunc (c_vec _ _) => apply trunc_vec
  | |- trunc (c_guard _ _ _) => apply trunc_guard
  | |- nonempty (c_seq _ _) => apply nonempty_seq_l
  | |- nonempty (c_u _) => apply nonempty_u; lia
  | |- nonempty (c_vec _ _) => apply nonempty_vec; lia
  | |- nonempty (c_guard _ _ _) => apply nonempty_guard
  | |- wsound (w_exact _) => apply wsound_exact
  | |- wsound (w_guard _ _ _) => apply wsound_guard
  | |- wsound (w_list _) => apply wsound_list
  | |- wsound w_rest => exact wsound_rest
  | |- wdec_ok (w_exact _) => apply wdecok_exact
  | |- wdec_ok (w_guard ?p ?p _) => apply wdecok_guard; [intros ? _ Hp; exact Hp|]
  | |- wdec_ok (w_list _) => apply wdecok_list
  | |- wdec_ok w_rest => exact wdecok_rest
  | |- wtrunc (w_exact _) => apply wtrunc_exact
  | |- wtrunc (w_guard _ _ _) => apply wtrunc_guard
  end.

Ltac ext_auto := repeat (progress ext_unfold || ext_step).

(* the three facts proved of every (truncatable) extension codec *)
Definition ext_ok {A} (w : wcodec A) : Prop := wsound w /\ wdec_ok w /\ wfixpoint w.

Lemma ext_ok_intro {A} (w : wcodec A) : wsound w -> wdec_ok w -> ext_ok w.
Proof. intros S D. split; [exact S|]. split; [exact D|]. apply wfixpoint_of; assumption. Qed.

(* ------------------------------------------------------------------ w_single *)

Lemma is_single_inv {A} (l : list A) d : is_single l = true -> [hd d l] = l.
Proof. destruct l as [|x [|y l]]; cbn; intro H; try discriminate. reflexivity. Qed.

Lemma wsound_single {A} (d : A) w : wsound w -> wsound (w_single d w).
Proof.
  intro S. unfold w_single. apply wsound_map; [|apply wsound_guard, S]. intros y _ _. reflexivity.
Qed.
Lemma wdecok_single {A} (d : A) w : wdec_ok w -> wdec_ok (w_single d w).
Proof.
  intro D. unfold w_single. apply wdecok_map_iso; [|apply wdecok_guard; [reflexivity|exact D]].
  intros l W. unfold w_guard in W; cbn [wwf] in W. apply andb_prop in W. destruct W as [_ W].
  split; [reflexivity|]. apply is_single_inv, W.
Qed.
Lemma wtrunc_single {A} (d : A) w : wtrunc w -> wtrunc (w_single d w).
Proof. intro T. unfold w_single. apply wtrunc_map, wtrunc_guard, T. Qed.

(* ------------------------------------------------------------------ raw list, simple payloads *)

Theorem ext_list_ok : ext_ok w_ext_list.
Proof. apply ext_ok_intro; unfold w_ext_list; ext_auto. Qed.
Theorem ext_list_trunc : wtrunc w_ext_list.
Proof. unfold w_ext_list; ext_auto. Qed.

Theorem empty_ok : ext_ok w_empty.
Proof. apply ext_ok_intro; unfold w_empty; ext_auto. Qed.
Theorem raw_payload_ok : ext_ok w_raw_payload.
Proof. apply ext_ok_intro; unfold w_raw_payload; ext_auto. Qed.

Theorem connection_id_ok : ext_ok w_connection_id.
Proof. apply ext_ok_intro; unfold w_connection_id; ext_auto. Qed.
Theorem connection_id_trunc : wtrunc w_connection_id.
Proof. unfold w_connection_id; ext_auto. Qed.

(* ------------------------------------------------------------------ server_name (lossy) *)

Lemma sni_list_sound : wsound w_sni_list. Proof. unfold w_sni_list; ext_auto. Qed.
Lemma sni_list_decok : wdec_ok w_sni_list. Proof. unfold w_sni_list; ext_auto. Qed.
Lemma sni_list_trunc : wtrunc w_sni_list. Proof. unfold w_sni_list; ext_auto. Qed.

(* an element of an encodable list encodes to no more than the whole list *)
Lemma list_enc_member {A} (c : codec A) l e x : list_enc c l = Some e -> In x l ->
  exists ex, enc c x = Some ex /\ (length ex <= length e)%nat.
Proof.
  revert e. induction l as [|a l IH]; intros e He Hin; [destruct Hin|].
  cbn [list_enc] in He. destruct (enc c a) as [ea|] eqn:Ea; [|discriminate].
  destruct (list_enc c l) as [es|] eqn:Es; [|discriminate]. inversion He; subst e; clear He.
  destruct Hin as [->|Hin].
  - exists ea. split; [exact Ea|]. rewrite app_length. lia.
  - destruct (IH es eq_refl Hin) as [ex [Ex Lx]]. exists ex. split; [exact Ex|]. rewrite app_length. lia.
Qed.

Lemma host_names_in l n : In n (host_names l) -> In (0, n) l.
Proof.
  unfold host_names. intro H. apply in_map_iff in H. destruct H as [[t m] [Hm Hf]]. cbn [snd] in Hm. subst m.
  apply filter_In in Hf. destruct Hf as [Hin Ht]. cbn [fst] in Ht. apply N.eqb_eq in Ht. subst t. exact Hin.
Qed.

Theorem sni_ok_ : ext_ok w_sni.
Proof.
  apply ext_ok_intro; unfold w_sni.
  - apply wsound_map; [|apply wsound_guard, sni_list_sound]. intros y _ _. reflexivity.
  - apply wdecok_map; [|apply wdecok_guard; [reflexivity|apply sni_list_decok]].
    intros l e W E. unfold w_guard in W, E; cbn [wwf wenc] in W, E.
    apply andb_prop in W. destruct W as [W Hok]. apply andb_prop in W. destruct W as [W _].
    unfold sni_ok in Hok. destruct (host_names l) as [|n [|n2 r]] eqn:Hn; try discriminate.
    cbn [hd]. assert (Hin : In (0, n) l) by (apply host_names_in; rewrite Hn; left; reflexivity).
    (* facts about l from its well-formedness *)
    unfold w_sni_list, w_exact, c_vec, w_check, w_guard in W, E; cbn [wwf wenc wf enc w_list] in W, E.
    apply andb_prop in W. destruct W as [W Hlen]. apply andb_prop in W. destruct W as [W Hnn].
    apply andb_prop in W. destruct W as [Wl _]. rewrite Hnn in Hlen, E.
    destruct (list_enc c_sni_entry l) as [el|] eqn:El; [|discriminate].
    rewrite Hlen in E. inversion E; subst e; clear E. rename Hlen into Hlt.
    destruct (list_enc_member c_sni_entry l el (0, n) El Hin) as [ex [Ex Lx]].
    assert (Wn : wf c_sni_entry (0, n) = true).
    { apply (proj1 (forallb_forall _ _) Wl). exact Hin. }
    assert (Hnn' : nonnil n = true).
    { pose proof Wn as Wn2.
      unfold c_sni_entry, c_seq, c_bind, c_opaque1, c_vec, w_check, w_guard, w_rest in Wn2; cbn [wf wwf fst snd] in Wn2.
      apply andb_prop in Wn2. destruct Wn2 as [_ Wn2]. apply andb_prop in Wn2. destruct Wn2 as [Wn2 _].
      apply andb_prop in Wn2. destruct Wn2 as [Wn2 _]. apply andb_prop in Wn2. destruct Wn2 as [_ Wn2]. exact Wn2. }
    rewrite Hnn', Hok. split; [reflexivity|].
    unfold w_guard, w_sni_list, w_exact, c_vec, w_check, w_guard; cbn [wwf wenc wf enc w_list list_enc forallb].
    unfold bytes in *. rewrite Wn, Ex. unfold sni_ok, host_names; cbn [filter fst snd N.eqb map]. rewrite Hok.
    rewrite app_nil_r. cbn [nonnil andb].
    assert (Hlx : len ex <? 256 ^ N.of_nat 2 = true).
    { apply N.ltb_lt. apply N.ltb_lt in Hlt. unfold len in *. lia. }
    rewrite Hlx. split; [reflexivity|]. eexists. split; [reflexivity|].
    rewrite app_length, be_enc_length. cbn [length]. lia.
Qed.
Theorem sni_trunc : wtrunc w_sni.
Proof. unfold w_sni. apply wtrunc_map, wtrunc_guard, sni_list_trunc. Qed.
(* lossy: a second entry of another name type is dropped *)
Example sni_lossy :
  wdec w_sni [0; 8; 0; 0; 1; 97; 7; 0; 1; 98] = Some [97] /\ wenc w_sni [97] = Some [0; 4; 0; 0; 1; 97].
Proof. vm_compute. split; reflexivity. Qed.

Lemma alpn_list_sound : wsound w_alpn_list. Proof. unfold w_alpn_list; ext_auto. Qed.
Lemma alpn_list_decok : wdec_ok w_alpn_list. Proof. unfold w_alpn_list; ext_auto. Qed.
Lemma alpn_list_trunc : wtrunc w_alpn_list. Proof. unfold w_alpn_list; ext_auto. Qed.
Theorem alpn_offer_ok : ext_ok w_alpn_offer.
Proof. apply ext_ok_intro; [apply alpn_list_sound|apply alpn_list_decok]. Qed.
Theorem alpn_offer_trunc : wtrunc w_alpn_offer. Proof. apply alpn_list_trunc. Qed.
Theorem alpn_selection_ok : ext_ok w_alpn_selection.
Proof.
  apply ext_ok_intro; unfold w_alpn_selection;
    [apply wsound_single, alpn_list_sound|apply wdecok_single, alpn_list_decok].
Qed.
Theorem alpn_selection_trunc : wtrunc w_alpn_selection.
Proof. apply wtrunc_single, alpn_list_trunc. Qed.

Lemma srtp_sound : wsound w_srtp. Proof. unfold w_srtp; ext_auto. Qed.
Lemma srtp_decok : wdec_ok w_srtp. Proof. unfold w_srtp; ext_auto. Qed.
Lemma srtp_trunc : wtrunc w_srtp.
Proof. unfold w_srtp; ext_auto. Qed.
Theorem srtp_offer_ok : ext_ok w_srtp_offer.
Proof. apply ext_ok_intro; [apply srtp_sound|apply srtp_decok]. Qed.
Theorem srtp_offer_trunc : wtrunc w_srtp_offer. Proof. apply srtp_trunc. Qed.
Theorem srtp_selection_ok : ext_ok w_srtp_selection.
Proof.
  apply ext_ok_intro; unfold w_srtp_selection.
  - apply wsound_map; [|apply wsound_guard, srtp_sound]. intros [p m] _ _. reflexivity.
  - apply wdecok_map_iso; [|apply wdecok_guard; [reflexivity|apply srtp_decok]].
    intros [ps m] W. unfold w_guard in W; cbn [wwf fst] in W. apply andb_prop in W. destruct W as [_ W].
    split; [reflexivity|]. cbn [fst snd]. f_equal. apply is_single_inv, W.
Qed.
Theorem srtp_selection_trunc : wtrunc w_srtp_selection.
Proof. unfold w_srtp_selection. apply wtrunc_map, wtrunc_guard, srtp_trunc. Qed.

Theorem u16_list_ok : ext_ok w_u16_list.
Proof. apply ext_ok_intro; unfold w_u16_list; ext_auto. Qed.
Theorem u16_list_trunc : wtrunc w_u16_list.
Proof. unfold w_u16_list; ext_auto. Qed.

Theorem renegotiation_info_ok : ext_ok w_renegotiation_info.
Proof. apply ext_ok_intro; unfold w_renegotiation_info; ext_auto. Qed.
Theorem renegotiation_info_trunc : wtrunc w_renegotiation_info.
Proof. unfold w_renegotiation_info; ext_auto. Qed.

(* ------------------------------------------------------------------ supported_point_formats (lossy) *)

Lemma filter_id_forallb {A} (p : A -> bool) l : forallb p l = true -> filter p l = l.
Proof.
  induction l as [|x l IH]; cbn [forallb filter]; intro H; [reflexivity|].
  apply andb_prop in H. destruct H as [Hx Hl]. rewrite Hx, (IH Hl). reflexivity.
Qed.
Lemma forallb_filter {A} (p : A -> bool) l : forallb p (filter p l) = true.
Proof.
  induction l as [|x l IH]; cbn [filter]; [reflexivity|].
  destruct (p x) eqn:E; [cbn [forallb]; rewrite E, IH; reflexivity|exact IH].
Qed.
Lemma forallb_filter_mono {A} (p q : A -> bool) l : forallb q l = true -> forallb q (filter p l) = true.
Proof.
  induction l as [|x l IH]; cbn [forallb filter]; intro H; [reflexivity|].
  apply andb_prop in H. destruct H as [Hx Hl].
  destruct (p x); [cbn [forallb]; rewrite Hx, (IH Hl); reflexivity|exact (IH Hl)].
Qed.
Lemma list_enc_u1_length l e : list_enc (c_u 1) l = Some e -> length e = length l.
Proof.
  revert e. induction l as [|x l IH]; cbn [list_enc]; intros e H.
  - inversion H; subst. reflexivity.
  - destruct (list_enc (c_u 1) l) as [es|]; [|discriminate]. cbn [enc c_u] in H.
    inversion H; subst. cbn [be_enc app length]. rewrite (IH es eq_refl). reflexivity.
Qed.
Lemma list_enc_u1_total l : exists e, list_enc (c_u 1) l = Some e.
Proof.
  induction l as [|x l [es IH]]; cbn [list_enc]; [eexists; reflexivity|].
  rewrite IH. cbn [enc c_u]. eexists. reflexivity.
Qed.
Lemma filter_length_le' {A} (p : A -> bool) l : (length (filter p l) <= length l)%nat.
Proof. induction l as [|x l IH]; cbn [filter length]; [lia|]. destruct (p x); cbn [length]; lia. Qed.

Theorem point_formats_ok : ext_ok w_point_formats.
Proof.
  apply ext_ok_intro; unfold w_point_formats.
  - apply wsound_exact, sound_vec. apply wsound_map.
    + intros y W _. apply filter_id_forallb, W.
    + apply wsound_list; [apply sound_u|apply nonempty_u; lia].
  - apply wdecok_exact, decok_vec. apply wdecok_map; [|apply wdecok_list, decok_u].
    intros l e W E. cbn [wwf w_list] in *. split; [apply forallb_filter|].
    split; [apply forallb_filter_mono, W|].
    destruct (list_enc_u1_total (filter is_uncompressed l)) as [e' E']. exists e'.
    split; [exact E'|]. cbn [wenc w_list] in E. rewrite (list_enc_u1_length _ _ E'), (list_enc_u1_length _ _ E).
    apply filter_length_le'.
Qed.
Theorem point_formats_trunc : wtrunc w_point_formats.
Proof. unfold w_point_formats; ext_auto. Qed.
(* lossy: two formats on the wire, one survives, the re-encoding is shorter *)
Example point_formats_lossy :
  wdec w_point_formats [2; 0; 1] = Some [0] /\ wenc w_point_formats [0] = Some [1; 0].
Proof. vm_compute. split; reflexivity. Qed.

(* ------------------------------------------------------------------ dtls13 *)

Theorem cookie_ok_ : ext_ok w_cookie.
Proof. apply ext_ok_intro; unfold w_cookie; ext_auto. Qed.
Theorem cookie_trunc : wtrunc w_cookie.
Proof. unfold w_cookie; ext_auto. Qed.

Theorem max_early_data_ok : ext_ok w_max_early_data.
Proof. apply ext_ok_intro; unfold w_max_early_data; ext_auto. Qed.
Theorem max_early_data_trunc : wtrunc w_max_early_data.
Proof. unfold w_max_early_data; ext_auto. Qed.

Theorem psk_modes_ok : ext_ok w_psk_modes.
Proof. apply ext_ok_intro; unfold w_psk_modes; ext_auto. Qed.
Theorem psk_modes_trunc : wtrunc w_psk_modes.
Proof. unfold w_psk_modes; ext_auto. Qed.

Theorem offered_versions_ok : ext_ok w_offered_versions.
Proof. apply ext_ok_intro; unfold w_offered_versions; ext_auto. Qed.
Theorem offered_versions_trunc : wtrunc w_offered_versions.
Proof. unfold w_offered_versions; ext_auto. Qed.
Theorem selected_version_ok : ext_ok w_selected_version.
Proof. apply ext_ok_intro; unfold w_selected_version; ext_auto. Qed.
Theorem selected_version_trunc : wtrunc w_selected_version.
Proof. unfold w_selected_version; ext_auto. Qed.

Theorem cert_authorities_ok : ext_ok w_cert_authorities.
Proof. apply ext_ok_intro; unfold w_cert_authorities; ext_auto. Qed.
Theorem cert_authorities_trunc : wtrunc w_cert_authorities.
Proof. unfold w_cert_authorities; ext_auto. Qed.

Theorem oid_filters_ok : ext_ok w_oid_filters.
Proof. apply ext_ok_intro; unfold w_oid_filters; ext_auto. Qed.
Theorem oid_filters_trunc : wtrunc w_oid_filters.
Proof. unfold w_oid_filters; ext_auto. Qed.

Lemma ks_entries_sound : wsound w_ks_entries. Proof. ext_auto. Qed.
Lemma ks_entries_decok : wdec_ok w_ks_entries. Proof. ext_auto. Qed.
Theorem client_key_share_ok : ext_ok w_client_key_share.
Proof.
  apply ext_ok_intro; unfold w_client_key_share;
    [apply wsound_exact, sound_vec, ks_entries_sound|apply wdecok_exact, decok_vec, ks_entries_decok].
Qed.
Theorem client_key_share_trunc : wtrunc w_client_key_share.
Proof. unfold w_client_key_share; ext_auto. Qed.
Theorem server_key_share_ok : ext_ok w_server_key_share.
Proof.
  apply ext_ok_intro; unfold w_server_key_share;
    [apply wsound_single, ks_entries_sound|apply wdecok_single, ks_entries_decok].
Qed.
Theorem retry_key_share_ok : ext_ok w_retry_key_share.
Proof. apply ext_ok_intro; unfold w_retry_key_share; ext_auto. Qed.
Theorem retry_key_share_trunc : wtrunc w_retry_key_share.
Proof. unfold w_retry_key_share; ext_auto. Qed.

Theorem offered_psks_ok : ext_ok w_offered_psks.
Proof. apply ext_ok_intro; unfold w_offered_psks; ext_auto. Qed.
Theorem offered_psks_trunc : wtrunc w_offered_psks.
Proof. unfold w_offered_psks; ext_auto. Qed.
Theorem selected_psk_ok : ext_ok w_selected_psk.
Proof. apply ext_ok_intro; unfold w_selected_psk; ext_auto. Qed.
Theorem selected_psk_trunc : wtrunc w_selected_psk.
Proof. unfold w_selected_psk; ext_auto. Qed.
