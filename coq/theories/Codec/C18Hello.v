(* C18 groups 2/3 - typed extension blocks (handshake/extensions.go) and the messages that carry
   them: ClientHello, ServerHello / HelloRetryRequest, EncryptedExtensions, NewSessionTicket,
   CertificateRequest (1.3), Certificate (1.3).  Definitions only.
   The extension registry (extension type x message context -> payload type) is regenerated from
   the tree into Gen/Generated.v ([g_c18_ext_registry]); payload kinds are numbered like the
   harness codecs 120..148 (130 = Raw). *)
From DtlsV Require Import Lib.Bytes Gen.Generated Codec.C18Comb Codec.C18Rec Codec.C18Hs Codec.C18Ext
  Codec.C18Kx.
Open Scope N_scope.

(* ------------------------------------------------------------------ payload values *)

(* one shape per payload value type of C18Ext.v *)
Inductive pv : Type :=
| PUnit
| PBytes (b : bytes)
| PN (n : N)
| PNs (l : list N)
| PBs (l : list bytes)
| PPair (p : N * N)
| PPairs (l : list (N * N))
| PNB (x : N * bytes)
| PNBs (l : list (N * bytes))
| PNsB (x : list N * bytes)
| PBBs (l : list (bytes * bytes))
| PPsk (x : list (bytes * N) * list bytes).

Definition w_inj {A} (inj : A -> pv) (proj : pv -> option A) (w : wcodec A) : wcodec pv :=
  {| wwf y := match proj y with Some a => wwf w a | None => false end;
     wenc y := match proj y with Some a => wenc w a | None => None end;
     wdec b := omap inj (wdec w b) |}.

Definition w_fail {A} : wcodec A := {| wwf _ := false; wenc _ := None; wdec _ := None |}.
Definition c_fail {A} : codec A := {| wf _ := false; enc _ := None; dec _ := None |}.

Definition pj_unit (y : pv) := match y with PUnit => Some tt | _ => None end.
Definition pj_bytes (y : pv) := match y with PBytes b => Some b | _ => None end.
Definition pj_n (y : pv) := match y with PN n => Some n | _ => None end.
Definition pj_ns (y : pv) := match y with PNs l => Some l | _ => None end.
Definition pj_bs (y : pv) := match y with PBs l => Some l | _ => None end.
Definition pj_pair (y : pv) := match y with PPair p => Some p | _ => None end.
Definition pj_pairs (y : pv) := match y with PPairs l => Some l | _ => None end.
Definition pj_nb (y : pv) := match y with PNB x => Some x | _ => None end.
Definition pj_nbs (y : pv) := match y with PNBs l => Some l | _ => None end.
Definition pj_nsb (y : pv) := match y with PNsB x => Some x | _ => None end.
Definition pj_bbs (y : pv) := match y with PBBs l => Some l | _ => None end.
Definition pj_psk (y : pv) := match y with PPsk x => Some x | _ => None end.

(* the payload codec of each kind (numbers = harness codec ids of the Go payload types) *)
Definition kind_codec (k : N) : wcodec pv :=
  if k =? 130 then w_inj PBytes pj_bytes w_raw_payload
  else if k =? 120 then w_inj PBytes pj_bytes w_connection_id
  else if k =? 121 then w_inj PBytes pj_bytes w_sni
  else if (k =? 122) || (k =? 131) || (k =? 132) || (k =? 137) || (k =? 143)
       then w_inj (fun _ => PUnit) pj_unit w_empty
  else if k =? 123 then w_inj PBs pj_bs w_alpn_offer
  else if k =? 124 then w_inj PBytes pj_bytes w_alpn_selection
  else if k =? 125 then w_inj PNsB pj_nsb w_srtp_offer
  else if k =? 126 then w_inj PNB pj_nb w_srtp_selection
  else if (k =? 127) || (k =? 128) || (k =? 129) then w_inj PNs pj_ns w_u16_list
  else if k =? 133 then w_inj PN pj_n w_renegotiation_info
  else if k =? 134 then w_inj PNs pj_ns w_point_formats
  else if k =? 135 then w_inj PBs pj_bs w_cert_authorities
  else if k =? 136 then w_inj PBytes pj_bytes w_cookie
  else if k =? 138 then w_inj PN pj_n w_max_early_data
  else if k =? 139 then w_inj PNBs pj_nbs w_client_key_share
  else if k =? 140 then w_inj PNB pj_nb w_server_key_share
  else if k =? 141 then w_inj PN pj_n w_retry_key_share
  else if k =? 142 then w_inj PBBs pj_bbs w_oid_filters
  else if k =? 144 then w_inj PPsk pj_psk w_offered_psks
  else if k =? 145 then w_inj PN pj_n w_selected_psk
  else if k =? 146 then w_inj PNs pj_ns w_psk_modes
  else if k =? 147 then w_inj PPairs pj_pairs w_offered_versions
  else if k =? 148 then w_inj PPair pj_pair w_selected_version
  else w_fail.

(* ------------------------------------------------------------------ one extension *)

(* (extension type, (payload kind, payload)) *)
Definition extv : Type := (N * (N * pv))%type.
Definition ev_type (e : extv) : N := fst e.
Definition ev_kind (e : extv) : N := fst (snd e).
Definition ev_val (e : extv) : pv := snd (snd e).

Inductive ext_lookup : Type := ExtNotAllowed | ExtKind (k : N).

(* extensionRegistry[typ][context]: unknown types stay Raw; known types must be registered for
   the context; a registered nil factory keeps the payload raw *)
Definition ext_kind (ctx ty : N) : ext_lookup :=
  if memN ty (map fst g_c18_ext_registry) then
    match find (fun e => (fst e =? ty) && (fst (snd e) =? ctx)) g_c18_ext_registry with
    | Some (_, (_, k)) => ExtKind (if k =? 0 then 130 else k)
    | None => ExtNotAllowed
    end
  else ExtKind 130.

Definition c_ext (ctx : N) : codec extv :=
  c_bind (c_u 2) (fun ty =>
    match ext_kind ctx ty with
    | ExtNotAllowed => c_fail
    | ExtKind k => c_map (fun p => (k, p)) snd (fun y => fst y =? k) (c_vec 2 (kind_codec k))
    end).

(* extension.MarshalList of typed values needs no context *)
Definition ext_enc (e : extv) : option bytes :=
  match wenc (kind_codec (ev_kind e)) (ev_val e) with
  | Some p => if len p <? 65536 then Some (be_enc 2 (ev_type e) ++ be_enc 2 (len p) ++ p) else None
  | None => None
  end.

(* ------------------------------------------------------------------ block validation *)

Definition ctx_ch : N := g_c18_ctx_client_hello.
Definition ctx_sh12 : N := g_c18_ctx_server_hello12.
Definition ctx_sh13 : N := g_c18_ctx_server_hello13.
Definition ctx_hrr : N := g_c18_ctx_hello_retry_request.
Definition ctx_ee : N := g_c18_ctx_encrypted_extensions.
Definition ctx_cr : N := g_c18_ctx_certificate_request.
Definition ctx_ct : N := g_c18_ctx_certificate_entry.
Definition ctx_nst : N := g_c18_ctx_new_session_ticket.

Definition present (ty : N) (l : list extv) : bool := memN ty (map ev_type l).
Definition find_kind (k : N) (l : list extv) : option pv :=
  match find (fun e => ev_kind e =? k) l with Some e => Some (ev_val e) | None => None end.
Definition get_groups (l : list extv) : option (list N) := obind (find_kind 127 l) pj_ns.
Definition get_key_share (l : list extv) : option (list (N * bytes)) := obind (find_kind 139 l) pj_nbs.
Definition get_versions (l : list extv) : option (list (N * N)) := obind (find_kind 147 l) pj_pairs.

(* keyShareGroupsFollowSupportedGroups: the shares appear in the order of the offered groups *)
Fixpoint drop_until (s : N) (gs : list N) : option (list N) :=
  match gs with
  | [] => None
  | g :: gs' => if g =? s then Some gs' else drop_until s gs'
  end.
Fixpoint follows (shares gs : list N) : bool :=
  match shares with
  | [] => true
  | s :: ss => match drop_until s gs with Some rest => follows ss rest | None => false end
  end.

Definition pair_eqb (a b : N * N) : bool := (fst a =? fst b) && (snd a =? snd b).

Definition ch_deps (l : list extv) : bool :=
  (* validatePSKDependencies *)
  (negb (present 41 l) || present 45 l) &&
  (negb (present 42 l) || present 41 l) &&
  (* return_routability_check needs connection_id *)
  (negb (present 61 l) || present 54 l) &&
  (* validateTLS13ClientHelloDependencies *)
  (let attempts13 := match get_versions l with Some vs => existsb (pair_eqb (254, 252)) vs | None => false end in
   if attempts13 then
     negb (match get_groups l, get_key_share l with Some _, None => true | _, _ => false end) &&
     negb (match get_key_share l, get_groups l with Some _, None => true | _, _ => false end) &&
     (present 41 l || (present 13 l && match get_groups l with Some _ => true | None => false end))
   else true) &&
  match get_key_share l, get_groups l with
  | Some ks, Some gs => follows (map fst ks) gs
  | _, _ => true
  end.

Definition deps_ok (ctx : N) (l : list extv) : bool :=
  match get_groups l with Some gs => nodupN gs | None => true end &&
  (if ctx =? ctx_ch then ch_deps l
   else if ctx =? ctx_hrr then present 43 l
   else if ctx =? ctx_cr then present 13 l
   else true).

(* validateRawExtensionBlock: no duplicate types; in a ClientHello pre_shared_key must be last
   (the "allowed in this context" part is [c_fail] in [c_ext]) *)
Definition psk_last (l : list extv) : bool :=
  match rev l with
  | [] => true
  | _ :: r => negb (memN 41 (map ev_type r))
  end.

Definition block_ok (ctx : N) (l : list extv) : bool :=
  nodupN (map ev_type l) && (if ctx =? ctx_ch then psk_last l else true) && deps_ok ctx l.

(* decodeExtensionList as a prefix codec (the block carries its own 16-bit length) *)
Definition c_ext_block (ctx : N) : codec (list extv) :=
  c_vec 2 (w_guard (fun _ => true) (block_ok ctx) (w_list (c_ext ctx))).
Definition w_ext_block (ctx : N) : wcodec (list extv) := w_exact (c_ext_block ctx).

(* ------------------------------------------------------------------ common hello fields *)

(* Random: gmt_unix_time (uint32) + 28 bytes *)
Definition c_random : codec (N * bytes) := c_seq (c_u 4) (c_bytes 28).
Definition c_version : codec (N * N) := c_seq (c_u 1) (c_u 1).

(* cipher_suites<2..2^16-2>: length/2 identifiers are read; an odd trailing byte is skipped *)
Fixpoint chunk2l (b : bytes) : list N :=
  match b with
  | x :: y :: b' => (x * 256 + y) :: chunk2l b'
  | _ => []
  end.
Definition w_suites : wcodec (list N) :=
  {| wwf l := forallb (fun x => x <? 65536) l;
     wenc l := Some (flat_map (be_enc 2) l);
     wdec b := Some (chunk2l b) |}.
Definition c_suites : codec (list N) := c_vec 2 w_suites.

(* compression_methods<1..2^8-1>: unknown methods are dropped *)
Definition is_known_cm (x : N) : bool := memN x g_c18_compression_methods.
Definition c_compressions : codec (list N) :=
  c_vec 1 (w_map (filter is_known_cm) (fun l => l) (forallb is_known_cm) (w_list (c_u 1))).

(* ------------------------------------------------------------------ ClientHello *)

(* (version, (random, (session_id, (cookie, (cipher_suites, compression_methods))))) + extensions *)
Definition ch_fixed : Type := ((N * N) * ((N * bytes) * (bytes * (bytes * (list N * list N)))))%type.
Definition c_ch_fixed : codec ch_fixed :=
  c_seq c_version (c_seq c_random (c_seq (c_opaque 1) (c_seq (c_opaque 1) (c_seq c_suites c_compressions)))).
Definition w_client_hello : wcodec (ch_fixed * list extv) := w_seq c_ch_fixed (w_ext_block ctx_ch).

(* ------------------------------------------------------------------ ServerHello / HelloRetryRequest *)

(* (version, (random, (session_id, (cipher_suite, compression_method)))) *)
Definition sh_fixed : Type := ((N * N) * ((N * bytes) * (bytes * (N * N))))%type.
Definition c_sh_fixed : codec sh_fixed :=
  c_seq c_version (c_seq c_random (c_seq (c_opaque 1) (c_seq (c_u 2) (c_check is_known_cm (c_u 1))))).

Definition random_bytes (r : N * bytes) : bytes := be_enc 4 (fst r) ++ snd r.
Definition is_hrr (r : N * bytes) : bool := bytes_eqb (random_bytes r) g_c18_hrr_random.

(* serverHelloExtensionContext *)
Definition sh_ctx (r : N * bytes) (types : list N) : N :=
  if is_hrr r then ctx_hrr
  else if existsb (fun t => (t =? 43) || (t =? 51) || (t =? 41)) types then ctx_sh13
  else ctx_sh12.

(* the extension part: absent entirely (only validated as an empty list), or a block whose
   context depends on the random and on which extension types it contains *)
Definition sh_ext_dec (r : N * bytes) (rest : bytes) : option (list extv) :=
  match rest with
  | [] => if block_ok (sh_ctx r []) [] then Some [] else None
  | _ :: _ =>
      match wdec w_ext_list rest with
      | None => None
      | Some raws => wdec (w_ext_block (sh_ctx r (map fst raws))) rest
      end
  end.

Fixpoint exts_enc (l : list extv) : option bytes :=
  match l with
  | [] => Some []
  | e :: l' => match ext_enc e, exts_enc l' with
               | Some a, Some b => Some (a ++ b)
               | _, _ => None
               end
  end.
(* extension.MarshalList: always a block, even an empty one *)
Definition block_enc (l : list extv) : option bytes :=
  match exts_enc l with
  | Some b => if len b <? 65536 then Some (be_enc 2 (len b) ++ b) else None
  | None => None
  end.

Definition sh_dec (b : bytes) : option (sh_fixed * list extv) :=
  match dec c_sh_fixed b with
  | Some (f, rest) =>
      match sh_ext_dec (fst (snd f)) rest with
      | Some l => Some (f, l)
      | None => None
      end
  | None => None
  end.
Definition sh_enc (x : sh_fixed * list extv) : option bytes :=
  match enc c_sh_fixed (fst x), block_enc (snd x) with
  | Some a, Some b => Some (a ++ b)
  | _, _ => None
  end.
Definition sh_wf (x : sh_fixed * list extv) : bool :=
  let ctx := sh_ctx (fst (snd (fst x))) (map ev_type (snd x)) in
  wf c_sh_fixed (fst x) && wwf (w_ext_block ctx) (snd x).
Definition w_server_hello : wcodec (sh_fixed * list extv) :=
  {| wwf := sh_wf; wenc := sh_enc; wdec := sh_dec |}.

(* ------------------------------------------------------------------ DTLS 1.3 messages *)

Definition w_encrypted_extensions : wcodec (list extv) := w_ext_block ctx_ee.

(* ticket_lifetime, ticket_age_add, ticket_nonce<0..255>, ticket<1..2^16-1>, extensions *)
Definition c_nst_fixed : codec (N * (N * (bytes * bytes))) :=
  c_seq (c_u 4) (c_seq (c_u 4) (c_seq (c_opaque 1) (c_opaque1 2))).
Definition w_new_session_ticket : wcodec ((N * (N * (bytes * bytes))) * list extv) :=
  w_seq c_nst_fixed (w_ext_block ctx_nst).

(* certificate_request_context<0..255>, extensions (signature_algorithms required) *)
Definition w_cert_request13 : wcodec (bytes * list extv) := w_seq (c_opaque 1) (w_ext_block ctx_cr).

(* certificate_request_context<0..255>, CertificateEntry certificate_list<0..2^24-1> of
   (opaque cert_data<1..2^24-1>, extensions) *)
Definition c_cert_entry13 : codec (bytes * list extv) := c_seq (c_opaque1 3) (c_ext_block ctx_ct).
Definition w_certificate13 : wcodec (bytes * list (bytes * list extv)) :=
  w_exact (c_seq (c_opaque 1) (c_vec 3 (w_list c_cert_entry13))).
