(* C18 groups 2/3 - theorems about typed extension blocks and the hello / DTLS 1.3 messages
   (models in C18Hello.v). *)
From DtlsV Require Import Lib.Bytes Gen.Generated Codec.C18Comb Codec.C18CombSound Codec.C18Rec
  Codec.C18Hs Codec.C18HsSound Codec.C18Ext Codec.C18ExtSound Codec.C18Kx Codec.C18KxSound Codec.C18Hello.
From Coq Require Import ZifyN ZifyNat ZifyBool.
Open Scope N_scope.

(* ------------------------------------------------------------------ w_inj, failing codecs *)

Lemma wsound_inj {A} (inj : A -> pv) proj (w : wcodec A) :
  (forall y a, proj y = Some a -> inj a = y) -> wsound w -> wsound (w_inj inj proj w).
Proof.
  intros Hp S y W. unfold w_inj in *; cbn [wwf wenc wdec] in *.
  destruct (proj y) as [a|] eqn:E; [|discriminate]. destruct (S a W) as [e [En D]].
  exists e. rewrite D. cbn [omap]. rewrite (Hp y a E). split; [exact En|reflexivity].
Qed.

Lemma wdecok_inj {A} (inj : A -> pv) proj (w : wcodec A) :
  (forall a, proj (inj a) = Some a) -> wdec_ok w -> wdec_ok (w_inj inj proj w).
Proof.
  intros Hp D b y Hb H. unfold w_inj in *; cbn [wwf wenc wdec] in *.
  destruct (wdec w b) as [a|] eqn:E; [|discriminate]. cbn [omap] in H. inversion H; subst y; clear H.
  rewrite Hp. exact (D b a Hb E).
Qed.

Lemma wsound_fail {A} : wsound (@w_fail A).
Proof. intros a W. discriminate W. Qed.
Lemma wdecok_fail {A} : wdec_ok (@w_fail A).
Proof. intros b a _ H. discriminate H. Qed.
Lemma sound_fail {A} : sound (@c_fail A).
Proof. intros a r W. discriminate W. Qed.
Lemma decok_fail {A} : dec_ok (@c_fail A).
Proof. intros b a r _ H. discriminate H. Qed.
Lemma trunc_fail {A} : trunc (@c_fail A).
Proof. intros a e k W. discriminate W. Qed.

(* ------------------------------------------------------------------ every payload kind *)

Ltac pj_inj := let y := fresh in let a := fresh in let H := fresh in
  intros y a H; destruct y; cbn in H; try discriminate; inversion H; subst; try reflexivity;
  match goal with u : unit |- _ => destruct u; reflexivity end.

Lemma kind_codec_sound k : wsound (kind_codec k).
Proof.
  unfold kind_codec.
  repeat match goal with |- context [if ?c then _ else _] => destruct c end.
  all: try apply wsound_fail.
  all: apply wsound_inj; [pj_inj|].
  all: first [ exact (proj1 raw_payload_ok) | exact (proj1 connection_id_ok) | exact (proj1 sni_ok_) | exact (proj1 empty_ok) | exact (proj1 alpn_offer_ok) | exact (proj1 alpn_selection_ok) | exact (proj1 srtp_offer_ok) | exact (proj1 srtp_selection_ok) | exact (proj1 u16_list_ok) | exact (proj1 renegotiation_info_ok) | exact (proj1 point_formats_ok) | exact (proj1 cert_authorities_ok) | exact (proj1 cookie_ok_) | exact (proj1 max_early_data_ok) | exact (proj1 client_key_share_ok) | exact (proj1 server_key_share_ok) | exact (proj1 retry_key_share_ok) | exact (proj1 oid_filters_ok) | exact (proj1 offered_psks_ok) | exact (proj1 selected_psk_ok) | exact (proj1 psk_modes_ok) | exact (proj1 offered_versions_ok) | exact (proj1 selected_version_ok) ].
Qed.

Lemma kind_codec_decok k : wdec_ok (kind_codec k).
Proof.
  unfold kind_codec.
  repeat match goal with |- context [if ?c then _ else _] => destruct c end.
  all: try apply wdecok_fail.
  all: apply wdecok_inj; [intro a; first [reflexivity | destruct a; reflexivity]|].
  all: first [ exact (proj1 (proj2 raw_payload_ok)) | exact (proj1 (proj2 connection_id_ok)) | exact (proj1 (proj2 sni_ok_)) | exact (proj1 (proj2 empty_ok)) | exact (proj1 (proj2 alpn_offer_ok)) | exact (proj1 (proj2 alpn_selection_ok)) | exact (proj1 (proj2 srtp_offer_ok)) | exact (proj1 (proj2 srtp_selection_ok)) | exact (proj1 (proj2 u16_list_ok)) | exact (proj1 (proj2 renegotiation_info_ok)) | exact (proj1 (proj2 point_formats_ok)) | exact (proj1 (proj2 cert_authorities_ok)) | exact (proj1 (proj2 cookie_ok_)) | exact (proj1 (proj2 max_early_data_ok)) | exact (proj1 (proj2 client_key_share_ok)) | exact (proj1 (proj2 server_key_share_ok)) | exact (proj1 (proj2 retry_key_share_ok)) | exact (proj1 (proj2 oid_filters_ok)) | exact (proj1 (proj2 offered_psks_ok)) | exact (proj1 (proj2 selected_psk_ok)) | exact (proj1 (proj2 psk_modes_ok)) | exact (proj1 (proj2 offered_versions_ok)) | exact (proj1 (proj2 selected_version_ok)) ].
Qed.

Lemma kind_codec_ok k : wsound (kind_codec k) /\ wdec_ok (kind_codec k).
Proof. split; [apply kind_codec_sound|apply kind_codec_decok]. Qed.

(* ------------------------------------------------------------------ one extension, a block *)

Lemma sound_ext ctx : sound (c_ext ctx).
Proof.
  unfold c_ext. apply sound_bind; [apply sound_u|]. intros ty _.
  destruct (ext_kind ctx ty) as [|k]; [apply sound_fail|].
  apply sound_map; [|apply sound_vec, (proj1 (kind_codec_ok k))].
  intros [k' p] W _. cbn [fst snd] in *. apply N.eqb_eq in W. subst. reflexivity.
Qed.
Lemma decok_ext ctx : dec_ok (c_ext ctx).
Proof.
  unfold c_ext. apply decok_bind; [apply decok_u|]. intros ty _.
  destruct (ext_kind ctx ty) as [|k]; [apply decok_fail|].
  apply decok_map_iso; [|apply decok_vec, (proj2 (kind_codec_ok k))].
  intros p _. cbn [fst snd]. rewrite N.eqb_refl. split; reflexivity.
Qed.
Lemma trunc_ext ctx : trunc (c_ext ctx).
Proof.
  unfold c_ext. apply trunc_bind; [apply sound_u|apply trunc_u|]. intros ty _.
  destruct (ext_kind ctx ty) as [|k]; [apply trunc_fail|]. apply trunc_map, trunc_vec.
Qed.
Lemma nonempty_ext ctx : nonempty (c_ext ctx).
Proof. unfold c_ext. apply nonempty_bind_l, nonempty_u. lia. Qed.

Theorem sound_ext_block ctx : sound (c_ext_block ctx).
Proof.
  unfold c_ext_block. apply sound_vec, wsound_guard, wsound_list; [apply sound_ext|apply nonempty_ext].
Qed.
Theorem decok_ext_block ctx : dec_ok (c_ext_block ctx).
Proof.
  unfold c_ext_block. apply decok_vec, wdecok_guard; [reflexivity|apply wdecok_list, decok_ext].
Qed.
Theorem trunc_ext_block ctx : trunc (c_ext_block ctx).
Proof. unfold c_ext_block. apply trunc_vec. Qed.

Theorem ext_block_ok ctx : ext_ok (w_ext_block ctx).
Proof.
  apply ext_ok_intro; unfold w_ext_block; [apply wsound_exact, sound_ext_block|apply wdecok_exact, decok_ext_block].
Qed.
Theorem ext_block_trunc ctx : wtrunc (w_ext_block ctx).
Proof. apply wtrunc_exact, trunc_ext_block. Qed.

(* what decoding a block guarantees: the validation rules hold of the typed values *)
Theorem ext_block_validated ctx b l : bytes_ok b = true -> wdec (w_ext_block ctx) b = Some l ->
  block_ok ctx l = true.
Proof.
  intros Hb H. destruct (ext_block_ok ctx) as [_ [D _]]. destruct (D b l Hb H) as [W _].
  unfold w_ext_block, w_exact, c_ext_block, c_vec, w_guard in W; cbn [wwf wf] in W.
  apply andb_prop in W. destruct W as [W _]. apply andb_prop in W. exact (proj2 W).
Qed.

(* ------------------------------------------------------------------ hello fields *)

Lemma sound_version : sound c_version. Proof. unfold c_version. ext_auto. Qed.
Lemma decok_version : dec_ok c_version. Proof. unfold c_version. ext_auto. Qed.
Lemma trunc_version : trunc c_version. Proof. unfold c_version. ext_auto. Qed.
Lemma sound_random : sound c_random. Proof. unfold c_random. ext_auto. Qed.
Lemma decok_random : dec_ok c_random. Proof. unfold c_random. ext_auto. Qed.
Lemma trunc_random : trunc c_random. Proof. unfold c_random. ext_auto. Qed.

Lemma chunk2l_enc l : forallb (fun x => x <? 65536) l = true -> chunk2l (flat_map (be_enc 2) l) = l.
Proof.
  induction l as [|n l IH]; cbn [forallb flat_map]; intro H; [reflexivity|].
  apply andb_prop in H. destruct H as [Hn Hl]. apply N.ltb_lt in Hn.
  change (be_enc 2 n) with [(n / 256 ^ N.of_nat 1) mod 256; (n / 256 ^ N.of_nat 0) mod 256].
  change (256 ^ N.of_nat 1) with 256. change (256 ^ N.of_nat 0) with 1. cbn [app chunk2l].
  rewrite (IH Hl). f_equal.
  rewrite N.div_1_r. rewrite (N.mod_small (n / 256) 256) by (apply N.div_lt_upper_bound; lia).
  pose proof (N.div_mod' n 256). lia.
Qed.

Lemma chunk2l_spec : forall n b, (length b <= n)%nat -> bytes_ok b = true ->
  forallb (fun x => x <? 65536) (chunk2l b) = true /\ (2 * length (chunk2l b) <= length b)%nat.
Proof.
  induction n as [|n IH]; intros b Hl Hb.
  - destruct b; [split; [reflexivity|cbn; lia]|cbn in Hl; lia].
  - destruct b as [|x [|y b]]; try (split; [reflexivity|cbn; lia]).
    cbn [chunk2l forallb length] in *.
    unfold bytes_ok in Hb. cbn [forallb] in Hb. apply andb_prop in Hb. destruct Hb as [Hx Hb].
    apply andb_prop in Hb. destruct Hb as [Hy Hb]. unfold byte_ok in Hx, Hy.
    destruct (IH b ltac:(lia) Hb) as [I1 I2]. rewrite I1. split; [|lia].
    destruct (N.ltb_spec (x * 256 + y) 65536); [reflexivity|lia].
Qed.

Lemma flat_be2_length (l : list N) : length (flat_map (be_enc 2) l) = (2 * length l)%nat.
Proof.
  induction l as [|x l IH]; [reflexivity|]. cbn [flat_map]. rewrite app_length, be_enc_length, IH. cbn [length]. lia.
Qed.

Lemma wsound_suites : wsound w_suites.
Proof.
  intros l W. cbn [wwf wenc wdec w_suites] in *. eexists. split; [reflexivity|].
  rewrite (chunk2l_enc l W). reflexivity.
Qed.
Lemma wdecok_suites : wdec_ok w_suites.
Proof.
  intros b l Hb H. cbn [wwf wenc wdec w_suites] in *. inversion H; subst l; clear H.
  destruct (chunk2l_spec (length b) b (le_n _) Hb) as [H1 H2]. split; [exact H1|].
  eexists. split; [reflexivity|]. rewrite flat_be2_length. exact H2.
Qed.
Lemma sound_suites : sound c_suites. Proof. apply sound_vec, wsound_suites. Qed.
Lemma decok_suites : dec_ok c_suites. Proof. apply decok_vec, wdecok_suites. Qed.
Lemma trunc_suites : trunc c_suites. Proof. apply trunc_vec. Qed.

Lemma sound_compressions : sound c_compressions.
Proof.
  unfold c_compressions. apply sound_vec, wsound_map.
  - intros y W _. apply filter_id_forallb, W.
  - apply wsound_list; [apply sound_u|apply nonempty_u; lia].
Qed.
Lemma decok_compressions : dec_ok c_compressions.
Proof.
  unfold c_compressions. apply decok_vec, wdecok_map; [|apply wdecok_list, decok_u].
  intros l e W E. cbn [wwf w_list] in *. split; [apply forallb_filter|].
  split; [apply forallb_filter_mono, W|].
  destruct (list_enc_u1_total (filter is_known_cm l)) as [e' E']. exists e'.
  split; [exact E'|]. cbn [wenc w_list] in E. rewrite (list_enc_u1_length _ _ E'), (list_enc_u1_length _ _ E).
  apply filter_length_le'.
Qed.
Lemma trunc_compressions : trunc c_compressions. Proof. apply trunc_vec. Qed.

(* ------------------------------------------------------------------ ClientHello *)

Lemma sound_ch_fixed : sound c_ch_fixed.
Proof.
  unfold c_ch_fixed. repeat apply sound_seq; try apply sound_version; try apply sound_random;
    try apply sound_suites; try apply sound_compressions; ext_auto.
Qed.
Lemma decok_ch_fixed : dec_ok c_ch_fixed.
Proof.
  unfold c_ch_fixed. repeat apply decok_seq; try apply decok_version; try apply decok_random;
    try apply decok_suites; try apply decok_compressions; ext_auto.
Qed.
Lemma trunc_ch_fixed : trunc c_ch_fixed.
Proof.
  unfold c_ch_fixed.
  apply trunc_seq; [apply sound_version|apply trunc_version|].
  apply trunc_seq; [apply sound_random|apply trunc_random|].
  apply trunc_seq; [ext_auto|ext_auto|].
  apply trunc_seq; [ext_auto|ext_auto|].
  apply trunc_seq; [apply sound_suites|apply trunc_suites|apply trunc_compressions].
Qed.

Theorem client_hello_ok : ext_ok w_client_hello.
Proof.
  apply ext_ok_intro; unfold w_client_hello, w_seq.
  - apply wsound_bind; [apply sound_ch_fixed|intros _ _; apply (proj1 (ext_block_ok ctx_ch))].
  - apply wdecok_bind; [apply decok_ch_fixed|intros _ _; apply (proj1 (proj2 (ext_block_ok ctx_ch)))].
Qed.
Theorem client_hello_trunc : wtrunc w_client_hello.
Proof.
  unfold w_client_hello, w_seq. apply wtrunc_bind; [apply sound_ch_fixed|apply trunc_ch_fixed|].
  intros _ _. apply ext_block_trunc.
Qed.

(* ------------------------------------------------------------------ EncryptedExtensions, NewSessionTicket,
   CertificateRequest (1.3), Certificate (1.3) *)

Theorem encrypted_extensions_ok : ext_ok w_encrypted_extensions.
Proof. apply ext_block_ok. Qed.
Theorem encrypted_extensions_trunc : wtrunc w_encrypted_extensions.
Proof. apply ext_block_trunc. Qed.

Lemma sound_nst_fixed : sound c_nst_fixed. Proof. unfold c_nst_fixed. ext_auto. Qed.
Lemma decok_nst_fixed : dec_ok c_nst_fixed. Proof. unfold c_nst_fixed. ext_auto. Qed.
Lemma trunc_nst_fixed : trunc c_nst_fixed. Proof. unfold c_nst_fixed. ext_auto. Qed.
Theorem new_session_ticket_ok : ext_ok w_new_session_ticket.
Proof.
  apply ext_ok_intro; unfold w_new_session_ticket, w_seq.
  - apply wsound_bind; [apply sound_nst_fixed|intros _ _; apply (proj1 (ext_block_ok ctx_nst))].
  - apply wdecok_bind; [apply decok_nst_fixed|intros _ _; apply (proj1 (proj2 (ext_block_ok ctx_nst)))].
Qed.
Theorem new_session_ticket_trunc : wtrunc w_new_session_ticket.
Proof.
  unfold w_new_session_ticket, w_seq. apply wtrunc_bind; [apply sound_nst_fixed|apply trunc_nst_fixed|].
  intros _ _. apply ext_block_trunc.
Qed.

Theorem cert_request13_ok : ext_ok w_cert_request13.
Proof.
  apply ext_ok_intro; unfold w_cert_request13, w_seq.
  - apply wsound_bind; [ext_auto|intros _ _; apply (proj1 (ext_block_ok ctx_cr))].
  - apply wdecok_bind; [ext_auto|intros _ _; apply (proj1 (proj2 (ext_block_ok ctx_cr)))].
Qed.
Theorem cert_request13_trunc : wtrunc w_cert_request13.
Proof.
  unfold w_cert_request13, w_seq. apply wtrunc_bind; [ext_auto|ext_auto|]. intros _ _. apply ext_block_trunc.
Qed.

Lemma sound_cert_entry13 : sound c_cert_entry13.
Proof. unfold c_cert_entry13. apply sound_seq; [ext_auto|apply sound_ext_block]. Qed.
Lemma decok_cert_entry13 : dec_ok c_cert_entry13.
Proof. unfold c_cert_entry13. apply decok_seq; [ext_auto|apply decok_ext_block]. Qed.
Lemma nonempty_cert_entry13 : nonempty c_cert_entry13.
Proof. unfold c_cert_entry13. apply nonempty_seq_l. ext_auto. Qed.
Theorem certificate13_ok : ext_ok w_certificate13.
Proof.
  apply ext_ok_intro; unfold w_certificate13.
  - apply wsound_exact, sound_seq; [ext_auto|].
    apply sound_vec, wsound_list; [apply sound_cert_entry13|apply nonempty_cert_entry13].
  - apply wdecok_exact, decok_seq; [ext_auto|]. apply decok_vec, wdecok_list, decok_cert_entry13.
Qed.
Theorem certificate13_trunc : wtrunc w_certificate13.
Proof. unfold w_certificate13. apply wtrunc_exact, trunc_seq; [ext_auto|ext_auto|apply trunc_vec]. Qed.

(* ------------------------------------------------------------------ ServerHello / HelloRetryRequest *)

Lemma sound_sh_fixed : sound c_sh_fixed.
Proof.
  unfold c_sh_fixed. repeat apply sound_seq; try apply sound_version; try apply sound_random; ext_auto.
Qed.
Lemma decok_sh_fixed : dec_ok c_sh_fixed.
Proof.
  unfold c_sh_fixed. repeat apply decok_seq; try apply decok_version; try apply decok_random; ext_auto.
Qed.

(* the context-free encoder (Go: extension.MarshalList) agrees with the context-indexed codec *)
Lemma ext_enc_agrees ctx e : wf (c_ext ctx) e = true -> enc (c_ext ctx) e = ext_enc e.
Proof.
  destruct e as [ty [k p]]. unfold c_ext, c_bind, ext_enc, ev_kind, ev_val, ev_type; cbn [wf enc fst snd].
  intro W. apply andb_prop in W. destruct W as [_ W].
  destruct (ext_kind ctx ty) as [|k']; [discriminate W|].
  unfold c_map, c_vec in *; cbn [wf enc fst snd] in *.
  apply andb_prop in W. destruct W as [Wk _]. apply N.eqb_eq in Wk. subst k'.
  unfold c_u; cbn [enc]. change (256 ^ N.of_nat 2) with 65536.
  destruct (wenc (kind_codec k) p) as [pe|]; [|reflexivity].
  destruct (len pe <? 65536); reflexivity.
Qed.

Lemma exts_enc_agrees ctx l : forallb (wf (c_ext ctx)) l = true -> list_enc (c_ext ctx) l = exts_enc l.
Proof.
  induction l as [|e l IH]; cbn [forallb list_enc exts_enc]; intro H; [reflexivity|].
  apply andb_prop in H. destruct H as [He Hl]. rewrite (ext_enc_agrees ctx e He), (IH Hl). reflexivity.
Qed.

Lemma block_enc_agrees ctx l : wwf (w_ext_block ctx) l = true -> wenc (w_ext_block ctx) l = block_enc l.
Proof.
  unfold w_ext_block, w_exact, c_ext_block, c_vec, w_guard, block_enc; cbn [wwf wenc wf enc w_list].
  intro W. apply andb_prop in W. destruct W as [W _]. apply andb_prop in W. destruct W as [W _].
  apply andb_prop in W. destruct W as [W _]. rewrite (exts_enc_agrees ctx l W).
  change (256 ^ N.of_nat 2) with 65536. reflexivity.
Qed.

(* a typed extension and a raw extension are framed identically *)
Lemma ext_dec_raw ctx x e r : dec (c_ext ctx) x = Some (e, r) ->
  exists d, dec c_raw_ext x = Some ((ev_type e, d), r).
Proof.
  unfold c_ext, c_raw_ext, c_seq, c_bind; cbn [dec].
  destruct (dec (c_u 2) x) as [[ty r1]|]; [|discriminate].
  destruct (ext_kind ctx ty) as [|k]; [discriminate|].
  unfold c_map, c_opaque, c_vec, w_rest; cbn [dec wdec].
  destruct (length r1 <? 2)%nat; [discriminate|].
  destruct (len (skipn 2 r1) <? be_dec (firstn 2 r1)); [discriminate|].
  destruct (wdec (kind_codec k) (take (be_dec (firstn 2 r1)) (skipn 2 r1))) as [p|]; [|discriminate].
  intro H. inversion H; subst e r; clear H. eexists. unfold ev_type; cbn [fst]. reflexivity.
Qed.

Lemma list_dec_typed_raw ctx : forall fuel x l, list_dec (c_ext ctx) fuel x = Some l ->
  exists raws, list_dec c_raw_ext fuel x = Some raws /\ map fst raws = map ev_type l.
Proof.
  induction fuel as [|fuel IH]; intros x l H.
  - destruct x; cbn [list_dec] in *; [|discriminate]. inversion H; subst. exists []. split; reflexivity.
  - destruct x as [|y x0].
    { cbn [list_dec] in *. inversion H; subst. exists []. split; reflexivity. }
    cbn [list_dec] in *. remember (y :: x0) as x eqn:Hx.
    destruct (dec (c_ext ctx) x) as [[e r]|] eqn:E; [|discriminate].
    destruct (ext_dec_raw ctx x e r E) as [d Er]. rewrite Er.
    destruct (length r <? length x)%nat; [|discriminate].
    destruct (list_dec (c_ext ctx) fuel r) as [l'|] eqn:El; [|discriminate].
    inversion H; subst l; clear H. destruct (IH r l' El) as [raws [Rr Rt]]. rewrite Rr.
    exists ((ev_type e, d) :: raws). split; [reflexivity|]. cbn [map fst]. rewrite Rt. reflexivity.
Qed.

(* decoding a block typed or raw yields the same extension types in the same order *)
Lemma typed_vs_raw ctx b l : wdec (w_ext_block ctx) b = Some l ->
  exists raws, wdec w_ext_list b = Some raws /\ map fst raws = map ev_type l.
Proof.
  unfold w_ext_block, w_ext_list, w_exact, c_ext_block, c_vec, w_guard; cbn [wdec dec w_list].
  destruct (length b <? 2)%nat; [discriminate|].
  destruct (len (skipn 2 b) <? be_dec (firstn 2 b)); [discriminate|].
  set (x := take (be_dec (firstn 2 b)) (skipn 2 b)).
  destruct (list_dec (c_ext ctx) (length x) x) as [l0|] eqn:E; [|discriminate].
  destruct (block_ok ctx l0); [|discriminate].
  destruct (drop (be_dec (firstn 2 b)) (skipn 2 b)) as [|z rest]; [|discriminate].
  intro H. inversion H; subst l0; clear H.
  destruct (list_dec_typed_raw ctx _ _ _ E) as [raws [Rr Rt]]. rewrite Rr.
  exists raws. split; [reflexivity|exact Rt].
Qed.

Theorem server_hello_roundtrip : wsound w_server_hello.
Proof.
  intros [f l] W. cbn [wwf wenc wdec w_server_hello] in *. unfold sh_wf in W. cbn [fst snd] in W.
  apply andb_prop in W. destruct W as [Wf Wl].
  set (ctx := sh_ctx (fst (snd f)) (map ev_type l)) in *.
  destruct (proj1 (ext_block_ok ctx) l Wl) as [eb [Eb Db]].
  rewrite (block_enc_agrees ctx l Wl) in Eb.
  destruct (sound_sh_fixed f eb Wf) as [a [Ea Da]].
  unfold sh_enc. cbn [fst snd]. rewrite Ea, Eb. exists (a ++ eb). split; [reflexivity|].
  unfold sh_dec. rewrite Da. unfold sh_ext_dec.
  destruct eb as [|z eb0].
  { unfold w_ext_block, w_exact, c_ext_block, c_vec in Db; cbn [wdec dec length Nat.ltb Nat.leb] in Db. discriminate. }
  destruct (typed_vs_raw ctx _ l Db) as [raws [Rr Rt]]. rewrite Rr, Rt. fold ctx. rewrite Db. reflexivity.
Qed.

(* every accepted ServerHello is in the domain, hence re-encodes to a fixed point *)
Lemma server_hello_decwf : wdec_wf w_server_hello.
Proof.
  intros b [f l] Hb H. cbn [wwf wdec w_server_hello] in *. unfold sh_dec in H.
  destruct (dec c_sh_fixed b) as [[f0 rest]|] eqn:Ef; [|discriminate].
  destruct (sh_ext_dec (fst (snd f0)) rest) as [l0|] eqn:El; [|discriminate].
  inversion H; subst f0 l0; clear H.
  destruct (decok_sh_fixed _ _ _ Hb Ef) as [Wf [ef [p [_ [Hbp _]]]]].
  assert (Hrest : bytes_ok rest = true) by (rewrite Hbp in Hb; apply (bytes_ok_app_inv _ _ Hb)).
  unfold sh_wf. cbn [fst snd]. rewrite Wf. cbn [andb]. unfold sh_ext_dec in El.
  destruct rest as [|z rest0].
  - destruct (block_ok (sh_ctx (fst (snd f)) []) []) eqn:Hok; [|discriminate]. inversion El; subst l.
    cbn [map]. unfold w_ext_block, w_exact, c_ext_block, c_vec, w_guard; cbn [wwf wf wenc w_list forallb list_enc].
    rewrite Hok. reflexivity.
  - destruct (wdec w_ext_list (z :: rest0)) as [raws|] eqn:Er; [|discriminate].
    destruct (typed_vs_raw _ _ _ El) as [raws' [Er' Rt]]. rewrite Er in Er'. inversion Er'; subst raws'.
    rewrite <- Rt. exact (proj1 (proj1 (proj2 (ext_block_ok _)) _ _ Hrest El)).
Qed.

Theorem server_hello_fixpoint : wfixpoint w_server_hello.
Proof. apply wfixpoint_of_wf; [apply server_hello_roundtrip|apply server_hello_decwf]. Qed.

(* Marshal always writes an extension block; an input without one is accepted and re-encoded with
   an empty block (canonical form differs from the input, and is a fixed point) *)
Example server_hello_absent_block_canonicalised :
  let b := [254; 253] ++ repeat 7 32 ++ [0; 192; 43; 0] in
  exists x, sh_dec b = Some x /\ sh_enc x = Some (b ++ [0; 0]) /\ sh_dec (b ++ [0; 0]) = Some x.
Proof. eexists. split; [vm_compute; reflexivity|]. split; vm_compute; reflexivity. Qed.
