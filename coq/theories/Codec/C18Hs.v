(* C18 group 2 - models of the handshake message codecs of /repo/pkg/protocol/handshake
   (definitions only).  Tables (signature schemes, curves, certificate types) come from
   Gen/Generated.v, i.e. from the current tree. *)
From DtlsV Require Import Lib.Bytes Gen.Generated Codec.C18Comb Codec.C18Rec Codec.C18Ext.
Open Scope N_scope.

(* ------------------------------------------------------------------ small helpers *)

Fixpoint assoc {B} (k : N) (l : list (N * B)) : option B :=
  match l with
  | [] => None
  | (k', v) :: l' => if k =? k' then Some v else assoc k l'
  end.

Definition memN (x : N) (l : list N) : bool := existsb (N.eqb x) l.

Definition obytes_ok (o : option bytes) : bool :=
  match o with Some b => bytes_ok b | None => true end.

(* ------------------------------------------------------------------ simple messages *)

(* message_hello_verify_request.go: version, cookie<0..255>; bytes after the cookie are ignored *)
Definition c_hvr : codec (N * (N * bytes)) := c_seq (c_u 1) (c_seq (c_u 1) (c_vec 1 w_rest)).
Definition w_hvr : wcodec (N * (N * bytes)) := w_lenient c_hvr.

(* message_finished.go: verify_data is whatever the envelope delimits *)
Definition w_finished : wcodec bytes := w_rest.

(* message_server_hello_done.go: Unmarshal ignores its argument *)
Definition w_shd : wcodec unit := {| wwf _ := true; wenc _ := Some []; wdec _ := Some tt |}.

(* message_key_update.go: one byte, 0 or 1 (checked by both directions) *)
Definition ku_ok (r : N) : bool := r <=? 1.
Definition w_key_update : wcodec N := w_exact (c_guard ku_ok ku_ok (c_u 1)).

(* message_request_connection_id.go *)
Definition w_req_cid : wcodec N := w_exact (c_u 1).

(* message_new_connection_id.go: cids<0..2^16-1> of opaque<0..255>, usage (0|1); exact length *)
Definition c_new_cid : codec (list bytes * N) :=
  c_seq (c_vec 2 (w_list (c_vec 1 w_rest))) (c_guard ku_ok ku_ok (c_u 1)).
Definition w_new_cid : wcodec (list bytes * N) := w_exact c_new_cid.

(* message_certificate.go (DTLS 1.2): certificate_list<0..2^24-1> of opaque<0..2^24-1>; exact *)
Definition w_certificate : wcodec (list bytes) := w_exact (c_vec 3 (w_list (c_vec 3 w_rest))).

(* ------------------------------------------------------------------ signature schemes *)

(* signaturehash.Algorithm.Unmarshal as a table: scheme -> (hash, signature); generated *)
Definition sig_lookup (s : N) : option (N * N) := assoc s g_c18_sigschemes.
Definition is_pss (s : N) : bool := memN s [2052; 2053; 2054; 2057; 2058; 2059].
(* signaturehash.Algorithm.Marshal: PSS writes the 16-bit scheme, others hash||signature bytes *)
Definition sig_scheme_of (hs : N * N) : N :=
  let '(h, s) := hs in if is_pss s then s else (h mod 256) * 256 + s mod 256.

Definition sig_in_table (s : N) : bool := match sig_lookup s with Some _ => true | None => false end.
Definition sig_of_scheme (s : N) : N * N := match sig_lookup s with Some x => x | None => (0, 0) end.
Definition sigalg_wf (hs : N * N) : bool :=
  match sig_lookup (sig_scheme_of hs) with
  | Some (h, s) => (h =? fst hs) && (s =? snd hs)
  | None => false
  end.
Definition c_sigalg : codec (N * N) :=
  c_map sig_of_scheme sig_scheme_of sigalg_wf (c_guard (fun _ => true) sig_in_table (c_u 2)).

(* message_certificate_verify.go: scheme, signature<0..2^16-1>, exact length.  Marshal writes
   signaturehash.Algorithm.Marshal (two-byte scheme for RSA-PSS, hash||signature bytes otherwise)
   after checking that the pair is what Algorithm.Unmarshal makes of those two bytes; outside
   PSS, hash and signature must fit a byte. *)
Definition cv_enc_ok (x : (N * N) * bytes) : bool :=
  let '((h, s), _) := x in (is_pss s || ((h <=? 255) && (s <=? 255))) && sigalg_wf (h, s).
Definition cv_body : codec ((N * N) * bytes) := c_seq c_sigalg (c_vec 2 w_rest).
Definition w_cert_verify : wcodec ((N * N) * bytes) := w_guard cv_enc_ok (fun _ => true) (w_exact cv_body).

(* ------------------------------------------------------------------ ClientKeyExchange *)

(* message_client_key_exchange.go; context = key exchange algorithm bits (2 = PSK, 4 = ECDHE).
   value = (identity hint if PSK, public key if ECDHE) *)
Definition kx_psk (kx : N) : bool := N.testbit kx 1.
Definition kx_ecdhe (kx : N) : bool := N.testbit kx 2.

Definition cke : Type := (option bytes * option bytes)%type.

(* MessageClientKeyExchange.Marshal (no context) *)
Definition cke_enc (x : cke) : option bytes :=
  let '(hint, pk) := x in
  match hint, pk with
  | None, None => None                                              (* ErrInvalidClientKeyExchange *)
  | _, _ =>
      let eh := match hint with Some h => be_enc 2 (len h) ++ h | None => [] end in
      match pk with
      | Some k => if 255 <? len k then None else Some (eh ++ len k :: k)   (* ErrPublicKeyTooLong *)
      | None => Some eh
      end
  end.

(* MessageClientKeyExchange.Unmarshal: opaque psk_identity<0..2^16-1> if PSK, then
   opaque point<1..255> if ECDHE - exactly the declared bytes; whatever follows is ignored.
   (The leading "len(data) < 2" check is implied by each of the three layouts.) *)
Definition odef (o : option bytes) : bytes := match o with Some b => b | None => [] end.
Definition w_cke_psk : wcodec cke :=
  w_map (fun h => (Some h, None)) (fun x => odef (fst x))
        (fun x => match x with (Some _, None) => true | _ => false end)
        (w_lenient (c_opaque 2)).
Definition w_cke_ecdhe : wcodec cke :=
  w_map (fun k => (None, Some k)) (fun x => odef (snd x))
        (fun x => match x with (None, Some _) => true | _ => false end)
        (w_lenient (c_opaque1 1)).
Definition w_cke_both : wcodec cke :=
  w_map (fun y => (Some (fst y), Some (snd y))) (fun x => (odef (fst x), odef (snd x)))
        (fun x => match x with (Some _, Some _) => true | _ => false end)
        (w_lenient (c_seq (c_opaque 2) (c_opaque1 1))).
(* ErrCipherSuiteUnset *)
Definition w_cke_unset : wcodec cke := {| wwf _ := false; wenc _ := None; wdec _ := None |}.
(* an algorithm value with neither bit (never constructed by the library): nothing is read *)
Definition w_cke_neither : wcodec cke :=
  {| wwf _ := false; wenc _ := None; wdec b := if len b <? 2 then None else Some (None, None) |}.

Definition w_cke_layout (kx : N) : wcodec cke :=
  if kx =? 0 then w_cke_unset
  else match kx_psk kx, kx_ecdhe kx with
       | true, true => w_cke_both
       | true, false => w_cke_psk
       | false, true => w_cke_ecdhe
       | false, false => w_cke_neither
       end.

Definition cke_dec (kx : N) (b : bytes) : option cke := wdec (w_cke_layout kx) b.
Definition cke_wf (kx : N) (x : cke) : bool := wwf (w_cke_layout kx) x.

(* the Go pair: context-free Marshal, context-dependent Unmarshal *)
Definition w_cke (kx : N) : wcodec cke := {| wwf := cke_wf kx; wenc := cke_enc; wdec := cke_dec kx |}.

(* ------------------------------------------------------------------ the message sum *)

Inductive hsmsg : Type :=
| MHelloVerifyRequest (x : N * (N * bytes))
| MFinished (vd : bytes)
| MServerHelloDone
| MKeyUpdate (r : N)
| MRequestConnectionID (n : N)
| MNewConnectionID (x : list bytes * N)
| MCertificate (certs : list bytes)
| MCertificateVerify (x : (N * N) * bytes)
| MClientKeyExchange (x : cke).

Definition msg_type (m : hsmsg) : N :=
  match m with
  | MHelloVerifyRequest _ => 3
  | MFinished _ => 20
  | MServerHelloDone => 14
  | MKeyUpdate _ => 24
  | MRequestConnectionID _ => 9
  | MNewConnectionID _ => 10
  | MCertificate _ => 11
  | MCertificateVerify _ => 15
  | MClientKeyExchange _ => 16
  end.

Definition msg_enc (m : hsmsg) : option bytes :=
  match m with
  | MHelloVerifyRequest x => wenc w_hvr x
  | MFinished x => wenc w_finished x
  | MServerHelloDone => wenc w_shd tt
  | MKeyUpdate x => wenc w_key_update x
  | MRequestConnectionID x => wenc w_req_cid x
  | MNewConnectionID x => wenc w_new_cid x
  | MCertificate x => wenc w_certificate x
  | MCertificateVerify x => wenc w_cert_verify x
  | MClientKeyExchange x => cke_enc x
  end.

Definition msg_wf (kx : N) (m : hsmsg) : bool :=
  match m with
  | MHelloVerifyRequest x => wwf w_hvr x
  | MFinished x => wwf w_finished x
  | MServerHelloDone => true
  | MKeyUpdate x => wwf w_key_update x
  | MRequestConnectionID x => wwf w_req_cid x
  | MNewConnectionID x => wwf w_new_cid x
  | MCertificate x => wwf w_certificate x
  | MCertificateVerify x => wwf w_cert_verify x
  | MClientKeyExchange x => cke_wf kx x
  end.

(* the message types of the switch in Handshake.Unmarshal that this model covers; the other
   implemented types (ClientHello, ServerHello, NewSessionTicket, EncryptedExtensions,
   ServerKeyExchange, CertificateRequest) are outside it and are skipped by the comparison *)
Definition msg_modelled (ty : N) : bool := negb (memN ty [1; 2; 4; 8; 12; 13]).

Definition msg_dec (kx : N) (ty : N) (b : bytes) : option hsmsg :=
  if ty =? 3 then omap MHelloVerifyRequest (wdec w_hvr b)
  else if ty =? 20 then omap MFinished (wdec w_finished b)
  else if ty =? 14 then omap (fun _ => MServerHelloDone) (wdec w_shd b)
  else if ty =? 24 then omap MKeyUpdate (wdec w_key_update b)
  else if ty =? 9 then omap MRequestConnectionID (wdec w_req_cid b)
  else if ty =? 10 then omap MNewConnectionID (wdec w_new_cid b)
  else if ty =? 11 then omap MCertificate (wdec w_certificate b)
  else if ty =? 15 then omap MCertificateVerify (wdec w_cert_verify b)
  else if ty =? 16 then omap MClientKeyExchange (cke_dec kx b)
  else None.                      (* HelloRequest and unknown types: ErrNotImplemented *)

(* ------------------------------------------------------------------ handshake.go envelope *)

Definition hh_type (h : hshdr) : N := fst h.
Definition hh_len (h : hshdr) : N := fst (snd h).
Definition hh_mseq (h : hshdr) : N := fst (snd (snd h)).
Definition hh_foff (h : hshdr) : N := fst (snd (snd (snd h))).
Definition hh_flen (h : hshdr) : N := snd (snd (snd (snd h))).
Definition mk_hshdr (t l ms fo fl : N) : hshdr := (t, (l, (ms, (fo, fl)))).

Definition hs : Type := (hshdr * hsmsg)%type.

(* Handshake.Unmarshal: header; len(data)-12 must equal Length and FragmentLength (the fragment
   offset is not looked at); message decoder chosen by type and key-exchange context *)
Definition hs_unmarshal (kx : N) (b : bytes) : option hs :=
  match dec c_hs_header b with
  | Some (h, body) =>
      if negb (len body =? hh_len h) then None
      else if negb (hh_len h =? hh_flen h) then None
      else match msg_dec kx (hh_type h) body with
           | Some m => Some (h, m)
           | None => None
           end
  | None => None
  end.

(* Handshake.Marshal: refuses FragmentOffset <> 0; Length := FragmentLength := len(body) (24 bits
   on the wire), Type := the message's type *)
Definition hs_marshal (x : hs) : option bytes :=
  let '(h, m) := x in
  if negb (hh_foff h =? 0) then None
  else match msg_enc m with
       | Some body =>
           match enc c_hs_header (mk_hshdr (msg_type m) (len body) (hh_mseq h) 0 (len body)) with
           | Some he => Some (he ++ body)
           | None => None
           end
       | None => None
       end.

Definition hs_wf (kx : N) (x : hs) : bool :=
  let '(h, m) := x in
  (hh_type h =? msg_type m) && (hh_mseq h <? 65536) && (hh_foff h =? 0) && msg_wf kx m &&
  match msg_enc m with
  | Some body => (hh_len h =? len body) && (hh_flen h =? len body) && (len body <? 16777216)
  | None => false
  end.

Definition w_hs (kx : N) : wcodec hs := {| wwf := hs_wf kx; wenc := hs_marshal; wdec := hs_unmarshal kx |}.
