(* C18 group 2 - theorems about the handshake message models of C18Hs.v. *)
From DtlsV Require Import Lib.Bytes Gen.Generated Codec.C18Comb Codec.C18CombSound
  Codec.C18Rec Codec.C18RecSound Codec.C18Ext Codec.C18ExtSound Codec.C18Hs.
From Coq Require Import ZifyN ZifyNat ZifyBool.
Open Scope N_scope.

(* ------------------------------------------------------------------ simple messages *)

Lemma sound_hvr : sound c_hvr.
Proof. unfold c_hvr. codec_tac. apply sound_vec, wsound_rest. Qed.
Lemma decok_hvr : dec_ok c_hvr.
Proof. unfold c_hvr. codec_tac. apply decok_vec, wdecok_rest. Qed.
Lemma trunc_hvr : trunc c_hvr.
Proof. unfold c_hvr. codec_tac. Qed.

Theorem hvr_roundtrip : wsound w_hvr.
Proof. apply wsound_lenient, sound_hvr. Qed.
Lemma hvr_decok : wdec_ok w_hvr.
Proof. apply wdecok_lenient, decok_hvr. Qed.
Theorem hvr_fixpoint : wfixpoint w_hvr.
Proof. apply wfixpoint_of; [apply hvr_roundtrip|apply hvr_decok]. Qed.
Theorem hvr_trunc : wtrunc w_hvr.
Proof. apply wtrunc_lenient, trunc_hvr. Qed.
(* bytes after the declared cookie length are not consumed (they are ignored) *)
Theorem hvr_beyond_cookie_ignored : wlenient w_hvr.
Proof. apply wlenient_lenient, sound_hvr. Qed.

Theorem finished_roundtrip : wsound w_finished.
Proof. exact wsound_rest. Qed.
Theorem finished_fixpoint : wfixpoint w_finished.
Proof. apply wfixpoint_of; [exact wsound_rest|exact wdecok_rest]. Qed.

Lemma shd_sound : wsound w_shd.
Proof. intros [] _. exists []. split; reflexivity. Qed.
Lemma shd_decok : wdec_ok w_shd.
Proof.
  intros b [] _ _. split; [reflexivity|]. exists []. split; [reflexivity|cbn; lia].
Qed.

Lemma sound_ku : sound (c_guard ku_ok ku_ok (c_u 1)).
Proof. apply sound_guard, sound_u. Qed.
Lemma decok_ku : dec_ok (c_guard ku_ok ku_ok (c_u 1)).
Proof. apply decok_guard; [intros a _ Hp; exact Hp|apply decok_u]. Qed.
Lemma trunc_ku : trunc (c_guard ku_ok ku_ok (c_u 1)).
Proof. apply trunc_guard, trunc_u. Qed.

Theorem key_update_roundtrip : wsound w_key_update.
Proof. apply wsound_exact, sound_ku. Qed.
Lemma key_update_decok : wdec_ok w_key_update.
Proof. apply wdecok_exact, decok_ku. Qed.
Theorem key_update_fixpoint : wfixpoint w_key_update.
Proof. apply wfixpoint_of; [apply key_update_roundtrip|apply key_update_decok]. Qed.
Theorem key_update_trunc : wtrunc w_key_update.
Proof. apply wtrunc_exact, trunc_ku. Qed.

Theorem req_cid_roundtrip : wsound w_req_cid.
Proof. apply wsound_exact, sound_u. Qed.
Lemma req_cid_decok : wdec_ok w_req_cid.
Proof. apply wdecok_exact, decok_u. Qed.
Theorem req_cid_fixpoint : wfixpoint w_req_cid.
Proof. apply wfixpoint_of; [apply req_cid_roundtrip|apply req_cid_decok]. Qed.
Theorem req_cid_trunc : wtrunc w_req_cid.
Proof. apply wtrunc_exact, trunc_u. Qed.

(* a list of length-prefixed opaque strings *)
Lemma wsound_opaque_list k : (0 < k)%nat -> wsound (w_list (c_vec k w_rest)).
Proof. intro Hk. apply wsound_list; [apply sound_vec, wsound_rest|apply nonempty_vec, Hk]. Qed.
Lemma wdecok_opaque_list k : wdec_ok (w_list (c_vec k w_rest)).
Proof. apply wdecok_list, decok_vec, wdecok_rest. Qed.

Lemma sound_new_cid : sound c_new_cid.
Proof. unfold c_new_cid. apply sound_seq; [apply sound_vec, wsound_opaque_list; lia|apply sound_ku]. Qed.
Lemma decok_new_cid : dec_ok c_new_cid.
Proof. unfold c_new_cid. apply decok_seq; [apply decok_vec, wdecok_opaque_list|apply decok_ku]. Qed.
Lemma trunc_new_cid : trunc c_new_cid.
Proof.
  unfold c_new_cid. apply trunc_seq; [apply sound_vec, wsound_opaque_list; lia|apply trunc_vec|apply trunc_ku].
Qed.
Theorem new_cid_roundtrip : wsound w_new_cid.
Proof. apply wsound_exact, sound_new_cid. Qed.
Lemma new_cid_decok : wdec_ok w_new_cid.
Proof. apply wdecok_exact, decok_new_cid. Qed.
Theorem new_cid_fixpoint : wfixpoint w_new_cid.
Proof. apply wfixpoint_of; [apply new_cid_roundtrip|apply new_cid_decok]. Qed.
Theorem new_cid_trunc : wtrunc w_new_cid.
Proof. apply wtrunc_exact, trunc_new_cid. Qed.

Theorem certificate_roundtrip : wsound w_certificate.
Proof. apply wsound_exact, sound_vec, wsound_opaque_list. lia. Qed.
Lemma certificate_decok : wdec_ok w_certificate.
Proof. apply wdecok_exact, decok_vec, wdecok_opaque_list. Qed.
Theorem certificate_fixpoint : wfixpoint w_certificate.
Proof. apply wfixpoint_of; [apply certificate_roundtrip|apply certificate_decok]. Qed.
Theorem certificate_trunc : wtrunc w_certificate.
Proof. apply wtrunc_exact, trunc_vec. Qed.

(* ------------------------------------------------------------------ signature schemes *)

Lemma assoc_in {B} k (l : list (N * B)) v : assoc k l = Some v -> In (k, v) l.
Proof.
  induction l as [|[k' v'] l IH]; cbn [assoc]; [discriminate|].
  destruct (N.eqb_spec k k') as [->|]; intro H.
  - inversion H; subst. left. reflexivity.
  - right. apply IH, H.
Qed.

(* lemma over the regenerated table: Marshal inverts Unmarshal on every accepted scheme *)
Lemma sigschemes_closed :
  forallb (fun e : N * (N * N) => sig_scheme_of (snd e) =? fst e) g_c18_sigschemes = true.
Proof. vm_compute. reflexivity. Qed.

Lemma sig_lookup_inv s hs : sig_lookup s = Some hs -> sig_scheme_of hs = s.
Proof.
  intro H. apply assoc_in in H.
  pose proof (proj1 (forallb_forall _ _) sigschemes_closed _ H) as E. cbn [fst snd] in E.
  apply N.eqb_eq in E. exact E.
Qed.

Lemma sound_sigalg : sound c_sigalg.
Proof.
  unfold c_sigalg. apply sound_map; [|apply sound_guard, sound_u].
  intros [h s] WB _. unfold sigalg_wf, sig_of_scheme in *.
  destruct (sig_lookup (sig_scheme_of (h, s))) as [[h' s']|]; [|discriminate].
  cbn [fst snd] in WB. apply andb_prop in WB. destruct WB as [E1 E2].
  apply N.eqb_eq in E1, E2. subst. reflexivity.
Qed.

Lemma decok_sigalg : dec_ok c_sigalg.
Proof.
  unfold c_sigalg. apply decok_map_iso.
  2:{ apply decok_guard; [reflexivity|apply decok_u]. }
  intros a W. unfold c_guard in W; cbn [wf] in W.
  apply andb_prop in W. destruct W as [_ Hin]. unfold sig_in_table in Hin.
  unfold sig_of_scheme, sigalg_wf. destruct (sig_lookup a) as [[h s]|] eqn:E; [|discriminate].
  pose proof (sig_lookup_inv _ _ E) as Hg. rewrite Hg, E. cbn [fst snd]. rewrite !N.eqb_refl.
  split; reflexivity.
Qed.

Lemma trunc_sigalg : trunc c_sigalg.
Proof. unfold c_sigalg. apply trunc_map, trunc_guard, trunc_u. Qed.

Lemma sound_cv_body : sound cv_body.
Proof. unfold cv_body. apply sound_seq; [apply sound_sigalg|apply sound_vec, wsound_rest]. Qed.
Lemma decok_cv_body : dec_ok cv_body.
Proof. unfold cv_body. apply decok_seq; [apply decok_sigalg|apply decok_vec, wdecok_rest]. Qed.
Lemma trunc_cv_body : trunc cv_body.
Proof. unfold cv_body. apply trunc_seq; [apply sound_sigalg|apply trunc_sigalg|apply trunc_vec]. Qed.

(* lemma over the regenerated table: outside RSA-PSS, hash and signature fit one byte each *)
Lemma sigschemes_fit :
  forallb (fun e : N * (N * N) => is_pss (snd (snd e)) || ((fst (snd e) <=? 255) && (snd (snd e) <=? 255)))
          g_c18_sigschemes = true.
Proof. vm_compute. reflexivity. Qed.

Lemma sigalg_wf_fits h s : sigalg_wf (h, s) = true -> is_pss s || ((h <=? 255) && (s <=? 255)) = true.
Proof.
  unfold sigalg_wf. destruct (sig_lookup (sig_scheme_of (h, s))) as [[h' s']|] eqn:E; [|discriminate].
  cbn [fst snd]. intro H. apply andb_prop in H. destruct H as [H1 H2]. apply N.eqb_eq in H1, H2. subst h' s'.
  apply assoc_in in E. exact (proj1 (forallb_forall _ _) sigschemes_fit _ E).
Qed.

Theorem cert_verify_roundtrip : wsound w_cert_verify.
Proof. apply wsound_guard, wsound_exact, sound_cv_body. Qed.
(* every accepted CertificateVerify - the RSA-PSS schemes included - re-encodes *)
Lemma cert_verify_decok : wdec_ok w_cert_verify.
Proof.
  apply wdecok_guard; [|apply wdecok_exact, decok_cv_body].
  intros [[h s] sg] W _. unfold w_exact, cv_body, c_seq, c_bind, c_sigalg, c_map in W; cbn [wwf wf fst snd] in W.
  apply andb_prop in W. destruct W as [W _]. apply andb_prop in W. destruct W as [W _].
  unfold cv_enc_ok. rewrite W, (sigalg_wf_fits h s W). reflexivity.
Qed.
Theorem cert_verify_fixpoint : wfixpoint w_cert_verify.
Proof. apply wfixpoint_of; [apply cert_verify_roundtrip|apply cert_verify_decok]. Qed.
Theorem cert_verify_refix : wrefix w_cert_verify.
Proof. apply wrefix_of; [apply cert_verify_roundtrip|apply cert_verify_decok]. Qed.
Theorem cert_verify_trunc : wtrunc w_cert_verify.
Proof. apply wtrunc_guard, wtrunc_exact, trunc_cv_body. Qed.

(* the regression input: rsa_pss_rsae_sha256 decodes and re-encodes to itself *)
Example cert_verify_pss_reencodes :
  obind (wdec w_cert_verify [8; 4; 0; 1; 170]) (wenc w_cert_verify) = Some [8; 4; 0; 1; 170].
Proof. vm_compute. reflexivity. Qed.

(* ------------------------------------------------------------------ ClientKeyExchange *)

Lemma take_app_len (p r : bytes) n : len p = n -> take n (p ++ r) = p.
Proof. intro H. subst n. apply take_app_exact. Qed.
Lemma drop_app_len (p r : bytes) n : len p = n -> drop n (p ++ r) = r.
Proof. intro H. subst n. apply drop_app_exact. Qed.

Lemma len_be_enc k n : len (be_enc k n) = N.of_nat k.
Proof. unfold len. now rewrite be_enc_length. Qed.

(* a codec whose encoder is replaced by one that agrees with it on the domain *)
Definition retarget {A} (w : wcodec A) (enc' : A -> option bytes) : wcodec A :=
  {| wwf := wwf w; wenc := enc'; wdec := wdec w |}.

Section Retarget.
  Context {A : Type} (w : wcodec A) (enc' : A -> option bytes).
  Hypothesis agree : forall a, wwf w a = true -> enc' a = wenc w a.

  Lemma wsound_retarget : wsound w -> wsound (retarget w enc').
  Proof.
    intros S a W. cbn [wwf wenc wdec retarget] in *. destruct (S a W) as [e [E D]].
    exists e. rewrite (agree a W). split; assumption.
  Qed.
  Lemma wdecok_retarget : wdec_ok w -> wdec_ok (retarget w enc').
  Proof.
    intros D b a Hb H. cbn [wwf wenc wdec retarget] in *. destruct (D b a Hb H) as [W [e [E L]]].
    split; [exact W|]. exists e. rewrite (agree a W). split; assumption.
  Qed.
  Lemma wtrunc_retarget : wtrunc w -> wtrunc (retarget w enc').
  Proof.
    intros T a e k W E Hk. cbn [wwf wenc wdec retarget] in *. rewrite (agree a W) in E. exact (T a e k W E Hk).
  Qed.
  Lemma wlenient_retarget : wlenient w -> wlenient (retarget w enc').
  Proof.
    intros S a rest W. cbn [wwf wenc wdec retarget] in *. destruct (S a rest W) as [e [E D]].
    exists e. rewrite (agree a W). split; assumption.
  Qed.
End Retarget.

(* the three layouts *)
Lemma cke_psk_fg (y : cke) : (match y with (Some _, None) => true | _ => false end) = true ->
  (Some (odef (fst y)), @None bytes) = y.
Proof. destruct y as [[h|] [k|]]; intro H; try discriminate. reflexivity. Qed.
Lemma cke_ecdhe_fg (y : cke) : (match y with (None, Some _) => true | _ => false end) = true ->
  (@None bytes, Some (odef (snd y))) = y.
Proof. destruct y as [[h|] [k|]]; intro H; try discriminate. reflexivity. Qed.
Lemma cke_both_fg (y : cke) : (match y with (Some _, Some _) => true | _ => false end) = true ->
  (Some (odef (fst y)), Some (odef (snd y))) = y.
Proof. destruct y as [[h|] [k|]]; intro H; try discriminate. reflexivity. Qed.

Lemma sound_cke_both_c : sound (c_seq (c_opaque 2) (c_opaque1 1)). Proof. ext_auto. Qed.
Lemma decok_cke_both_c : dec_ok (c_seq (c_opaque 2) (c_opaque1 1)). Proof. ext_auto. Qed.
Lemma trunc_cke_both_c : trunc (c_seq (c_opaque 2) (c_opaque1 1)). Proof. ext_auto. Qed.

Lemma cke_psk_sound : wsound w_cke_psk.
Proof. apply wsound_map; [intros y W _; apply cke_psk_fg, W|apply wsound_lenient; ext_auto]. Qed.
Lemma cke_psk_decok : wdec_ok w_cke_psk.
Proof. apply wdecok_map_iso; [intros a _; split; reflexivity|apply wdecok_lenient; ext_auto]. Qed.
Lemma cke_psk_trunc : wtrunc w_cke_psk.
Proof. apply wtrunc_map, wtrunc_lenient. ext_auto. Qed.
Lemma cke_psk_lenient : wlenient w_cke_psk.
Proof. apply wlenient_map; [intros y W _; apply cke_psk_fg, W|apply wlenient_lenient; ext_auto]. Qed.

Lemma cke_ecdhe_sound : wsound w_cke_ecdhe.
Proof. apply wsound_map; [intros y W _; apply cke_ecdhe_fg, W|apply wsound_lenient; ext_auto]. Qed.
Lemma cke_ecdhe_decok : wdec_ok w_cke_ecdhe.
Proof. apply wdecok_map_iso; [intros a _; split; reflexivity|apply wdecok_lenient; ext_auto]. Qed.
Lemma cke_ecdhe_trunc : wtrunc w_cke_ecdhe.
Proof. apply wtrunc_map, wtrunc_lenient. ext_auto. Qed.
Lemma cke_ecdhe_lenient : wlenient w_cke_ecdhe.
Proof. apply wlenient_map; [intros y W _; apply cke_ecdhe_fg, W|apply wlenient_lenient; ext_auto]. Qed.

Lemma cke_both_sound : wsound w_cke_both.
Proof. apply wsound_map; [intros y W _; apply cke_both_fg, W|apply wsound_lenient, sound_cke_both_c]. Qed.
Lemma cke_both_decok : wdec_ok w_cke_both.
Proof.
  apply wdecok_map_iso; [intros [h k] _; split; reflexivity|apply wdecok_lenient, decok_cke_both_c].
Qed.
Lemma cke_both_trunc : wtrunc w_cke_both.
Proof. apply wtrunc_map, wtrunc_lenient, trunc_cke_both_c. Qed.
Lemma cke_both_lenient : wlenient w_cke_both.
Proof. apply wlenient_map; [intros y W _; apply cke_both_fg, W|apply wlenient_lenient, sound_cke_both_c]. Qed.

Lemma be_enc1_small n : n < 256 -> be_enc 1 n = [n].
Proof.
  intro H. cbn [be_enc]. change (256 ^ N.of_nat 0) with 1. rewrite N.div_1_r, N.mod_small by exact H. reflexivity.
Qed.

(* on the domain of each layout the context-free Marshal produces the layout's encoding *)
Lemma cke_enc_agrees kx x : wwf (w_cke_layout kx) x = true -> cke_enc x = wenc (w_cke_layout kx) x.
Proof.
  unfold w_cke_layout. destruct (kx =? 0); [intro H; discriminate H|].
  destruct (kx_psk kx), (kx_ecdhe kx); destruct x as [[h|] [k|]];
    unfold w_cke_both, w_cke_psk, w_cke_ecdhe, w_cke_neither, w_map, w_lenient, c_seq, c_bind, c_opaque, c_opaque1,
      c_vec, w_check, w_guard, w_rest; cbn [wwf wenc wf enc fst snd odef andb]; intro W; try discriminate W.
  - (* both *)
    change (256 ^ N.of_nat 2) with 65536 in *. change (256 ^ N.of_nat 1) with 256 in *.
    destruct (len h <? 65536) eqn:Hh; [|rewrite !andb_false_r in W; discriminate W].
    apply andb_prop in W; destruct W as [_ W].
    apply andb_prop in W; destruct W as [W Hl]. apply andb_prop in W; destruct W as [_ Hnn].
    rewrite Hnn in Hl |- *. rewrite Hl. apply N.ltb_lt in Hl.
    unfold cke_enc. destruct (N.ltb_spec 255 (len k)) as [|_]; [lia|].
    rewrite (be_enc1_small _ Hl), <- app_assoc. reflexivity.
  - (* PSK *)
    change (256 ^ N.of_nat 2) with 65536 in *.
    destruct (len h <? 65536) eqn:Hh; [|rewrite !andb_false_r in W; discriminate W]. reflexivity.
  - (* ECDHE *)
    change (256 ^ N.of_nat 1) with 256 in *.
    apply andb_prop in W; destruct W as [W Hl]. apply andb_prop in W; destruct W as [_ Hnn].
    rewrite Hnn in Hl |- *. rewrite Hl. apply N.ltb_lt in Hl.
    unfold cke_enc. destruct (N.ltb_spec 255 (len k)) as [|_]; [lia|].
    rewrite (be_enc1_small _ Hl). reflexivity.
Qed.

Lemma w_cke_retarget kx : w_cke kx = retarget (w_cke_layout kx) cke_enc.
Proof. reflexivity. Qed.

Lemma cke_layout_sound kx : wsound (w_cke_layout kx).
Proof.
  unfold w_cke_layout. destruct (kx =? 0); [intros a W; discriminate W|].
  destruct (kx_psk kx), (kx_ecdhe kx);
    [apply cke_both_sound|apply cke_psk_sound|apply cke_ecdhe_sound|intros a W; discriminate W].
Qed.
Lemma cke_layout_trunc kx : wtrunc (w_cke_layout kx).
Proof.
  unfold w_cke_layout. destruct (kx =? 0); [intros a e k W; discriminate W|].
  destruct (kx_psk kx), (kx_ecdhe kx);
    [apply cke_both_trunc|apply cke_psk_trunc|apply cke_ecdhe_trunc|intros a e k W; discriminate W].
Qed.
Lemma cke_layout_lenient kx : wlenient (w_cke_layout kx).
Proof.
  unfold w_cke_layout. destruct (kx =? 0); [intros a r W; discriminate W|].
  destruct (kx_psk kx), (kx_ecdhe kx);
    [apply cke_both_lenient|apply cke_psk_lenient|apply cke_ecdhe_lenient|intros a r W; discriminate W].
Qed.
Lemma cke_layout_decok kx : kx_psk kx || kx_ecdhe kx = true -> wdec_ok (w_cke_layout kx).
Proof.
  unfold w_cke_layout. destruct (kx =? 0); [intros _ b a _ H; discriminate H|].
  destruct (kx_psk kx), (kx_ecdhe kx); intro H; try discriminate H;
    [apply cke_both_decok|apply cke_psk_decok|apply cke_ecdhe_decok].
Qed.

Theorem cke_roundtrip kx : wsound (w_cke kx).
Proof. rewrite w_cke_retarget. apply wsound_retarget; [apply cke_enc_agrees|apply cke_layout_sound]. Qed.
(* truncating an encoded ClientKeyExchange is rejected *)
Theorem cke_trunc kx : wtrunc (w_cke kx).
Proof. rewrite w_cke_retarget. apply wtrunc_retarget; [apply cke_enc_agrees|apply cke_layout_trunc]. Qed.
(* declared lengths are honoured: bytes after the declared identity / public key are never
   consumed - appending anything to an encoding decodes to the same value *)
Theorem cke_beyond_declared_ignored kx : wlenient (w_cke kx).
Proof. rewrite w_cke_retarget. apply wlenient_retarget; [apply cke_enc_agrees|apply cke_layout_lenient]. Qed.
(* under every real key-exchange context an accepted input re-encodes to a fixed point *)
Lemma cke_decok kx : kx_psk kx || kx_ecdhe kx = true -> wdec_ok (w_cke kx).
Proof.
  intro H. rewrite w_cke_retarget. apply wdecok_retarget; [apply cke_enc_agrees|apply cke_layout_decok, H].
Qed.
Theorem cke_fixpoint kx : kx_psk kx || kx_ecdhe kx = true -> wfixpoint (w_cke kx).
Proof. intro H. apply wfixpoint_of; [apply cke_roundtrip|apply cke_decok, H]. Qed.

Theorem cke_refix kx : wrefix (w_cke kx).
Proof.
  destruct (kx_psk kx || kx_ecdhe kx) eqn:H.
  - apply wrefix_of; [apply cke_roundtrip|apply cke_decok, H].
  - intros b x e Hb Hd He. exfalso. cbn [wenc wdec w_cke] in *. unfold cke_dec, w_cke_layout in Hd.
    apply orb_false_iff in H. destruct H as [H1 H2]. rewrite H1, H2 in Hd.
    destruct (kx =? 0); [discriminate Hd|]. cbn [wdec w_cke_neither] in Hd.
    destruct (len b <? 2); [discriminate Hd|]. inversion Hd; subst x. discriminate He.
Qed.

(* the regression inputs of the repaired decoder: no value where the old code indexed past the
   end; exactly the declared key, the byte after it ignored; an empty key refused *)
Example cke_regressions :
  cke_dec 6 [0; 0] = None /\ cke_dec 4 [0; 0] = None /\
  cke_dec 4 [1; 170; 0] = Some (None, Some [170]) /\
  cke_dec 4 [1; 170; 187; 204] = Some (None, Some [170]) /\
  cke_dec 6 [0; 1; 9; 1; 170; 187] = Some (Some [9], Some [170]).
Proof. vm_compute. repeat split; reflexivity. Qed.

(* ------------------------------------------------------------------ the message switch *)

Lemma msg_roundtrip kx m : msg_wf kx m = true ->
  exists e, msg_enc m = Some e /\ msg_dec kx (msg_type m) e = Some m.
Proof.
  destruct m; cbn [msg_wf msg_enc msg_type]; intro W; unfold msg_dec; cbn [N.eqb Pos.eqb].
  - destruct (hvr_roundtrip x W) as [e [E D]]. exists e. rewrite D. split; [exact E|reflexivity].
  - destruct (finished_roundtrip vd W) as [e [E D]]. exists e. rewrite D. split; [exact E|reflexivity].
  - exists []. split; reflexivity.
  - destruct (key_update_roundtrip r W) as [e [E D]]. exists e. rewrite D. split; [exact E|reflexivity].
  - destruct (req_cid_roundtrip n W) as [e [E D]]. exists e. rewrite D. split; [exact E|reflexivity].
  - destruct (new_cid_roundtrip x W) as [e [E D]]. exists e. rewrite D. split; [exact E|reflexivity].
  - destruct (certificate_roundtrip certs W) as [e [E D]]. exists e. rewrite D. split; [exact E|reflexivity].
  - destruct (cert_verify_roundtrip x W) as [e [E D]]. exists e. rewrite D. split; [exact E|reflexivity].
  - destruct (cke_roundtrip kx x W) as [e [E D]]. exists e. cbn [wenc wdec w_cke] in *.
    rewrite D. split; [exact E|reflexivity].
Qed.

Lemma msg_dec_type kx ty b m : msg_dec kx ty b = Some m -> msg_type m = ty.
Proof.
  unfold msg_dec.
  repeat match goal with
         | |- context [if ?x =? ?y then _ else _] => destruct (N.eqb_spec x y) as [->|]
         end; try discriminate;
    match goal with |- omap _ ?o = _ -> _ => destruct o as [v|]; [|discriminate] end;
    cbn [omap]; intro Hx; inversion Hx; subst m; reflexivity.
Qed.

Ltac refix_case R Hb E He :=
  let L := fresh "L" in let a' := fresh "a'" in let D' := fresh "D'" in let E' := fresh "E'" in
  destruct (R _ _ _ Hb E He) as [L [a' [D' E']]]; split; [exact L|];
  eexists; rewrite D'; cbn [omap]; split; [reflexivity|]; cbn [msg_enc msg_type]; split; [exact E'|reflexivity].

Lemma msg_refix kx ty b m e : bytes_ok b = true -> msg_dec kx ty b = Some m -> msg_enc m = Some e ->
  (length e <= length b)%nat /\
  exists m', msg_dec kx ty e = Some m' /\ msg_enc m' = Some e /\ msg_type m' = ty.
Proof.
  intros Hb. unfold msg_dec.
  repeat match goal with
         | |- context [if ?x =? ?y then _ else _] => destruct (N.eqb_spec x y) as [->|]
         end; try discriminate;
    match goal with |- omap _ ?o = _ -> _ => destruct o as [v|] eqn:E; [|discriminate] end;
    cbn [omap]; intro Hx; inversion Hx; subst m; clear Hx; cbn [msg_enc]; intro He.
  - refix_case (wrefix_of _ hvr_roundtrip hvr_decok) Hb E He.
  - refix_case (wrefix_of w_finished wsound_rest wdecok_rest) Hb E He.
  - refix_case (wrefix_of _ shd_sound shd_decok) Hb E He.
  - refix_case (wrefix_of _ key_update_roundtrip key_update_decok) Hb E He.
  - refix_case (wrefix_of _ req_cid_roundtrip req_cid_decok) Hb E He.
  - refix_case (wrefix_of _ new_cid_roundtrip new_cid_decok) Hb E He.
  - refix_case (wrefix_of _ certificate_roundtrip certificate_decok) Hb E He.
  - refix_case cert_verify_refix Hb E He.
  - destruct (cke_refix kx _ _ _ Hb E He) as [L [a' [D' E']]]. cbn [wdec wenc w_cke] in *.
    split; [exact L|]. eexists. rewrite D'. cbn [omap]. split; [reflexivity|].
    cbn [msg_enc msg_type]. split; [exact E'|reflexivity].
Qed.

(* ------------------------------------------------------------------ the envelope *)

Lemma hs_header_enc t l ms fo fl :
  enc c_hs_header (mk_hshdr t l ms fo fl) =
  Some (be_enc 1 t ++ be_enc 3 l ++ be_enc 2 ms ++ be_enc 3 fo ++ be_enc 3 fl).
Proof. reflexivity. Qed.

Lemma hs_header_wf t l ms fo fl :
  wf c_hs_header (mk_hshdr t l ms fo fl) = true <->
  t < 256 /\ l < 16777216 /\ ms < 65536 /\ fo < 16777216 /\ fl < 16777216.
Proof.
  unfold c_hs_header, c_seq, c_bind, c_u, mk_hshdr; cbn [wf fst snd].
  change (256 ^ N.of_nat 1) with 256. change (256 ^ N.of_nat 2) with 65536.
  change (256 ^ N.of_nat 3) with 16777216.
  split.
  - intro H. repeat (apply andb_prop in H; destruct H as [? H]). lia.
  - intros (H1 & H2 & H3 & H4 & H5). repeat (apply andb_true_intro; split); lia.
Qed.

Lemma hs_header_enc_len h e : enc c_hs_header h = Some e -> length e = 12%nat.
Proof.
  destruct h as [t [l [ms [fo fl]]]]. intro H. change (t, (l, (ms, (fo, fl)))) with (mk_hshdr t l ms fo fl) in H.
  rewrite hs_header_enc in H.
  assert (He : e = be_enc 1 t ++ be_enc 3 l ++ be_enc 2 ms ++ be_enc 3 fo ++ be_enc 3 fl) by congruence.
  subst e. rewrite !app_length, !be_enc_length. reflexivity.
Qed.

Lemma msg_type_byte m : msg_type m < 256.
Proof. destruct m; cbn; lia. Qed.

Theorem hs_roundtrip kx : wsound (w_hs kx).
Proof.
  intros [h m] W. cbn [wwf wenc wdec w_hs] in *. unfold hs_wf in W.
  destruct (msg_enc m) as [body|] eqn:Eb; [|rewrite andb_false_r in W; discriminate].
  repeat (apply andb_prop in W; destruct W as [W ?]).
  repeat match goal with Hx : _ && _ = true |- _ => apply andb_prop in Hx; destruct Hx end.
  repeat match goal with Hx : (_ =? _) = true |- _ => apply N.eqb_eq in Hx end.
  destruct h as [t [l [ms [fo fl]]]].
  unfold hh_type, hh_len, hh_mseq, hh_foff, hh_flen in *; cbn [fst snd] in *. subst.
  destruct (msg_roundtrip kx m) as [e' [E' Dm]]; [assumption|]. rewrite Eb in E'. inversion E'; subst e'.
  unfold hs_marshal. cbn [hh_foff fst snd N.eqb negb]. rewrite Eb.
  unfold hh_mseq; cbn [fst snd].
  assert (Wh : wf c_hs_header (mk_hshdr (msg_type m) (len body) ms 0 (len body)) = true).
  { apply hs_header_wf. pose proof (msg_type_byte m). lia. }
  destruct (sound_hs_header _ body Wh) as [he [Eh Dh]]. rewrite Eh.
  exists (he ++ body). split; [reflexivity|].
  unfold hs_unmarshal. rewrite Dh. unfold mk_hshdr, hh_len, hh_flen, hh_type; cbn [fst snd].
  rewrite N.eqb_refl. cbn [negb]. rewrite Dm. reflexivity.
Qed.

Theorem hs_refix kx : wrefix (w_hs kx).
Proof.
  intros b [h m] e Hb Hd He. cbn [wenc wdec w_hs] in *. unfold hs_unmarshal in Hd.
  destruct (dec c_hs_header b) as [[h0 body]|] eqn:Eh; [|discriminate].
  destruct (N.eqb_spec (len body) (hh_len h0)) as [Hl|]; [|discriminate]. cbn [negb] in Hd.
  destruct (N.eqb_spec (hh_len h0) (hh_flen h0)) as [Hfl|]; [|discriminate]. cbn [negb] in Hd.
  destruct (msg_dec kx (hh_type h0) body) as [m0|] eqn:Em; [|discriminate].
  inversion Hd; subst h0 m0; clear Hd.
  destruct (decok_hs_header _ _ _ Hb Eh) as [Wh [he0 [p [Ehe0 [Hbp Lp]]]]].
  assert (Hbody : bytes_ok body = true) by (rewrite Hbp in Hb; apply (bytes_ok_app_inv _ _ Hb)).
  unfold hs_marshal in He.
  destruct (N.eqb_spec (hh_foff h) 0) as [Hfo|]; [|discriminate]. cbn [negb] in He.
  destruct (msg_enc m) as [body'|] eqn:Eb; [|discriminate].
  destruct (msg_refix _ _ _ _ _ Hbody Em Eb) as [Lb [m' [Dm' [Em' Tm']]]].
  destruct h as [t [l [ms [fo fl]]]].
  unfold hh_type, hh_len, hh_mseq, hh_foff, hh_flen in *; cbn [fst snd] in *.
  pose proof (proj1 (hs_header_wf t l ms fo fl) Wh) as (H1 & H2 & H3 & H4 & H5).
  assert (Hlb : len body' < 16777216) by (unfold len in *; lia).
  pose proof (msg_dec_type _ _ _ _ Em) as Tm.
  assert (Wh' : wf c_hs_header (mk_hshdr (msg_type m) (len body') ms 0 (len body')) = true).
  { apply hs_header_wf. rewrite Tm. lia. }
  destruct (sound_hs_header _ body' Wh') as [he [Ehe Dhe]]. rewrite Ehe in He.
  inversion He; subst e; clear He.
  pose proof (hs_header_enc_len _ _ Ehe) as Lhe. pose proof (hs_header_enc_len _ _ Ehe0) as Lhe0.
  split.
  { rewrite Hbp, !app_length. lia. }
  exists (mk_hshdr (msg_type m) (len body') ms 0 (len body'), m'). split.
  - unfold hs_unmarshal. rewrite Dhe. unfold mk_hshdr, hh_len, hh_flen, hh_type; cbn [fst snd].
    rewrite N.eqb_refl. cbn [negb]. rewrite Tm, Dm'. reflexivity.
  - unfold hs_marshal, mk_hshdr, hh_foff, hh_mseq; cbn [fst snd N.eqb negb]. rewrite Em'.
    rewrite Tm', <- Tm. fold (mk_hshdr (msg_type m) (len body') ms 0 (len body')). rewrite Ehe. reflexivity.
Qed.

(* REFUTED: "every accepted input re-encodes" - Unmarshal does not look at the fragment offset,
   Marshal refuses a non-zero one. *)
Theorem hs_fragment_reencode_refuted :
  exists b x, bytes_ok b = true /\ hs_unmarshal 0 b = Some x /\ hs_marshal x = None.
Proof.
  exists [20; 0; 0; 1; 0; 0; 0; 0; 5; 0; 0; 1; 170]. eexists. split; [reflexivity|].
  split; [vm_compute; reflexivity|]. vm_compute; reflexivity.
Qed.

(* truncating an encoded handshake message is always rejected: the envelope carries the length *)
Theorem hs_trunc kx : wtrunc (w_hs kx).
Proof.
  intros [h m] e k W He Hk. cbn [wwf wenc wdec w_hs] in *. unfold hs_wf in W.
  destruct (msg_enc m) as [body|] eqn:Eb; [|rewrite andb_false_r in W; discriminate].
  repeat (apply andb_prop in W; destruct W as [W ?]).
  repeat match goal with Hx : _ && _ = true |- _ => apply andb_prop in Hx; destruct Hx end.
  repeat match goal with Hx : (_ =? _) = true |- _ => apply N.eqb_eq in Hx end.
  destruct h as [t [l [ms [fo fl]]]].
  unfold hh_type, hh_len, hh_mseq, hh_foff, hh_flen in *; cbn [fst snd] in *. subst.
  unfold hs_marshal in He. cbn [hh_foff fst snd N.eqb negb] in He. rewrite Eb in He.
  unfold hh_mseq in He; cbn [fst snd] in He.
  assert (Wh : wf c_hs_header (mk_hshdr (msg_type m) (len body) ms 0 (len body)) = true).
  { apply hs_header_wf. pose proof (msg_type_byte m). lia. }
  destruct (enc c_hs_header (mk_hshdr (msg_type m) (len body) ms 0 (len body))) as [he|] eqn:Ehe; [|discriminate].
  inversion He; subst e; clear He. rewrite app_length in Hk.
  unfold hs_unmarshal.
  destruct (Nat.lt_ge_cases k (length he)) as [Hlt|Hge].
  - rewrite firstn_app_lt by lia. rewrite (trunc_hs_header _ _ _ Wh Ehe Hlt). reflexivity.
  - rewrite firstn_app_ge by exact Hge.
    destruct (sound_hs_header _ (firstn (k - length he) body) Wh) as [he' [Ehe' Dhe]].
    rewrite Ehe in Ehe'. inversion Ehe'; subst he'. rewrite Dhe.
    unfold mk_hshdr, hh_len; cbn [fst snd].
    destruct (N.eqb_spec (len (firstn (k - length he) body)) (len body)) as [Hbad|]; [|reflexivity].
    unfold len in Hbad. rewrite firstn_length in Hbad. lia.
Qed.

(* ------------------------------------------------------------------ RecordLayer with the real handshake codec *)

(* RecordLayer.Unmarshal builds &handshake.Handshake{} : no key-exchange context (kx = 0) *)
Definition hs0_refix : forall b x e, bytes_ok b = true -> wdec (w_hs 0) b = Some x -> wenc (w_hs 0) x = Some e ->
    exists x', wdec (w_hs 0) e = Some x' /\ wenc (w_hs 0) x' = Some e :=
  fun b x e Hb Hd He => proj2 (hs_refix 0 b x e Hb Hd He).

Theorem record12_roundtrip x : record_wf (w_hs 0) x = true ->
  exists e, record_marshal (w_hs 0) x = Some e /\ record_unmarshal (w_hs 0) 0 e = Some x.
Proof. exact (record_roundtrip (w_hs 0) (hs_roundtrip 0) x). Qed.

Theorem record12_fixpoint_bytes n b x e : bytes_ok b = true ->
  record_unmarshal (w_hs 0) n b = Some x -> record_marshal (w_hs 0) x = Some e ->
  exists x', record_unmarshal (w_hs 0) 0 e = Some x' /\ record_marshal (w_hs 0) x' = Some e /\
             (is_hs (snd x) = false -> snd x' = snd x).
Proof. exact (record_fixpoint_bytes (w_hs 0) (hs_roundtrip 0) hs0_refix n b x e). Qed.

Theorem record12_reencodes n b x : bytes_ok b = true -> record_unmarshal (w_hs 0) n b = Some x ->
  is_hs (snd x) = false ->
  exists ce, content_enc (w_hs 0) (snd x) = Some ce /\
             (len ce <= 65535 -> exists e, record_marshal (w_hs 0) x = Some e).
Proof. exact (record_reencodes (w_hs 0) (hs_roundtrip 0) hs0_refix n b x). Qed.

Theorem record12_marshal_declares_length h c e : record_marshal (w_hs 0) (h, c) = Some e ->
  exists he ce, e = he ++ ce /\ content_enc (w_hs 0) c = Some ce /\ len ce <= 65535 /\
    enc (c_header (length (h_cid h)))
        (mk_hdr (content_type c) (h_maj h) (h_min h) (h_epoch h) (h_seq h) (h_cid h) (len ce)) = Some he.
Proof. exact (record_marshal_declares_length (w_hs 0) h c e). Qed.

Theorem record12_marshal_wrap_as_coded_refuted :
  exists e, record_marshal_gen (w_hs 0) true (rec_wrap_witness (H := hs)) = Some e /\
            firstn 2 (skipn 11 e) = [0; 10] /\ len e = 13 + 65546 /\
            unpack_datagram e = None /\ record_marshal (w_hs 0) rec_wrap_witness = None.
Proof. exact (record_marshal_wrap_as_coded_refuted (w_hs 0)). Qed.

Theorem record12_oversize_not_reencoded :
  exists b h d, bytes_ok b = true /\ record_unmarshal (w_hs 0) 0 b = Some (h, CAppData d) /\ len d = 65536 /\
                record_marshal (w_hs 0) (h, CAppData d) = None.
Proof. exact (record_oversize_not_reencoded (w_hs 0)). Qed.

Theorem record12_declared_length_refuted :
  exists b h d, record_unmarshal (w_hs 0) 0 b = Some (h, CAppData d) /\ h_len h = 0 /\ d = [1; 2; 3].
Proof. exact (record_declared_length_refuted (w_hs 0)). Qed.

Theorem record12_value_fixpoint_refuted :
  exists b x e, bytes_ok b = true /\ record_unmarshal (w_hs 0) 0 b = Some x /\
                record_marshal (w_hs 0) x = Some e /\ record_unmarshal (w_hs 0) 0 e <> Some x.
Proof. exact (record_value_fixpoint_refuted (w_hs 0)). Qed.

(* a truncated application-data record is accepted (with shorter data): nothing compares the
   declared ContentLen with what is there *)
Theorem record12_trunc_refuted :
  exists x e k, record_wf (w_hs 0) x = true /\ record_marshal (w_hs 0) x = Some e /\ (k < length e)%nat /\
                record_unmarshal (w_hs 0) 0 (firstn k e) <> None.
Proof.
  exists (mk_hdr 23 254 253 0 1 [] 3, CAppData [1; 2; 3]). eexists. exists 15%nat.
  split; [vm_compute; reflexivity|]. split; [vm_compute; reflexivity|].
  split; [cbn; lia|]. vm_compute. discriminate.
Qed.
