(* C18 group 2 - models of ServerKeyExchange and CertificateRequest (DTLS 1.2), the two handshake
   messages whose Go decoders are not plain left-to-right parsers (definitions only).
   They are NOT part of the message sum of C18Hs.v: ServerKeyExchange does not satisfy the
   conditional fixed point that the envelope theorem needs (see [ske_fixpoint_refuted]). *)
From DtlsV Require Import Lib.Bytes Gen.Generated Codec.C18Comb Codec.C18Rec Codec.C18Hs Codec.C18Ext.
Open Scope N_scope.

Definition is_nil' (b : bytes) : bool := match b with [] => true | _ => false end.

(* ------------------------------------------------------------------ generic: optional tail *)

(* nothing left -> None; otherwise the rest decoded as a whole *)
Definition w_opt_end {A} (w : wcodec A) : wcodec (option A) :=
  {| wwf o := match o with
              | None => true
              | Some a => wwf w a && match wenc w a with Some e => nonnil e | None => false end
              end;
     wenc o := match o with None => Some [] | Some a => wenc w a end;
     wdec b := match b with [] => Some None | _ => omap Some (wdec w b) end |}.

(* ------------------------------------------------------------------ ServerKeyExchange *)

Definition is_curve_type (t : N) : bool := memN t g_c18_curve_types.
Definition is_known_curve (c : N) : bool := memN c g_c18_curves.

(* ECParameters + ECPoint: curve_type (named_curve), namedcurve, opaque point<0..255> *)
Definition c_ecdhe_params : codec (N * (N * bytes)) :=
  c_seq (c_check is_curve_type (c_u 1)) (c_seq (c_check is_known_curve (c_u 2)) (c_opaque 1)).
(* digitally-signed: SignatureAndHashAlgorithm, opaque signature<0..2^16-1>; bytes after it ignored *)
Definition c_ske_sig : codec ((N * N) * bytes) := c_seq c_sigalg (c_opaque 2).
Definition w_ske_ecdhe : wcodec ((N * (N * bytes)) * option ((N * N) * bytes)) :=
  w_seq c_ecdhe_params (w_opt_end (w_lenient c_ske_sig)).

(* the Go struct: (IdentityHint or nil, (EllipticCurveType, (NamedCurve, (PublicKey,
   (HashAlgorithm, (SignatureAlgorithm, Signature)))))) *)
Definition ske : Type := (option bytes * (N * (N * (bytes * (N * (N * bytes))))))%type.
Definition ske_flat (hint : option bytes) (x : (N * (N * bytes)) * option ((N * N) * bytes)) : ske :=
  let '((ct, (cv, pk)), sg) := x in
  match sg with
  | Some ((h, s), sb) => (hint, (ct, (cv, (pk, (h, (s, sb))))))
  | None => (hint, (ct, (cv, (pk, (0, (0, []))))))
  end.
Definition ske_none (hint : option bytes) : ske := (hint, (0, (0, ([], (0, (0, [])))))).

(* MessageServerKeyExchange.Unmarshal under key-exchange context kx *)
Definition ske_dec (kx : N) (b : bytes) : option ske :=
  if len b <? 2 then None                                            (* ErrBufferTooSmall *)
  else if kx =? 0 then None                                          (* ErrCipherSuiteUnset *)
  else
    let hl := be_dec (firstn 2 b) in
    (* the first two bytes are taken as an identity-hint length only if that many bytes follow;
       otherwise parsing silently restarts at offset 0 without a hint *)
    let '(hint, data) :=
      if (hl <=? len b - 2) && kx_psk kx
      then (Some (take hl (skipn 2 b)), drop hl (skipn 2 b))
      else (None, b) in
    if kx =? 2 then (if is_nil' data then Some (ske_none hint) else None)
    else if negb (kx_ecdhe kx) then None
    else omap (ske_flat hint) (wdec w_ske_ecdhe data).

(* MessageServerKeyExchange.Marshal (no context) *)
Definition ske_enc (x : ske) : option bytes :=
  let '(hint, (ct, (cv, (pk, (h, (s, sg)))))) := x in
  let eh := match hint with Some hb => be_enc 2 (len hb) ++ hb | None => [] end in
  if (ct =? 0) || is_nil' pk then Some eh
  else
    let out := eh ++ be_enc 1 ct ++ be_enc 2 cv ++ be_enc 1 (len pk) ++ pk in
    if negb (h =? 0) && is_nil' sg then None                        (* ErrInvalidSignHashAlgorithm *)
    else if (h =? 0) && negb (is_nil' sg) then None
    else if (s =? 0) && (negb (h =? 0) || negb (is_nil' sg)) then None
    else if s =? 0 then Some out
    else Some (out ++ be_enc 2 (sig_scheme_of (h, s)) ++ be_enc 2 (len sg) ++ sg).

(* the domain on which ServerKeyExchange round-trips *)
Definition ske_wf (kx : N) (x : ske) : bool :=
  let '(hint, (ct, (cv, (pk, (h, (s, sg)))))) := x in
  negb (kx =? 0) &&
  match hint with
  | Some hb => kx_psk kx && (len hb <? 65536) && bytes_ok hb
  | None => negb (kx_psk kx)
  end &&
  (if kx_ecdhe kx then
     is_curve_type ct && (ct <? 256) && negb (ct =? 0) && is_known_curve cv && (cv <? 65536) &&
     nonnil pk && (len pk <=? 255) && bytes_ok pk &&
     (if s =? 0 then (h =? 0) && is_nil' sg
      else negb (h =? 0) && nonnil sg && (len sg <? 65536) && bytes_ok sg && sigalg_wf (h, s) &&
           (sig_scheme_of (h, s) <? 65536))
   else (kx =? 2) && (ct =? 0) && (cv =? 0) && is_nil' pk && (h =? 0) && (s =? 0) && is_nil' sg).

Definition w_ske (kx : N) : wcodec ske := {| wwf := ske_wf kx; wenc := ske_enc; wdec := ske_dec kx |}.

(* ------------------------------------------------------------------ CertificateRequest *)

Definition is_cert_type (t : N) : bool := memN t g_c18_cert_types.

(* ClientCertificateType certificate_types<1..2^8-1>: unknown types are dropped *)
Definition c_cr_types : codec (list N) :=
  c_vec 1 (w_map (filter is_cert_type) (fun l => l) (forallb is_cert_type) (w_list (c_u 1))).

Fixpoint chunk2 (b : bytes) : list N :=
  match b with
  | x :: y :: b' => (x * 256 + y) :: chunk2 b'
  | _ => []
  end.
Fixpoint filter_map {A B} (f : A -> option B) (l : list A) : list B :=
  match l with
  | [] => []
  | a :: l' => match f a with Some b => b :: filter_map f l' | None => filter_map f l' end
  end.

(* supported_signature_algorithms<2..2^16-2>.  The loop steps by two up to the declared length
   sl.  Since 6845684 an odd sl is refused (ErrLengthMismatch).  [lenient = true] is the decoder
   as coded before that commit: when sl is odd the last step reads one byte BEYOND the declared
   vector (and fails only if there is none).  Unknown schemes are skipped. *)
Definition cr_sigs_dec_gen (lenient : bool) (sl : N) (r : bytes) : option (list (N * N)) :=
  if negb lenient && (sl mod 2 =? 1) then None
  else
    let n := sl + sl mod 2 in
    if len r <? n then None else Some (filter_map sig_lookup (chunk2 (take n r))).
Definition cr_sigs_dec : N -> bytes -> option (list (N * N)) := cr_sigs_dec_gen false.

Definition c_cr_cas : codec (list bytes) := c_vec 2 (w_list (c_opaque 2)).

Definition certreq : Type := (list N * (list (N * N) * list bytes))%type.

(* MessageCertificateRequest.Unmarshal; bytes after the authorities are ignored *)
Definition cr_dec_gen (lenient : bool) (b : bytes) : option certreq :=
  if len b <? 5 then None
  else
    match dec c_cr_types b with
    | None => None
    | Some (tys, r1) =>
        match dec (c_u 2) r1 with
        | None => None
        | Some (sl, r2) =>
            if len r2 <? sl then None
            else match cr_sigs_dec_gen lenient sl r2 with
                 | None => None
                 | Some sigs =>
                     match dec c_cr_cas (drop sl r2) with
                     | Some (cas, _) => Some (tys, (sigs, cas))
                     | None => None
                     end
                 end
        end
    end.

Definition cr_dec : bytes -> option certreq := cr_dec_gen false.

Fixpoint cas_len (cas : list bytes) : N :=
  match cas with [] => 0 | ca :: cas' => len ca + 2 + cas_len cas' end.

(* MessageCertificateRequest.Marshal.  Since 1dbb75b the two 16-bit vectors are checked
   (ErrCertificateRequestTooLong); [wrap = true] is the encoder as coded before that commit: the
   lengths were cast to 16 bits, i.e. written modulo 65536 ([be_enc 2] keeps the low 16 bits). *)
Definition cr_enc_gen (wrap : bool) (x : certreq) : option bytes :=
  let '(tys, (sigs, cas)) := x in
  if (255 <? N.of_nat (length tys)) then None                       (* ErrCertificateTypesTooLong *)
  else if negb wrap && ((65535 <? N.of_nat (length sigs) * 2) || (65535 <? cas_len cas)) then None
  else
    Some (be_enc 1 (N.of_nat (length tys)) ++ flat_map (be_enc 1) tys ++
          be_enc 2 (N.of_nat (length sigs) * 2) ++ flat_map (fun a => be_enc 2 (sig_scheme_of a)) sigs ++
          be_enc 2 (cas_len cas) ++ flat_map (fun ca => be_enc 2 (len ca) ++ ca) cas).

Definition cr_enc : certreq -> option bytes := cr_enc_gen false.

Definition cr_wf (x : certreq) : bool :=
  let '(tys, (sigs, cas)) := x in
  (N.of_nat (length tys) <=? 255) && forallb is_cert_type tys && forallb (fun t => t <? 256) tys &&
  (N.of_nat (length sigs) * 2 <? 65536) && forallb sigalg_wf sigs &&
  forallb (fun a => sig_scheme_of a <? 65536) sigs &&
  (cas_len cas <? 65536) && forallb bytes_ok cas.

Definition w_certreq : wcodec certreq := {| wwf := cr_wf; wenc := cr_enc; wdec := cr_dec |}.
